#!/usr/bin/env python3
"""Development tool: every corpus program must pass on the unchanged tree (a corpus program that
fails there is either a genuine defect or a bad harvest; it is never left in the corpus silently)."""
import glob, json, os, sys
VERIF = os.path.dirname(os.path.dirname(os.path.abspath(__file__)))
sys.path.insert(0, os.path.join(VERIF, "harness"))
import campaign

if __name__ == "__main__":
    files = sorted(glob.glob(os.path.join(VERIF, "corpus", "*", "*.json")))
    progs = [json.load(open(f)) for f in files]
    bad = 0
    with campaign.pool(8) as p:
        for f, r in zip(files, p.map(campaign.run_fixed, progs)):
            prop = os.path.basename(os.path.dirname(f))
            mine = [x for x in r["findings"] if x[0] in (prop, "HARNESS")]
            other = [x for x in r["findings"] if x[0] not in (prop, "HARNESS")]
            tag = "FAIL" if mine else ("other" if other else "ok")
            if mine:
                bad += 1
            print(tag, os.path.relpath(f, VERIF), len(json.load(open(f))["steps"]), "steps", (mine or other or [""])[0])
    sys.exit(1 if bad else 0)
