#!/usr/bin/env python3
"""Development tool (not a registered check): mutation sweep.

Builds single-site AST mutants of the library in scratch copies under /tmp (never touches /repo),
runs a program campaign (and optionally the function-level correspondences) against each with
PYTHONPATH pointing at the copy, and records which mutants produce no finding at all.  Survivors are
then run against the unedited test suite: a survivor that also passes the suite is a candidate gap
(or an equivalent mutant) and is looked at by hand.

usage: mutate.py list                      # number of candidate sites per file/operator
       mutate.py run N SEED [focus ...]    # sample N mutants, campaign per focus (default C07 C02)
"""
import ast, copy, json, os, random, re, shutil, subprocess, sys, time

REPO = "/repo"
VERIF = os.path.dirname(os.path.dirname(os.path.abspath(__file__)))
FILES = ["photon_weave/state/composite_envelope.py", "photon_weave/state/envelope.py", "photon_weave/state/base_state.py",
         "photon_weave/state/fock.py", "photon_weave/state/polarization.py", "photon_weave/state/custom_state.py",
         "photon_weave/extra/einsum_constructor.py", "photon_weave/_math/ops.py", "photon_weave/operation/operation.py",
         "photon_weave/operation/fock_operation.py", "photon_weave/operation/polarization_operation.py",
         "photon_weave/operation/composite_operation.py", "photon_weave/operation/custom_state_operation.py",
         "photon_weave/extra/expression_interpreter.py", "photon_weave/operation/helpers/fock_dimension_esitmation.py"]

CMP = {ast.Lt: ast.LtE, ast.LtE: ast.Lt, ast.Gt: ast.GtE, ast.GtE: ast.Gt, ast.Eq: ast.NotEq, ast.NotEq: ast.Eq, ast.Is: ast.IsNot, ast.IsNot: ast.Is}


class Sites(ast.NodeVisitor):
    """enumerate candidate mutation sites as (operator name, node id)"""

    def __init__(self):
        self.sites = []
        self.fn = None

    def visit_FunctionDef(self, node):
        old, self.fn = self.fn, node.name
        # deletable statements: expression statements that are calls (e.g. self.reorder(...))
        for st in ast.walk(node):
            pass
        self.generic_visit(node)
        self.fn = old

    def generic_visit(self, node):
        if self.fn and self.fn not in ("__repr__", "__init__doc"):
            if isinstance(node, ast.Call):
                f = ast.unparse(node.func)
                if f in ("jnp.conj", "jnp.conjugate", "np.conj") and len(node.args) == 1:
                    self.sites.append(("drop_conj", node))
                if f == "jnp.trace":
                    self.sites.append(("trace_to_norm", node))
                if f in ("jnp.einsum",) and len(node.args) >= 3:
                    self.sites.append(("swap_einsum_args", node))
                if f.endswith(".transpose") or f == "jnp.transpose":
                    self.sites.append(("drop_transpose", node))
            if isinstance(node, ast.Compare) and len(node.ops) == 1 and type(node.ops[0]) in CMP:
                self.sites.append(("flip_compare", node))
            if isinstance(node, ast.BoolOp):
                self.sites.append(("and_or", node))
            if isinstance(node, ast.BinOp) and isinstance(node.op, (ast.Add, ast.Sub)) and isinstance(node.right, ast.Constant) and node.right.value in (1, 2):
                self.sites.append(("off_by_one", node))
            if isinstance(node, ast.BinOp) and isinstance(node.op, ast.Mult) and isinstance(node.right, ast.Constant) and node.right.value == 2:
                self.sites.append(("times_two", node))
            if isinstance(node, ast.Subscript) and isinstance(node.slice, ast.Constant) and node.slice.value in (0, 1) and isinstance(node.ctx, ast.Load):
                self.sites.append(("index_01", node))
            if isinstance(node, ast.Expr) and isinstance(node.value, ast.Call):
                f = ast.unparse(node.value.func)
                if not f.startswith(("logger", "print", "warnings")):
                    self.sites.append(("delete_call_stmt", node))
            if isinstance(node, ast.If) and not node.orelse:
                self.sites.append(("negate_if", node))
            if isinstance(node, ast.Attribute) and node.attr == "T" and isinstance(node.ctx, ast.Load):
                self.sites.append(("drop_T", node))
            if isinstance(node, ast.UnaryOp) and isinstance(node.op, ast.USub):
                self.sites.append(("drop_neg", node))
            if isinstance(node, ast.Constant) and isinstance(node.value, complex):
                self.sites.append(("conj_const", node))
        super().generic_visit(node)


def apply(op, node):
    """mutate node in place"""
    if op == "drop_conj":
        a = node.args[0]
        node.func = ast.Name("_identity_", ast.Load())
        return "x"
    if op == "trace_to_norm":
        node.func = ast.parse("jnp.linalg.norm").body[0].value
    elif op == "swap_einsum_args":
        node.args[1], node.args[2] = node.args[2], node.args[1]
    elif op == "drop_transpose":
        node.func = ast.Name("_first_", ast.Load())
    elif op == "flip_compare":
        node.ops = [CMP[type(node.ops[0])]()]
    elif op == "and_or":
        node.op = ast.Or() if isinstance(node.op, ast.And) else ast.And()
    elif op == "off_by_one":
        node.op = ast.Sub() if isinstance(node.op, ast.Add) else ast.Add()
    elif op == "times_two":
        node.right = ast.Constant(1)
    elif op == "index_01":
        node.slice = ast.Constant(1 - node.slice.value)
    elif op == "delete_call_stmt":
        node.value = ast.Constant(None)
    elif op == "negate_if":
        node.test = ast.UnaryOp(ast.Not(), node.test)
    elif op == "drop_T":
        return "attr"
    elif op == "drop_neg":
        node.op = ast.UAdd()
    elif op == "conj_const":
        node.value = node.value.conjugate()
    return None


PRELUDE = "\ndef _identity_(x, *a, **k):\n    return x\n\ndef _first_(x, *a, **k):\n    return x\n"


def candidates():
    out = []
    for f in FILES:
        src = open(os.path.join(REPO, f)).read()
        tree = ast.parse(src)
        s = Sites()
        s.visit(tree)
        for k, (op, node) in enumerate(s.sites):
            out.append((f, k, op, getattr(node, "lineno", 0), s.fn))
    return out


def build(f, k, dest):
    """scratch copy of the package with mutant (f, k) applied; returns description"""
    if os.path.exists(dest):
        shutil.rmtree(dest)
    shutil.copytree(os.path.join(REPO, "photon_weave"), os.path.join(dest, "photon_weave"), ignore=shutil.ignore_patterns("__pycache__"))
    src = open(os.path.join(REPO, f)).read()
    tree = ast.parse(src)
    s = Sites()
    s.visit(tree)
    op, node = s.sites[k]
    before = ast.unparse(node)[:160]
    line = getattr(node, "lineno", 0)
    r = apply(op, node)
    if r == "attr":
        # replace `X.T` by `X`: find parent
        for parent in ast.walk(tree):
            for field, val in ast.iter_fields(parent):
                if val is node:
                    setattr(parent, field, node.value)
                elif isinstance(val, list):
                    for i, v in enumerate(val):
                        if v is node:
                            val[i] = node.value
    ast.fix_missing_locations(tree)
    new = ast.unparse(tree)
    # keep `from __future__` first
    lines = new.split("\n")
    ins = 0
    for i, l in enumerate(lines[:40]):
        if l.startswith("from __future__"):
            ins = i + 1
    lines.insert(ins, PRELUDE)
    open(os.path.join(dest, f), "w").write("\n".join(lines))
    return {"file": f, "site": k, "op": op, "line": line, "before": before}


def run_campaign(dest, focus, n, steps, base):
    env = dict(os.environ, PYTHONPATH=dest, JAX_PLATFORMS="cpu")
    t0 = time.time()
    p = subprocess.run(f"timeout 900 /venv/bin/python {VERIF}/harness/campaign.py {focus} {n} {steps} {base}", shell=True, env=env,
                       stdout=subprocess.PIPE, stderr=subprocess.STDOUT, text=True, cwd=VERIF)
    out = [l for l in p.stdout.splitlines() if l and not l.startswith(("wall", "WARNING", "An NVIDIA"))]
    ok = [l for l in out if re.match(r"^\d+ ok", l)]
    finds = [l for l in out if not re.match(r"^\d+ ok", l) and not re.match(r"^\d+ KNOWN", l)]
    return {"focus": focus, "ok": ok[0] if ok else "", "findings": finds[:4], "nfind": len(finds), "wall": round(time.time() - t0)}


def run_suite(dest):
    env = dict(os.environ, PYTHONPATH=dest, JAX_PLATFORMS="cpu")
    wt = dest + "_tests"
    if os.path.exists(wt):
        shutil.rmtree(wt)
    os.makedirs(wt)
    shutil.copytree(os.path.join(REPO, "tests"), os.path.join(wt, "tests"), ignore=shutil.ignore_patterns("__pycache__"))
    for extra in ("pyproject.toml", "pytest.ini", "setup.cfg", "conftest.py"):
        if os.path.exists(os.path.join(REPO, extra)):
            shutil.copy(os.path.join(REPO, extra), wt)
    shutil.copytree(os.path.join(dest, "photon_weave"), os.path.join(wt, "photon_weave"))
    p = subprocess.run("timeout 1500 /venv/bin/python -m pytest -q -p no:cacheprovider --timeout=900 -n 8 --dist loadfile 2>&1 | tail -25", shell=True,
                       env=dict(env, PYTHONPATH=wt), cwd=wt, stdout=subprocess.PIPE, stderr=subprocess.STDOUT, text=True)
    failed = sorted(l.split(" ")[1] for l in p.stdout.splitlines() if l.startswith("FAILED "))
    summ = p.stdout.strip().splitlines()[-1] if p.stdout.strip() else ""
    shutil.rmtree(wt, ignore_errors=True)
    return summ, failed


def norm(x):
    return x.strip().replace("/", ".").replace(".py::", ".").replace("::", ".")


if __name__ == "__main__":
    cmd = sys.argv[1]
    C = candidates()
    if cmd == "list":
        import collections
        c = collections.Counter((f.split("/")[-1], op) for f, k, op, line, fn in C)
        for k, v in sorted(c.items()):
            print(v, k)
        print(len(C), "sites")
        sys.exit(0)
    if cmd == "one":
        # mutate.py one FILE SITE focus... : run campaigns of the given focuses against one mutant
        f, k = sys.argv[2], int(sys.argv[3])
        dest = f"/tmp/mut_one_{os.getpid()}"
        d = build(f, k, dest)
        print(json.dumps(d))
        for fo in sys.argv[4:]:
            print(json.dumps(run_campaign(dest, fo, 96, 8, 4000)))
        shutil.rmtree(dest, ignore_errors=True)
        sys.exit(0)
    n, seed = int(sys.argv[2]), int(sys.argv[3])
    focuses = sys.argv[4:] or ["C07", "C02"]
    rng = random.Random(seed)
    sample = rng.sample(C, min(n, len(C)))
    base_fail = set(norm(l) for l in open("/tmp/baseline_always_fail.txt"))
    outp = f"/tmp/mutation_{seed}.jsonl"
    for (f, k, op, line, fn) in sample:
        dest = f"/tmp/mut_{seed}"
        try:
            d = build(f, k, dest)
        except Exception as ex:
            print("build failed", f, k, op, ex)
            continue
        # does it import?
        p = subprocess.run("/venv/bin/python -c 'import photon_weave.state.composite_envelope, photon_weave.operation'", shell=True,
                           env=dict(os.environ, PYTHONPATH=dest, JAX_PLATFORMS="cpu"), stdout=subprocess.PIPE, stderr=subprocess.STDOUT, text=True)
        if p.returncode != 0:
            d["result"] = "import-error"
        else:
            d["campaigns"] = []
            for fo in focuses:
                r = run_campaign(dest, fo, 64, 8, 7000 + seed * 1000)
                d["campaigns"].append(r)
                if r["nfind"]:
                    break
            if any(r["nfind"] for r in d["campaigns"]):
                d["result"] = "detected"
            else:
                summ, failed = run_suite(dest)
                d["suite"] = summ
                extra = set(norm(x) for x in failed) - base_fail
                d["result"] = "killed-by-suite" if extra or "passed" not in summ else "SURVIVOR"
        print(json.dumps({k2: v for k2, v in d.items() if k2 != "campaigns"} | {"finding": (d.get("campaigns") or [{}])[-1].get("findings", [])[:1]}), flush=True)
        open(outp, "a").write(json.dumps(d) + "\n")
        shutil.rmtree(dest, ignore_errors=True)
