#!/usr/bin/env python3
"""Development tool (not a registered check): confirm each seeded change in a scratch worktree
(applies, existing suite unchanged, demo fails with / passes without), then run the property's quick
check against /repo with the change applied and record whether it is caught."""
import glob, json, os, subprocess, sys, tempfile, shutil

VERIF = os.path.dirname(os.path.dirname(os.path.abspath(__file__)))
BASE_FAIL = set(l.strip().replace("::Test", "::Test") for l in open("/tmp/baseline_always_fail.txt")) if os.path.exists("/tmp/baseline_always_fail.txt") else None


def sh(cmd, cwd=None, env=None, timeout=3000):
    p = subprocess.run(cmd, shell=True, cwd=cwd, env=env, stdout=subprocess.PIPE, stderr=subprocess.STDOUT, text=True, timeout=timeout)
    return p.returncode, p.stdout


def main(srcdir, ids, run_suite=True, run_checks=True):
    out = {}
    for sid in ids:
        d = os.path.join(srcdir, sid)
        patch = os.path.join(d, "patch.diff")
        res = {"id": sid}
        wt = tempfile.mkdtemp(prefix="wt_verify_", dir="/tmp")
        os.rmdir(wt)
        sh(f"git -C /repo worktree add -q --detach {wt} HEAD")
        try:
            rc, o = sh(f"git apply {patch}", cwd=wt)
            if rc != 0:
                rc, o = sh(f"git apply --3way {patch}", cwd=wt)
            res["applies"] = rc == 0
            if rc != 0:
                res["apply_error"] = o[-300:]
                out[sid] = res
                print(json.dumps(res, indent=1), flush=True)
                continue
            env = dict(os.environ, PYTHONPATH=wt, JAX_PLATFORMS="cpu")
            rc, o = sh(f"/venv/bin/python {os.path.join(d, 'demo.py')}", cwd=wt, env=env, timeout=1200)
            res["demo_changed_exit"] = rc
            res["demo_changed_tail"] = o[-200:]
            if run_suite:
                rc, o = sh("/venv/bin/python -m pytest -q -p no:cacheprovider --timeout=900 -n 8 --dist loadfile 2>&1 | tail -25", cwd=wt, env=env)
                res["suite_summary"] = o.strip().splitlines()[-1] if o.strip() else ""
                res["suite_failed"] = sorted(l.split(" ")[1] for l in o.splitlines() if l.startswith("FAILED "))
            sh(f"git apply -R {patch}", cwd=wt)
            sh("git checkout -- .", cwd=wt)
            rc, o = sh(f"/venv/bin/python {os.path.join(d, 'demo.py')}", cwd=wt, env=env, timeout=1200)
            res["demo_unchanged_exit"] = rc
        finally:
            sh(f"git -C /repo worktree remove --force {wt}")
        if run_checks and res.get("applies"):
            prop = sid.split("-")[0]
            rc, o = sh(f"git -C /repo apply {patch} || git -C /repo apply --3way {patch}")
            try:
                rc, o = sh(f"./check {prop}", cwd=VERIF, timeout=3000)
                res["check_exit"] = rc
                res["check_tail"] = "\n".join(o.strip().splitlines()[-4:])
                import re as _re
                m = _re.search(r"VIOLATION property=(\S+) replay=(\S+)", o)
                if m:
                    try:
                        rp = json.load(open(os.path.join(VERIF, m.group(2))))
                        res["violation_kind"] = "failing-input" if ("program" in rp or "finding" in rp) else "no-failing-input-found"
                        res["violation_finding"] = str(rp.get("finding", rp.get("broken")))[:300]
                        if "program" in rp and os.environ.get("HARVEST_CORPUS"):
                            cd = os.path.join(VERIF, "corpus", prop)
                            os.makedirs(cd, exist_ok=True)
                            json.dump(rp["program"], open(os.path.join(cd, f"seed-{sid}.json"), "w"), indent=1)
                    except Exception as ex:
                        res["violation_kind"] = f"?{ex}"
            finally:
                sh("git -C /repo checkout -- . && git -C /repo reset -q")
        out[sid] = res
        print(json.dumps(res, indent=1), flush=True)
    return out


if __name__ == "__main__":
    src = os.path.abspath(sys.argv[1])
    ids = sys.argv[2:] or sorted(os.listdir(src))
    r = main(src, ids, run_suite=not os.environ.get("SKIP_SUITE"), run_checks=not os.environ.get("SKIP_CHECKS"))
    json.dump(r, open(os.environ.get("VERIFY_OUT", "/tmp/verify_seeds.json"), "w"), indent=1)
