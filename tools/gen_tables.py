#!/venv/bin/python
"""Translator: regenerate lean/PW/Generated/Tables.lean from /repo's current source.

What is translated (constant tables only; everything else is tied by the correspondence check):
  * every hard-coded einsum string literal outside extra/einsum_constructor.py, with file and
    enclosing function, relabelled by first appearance;
  * the parameter-free gate matrices of _math/ops.py as tables of symbolic atoms
    (0, ±1, ±i, ±h (h = 1/sqrt 2), w (= e^{i pi/4}), (1±i)/2), obtained by calling the functions;
  * per operation-enum member: renormalize flag, required parameters, required expansion level,
    expected operand kinds (composite types).
Theorems over these tables (`decide`) are re-checked by `lake build` on every run.
"""
import ast, glob, os, re, sys, warnings
warnings.filterwarnings("ignore")
REPO = os.environ.get("PW_REPO", "/repo")
OUT = os.path.join(os.path.dirname(os.path.dirname(os.path.abspath(__file__))), "lean", "PW", "Generated", "Tables.lean")
sys.path.insert(0, REPO)
import numpy as np

EINSUM_RE = re.compile(r"^[a-z]+(,[a-z]+)*->[a-z]*$")


def canon(s):
    m, out = {}, []
    for ch in s:
        if ch.isalpha():
            m.setdefault(ch, chr(97 + len(m)))
            out.append(m[ch])
        else:
            out.append(ch)
    return "".join(out)


def hardcoded():
    rows = []
    for fn in sorted(glob.glob(os.path.join(REPO, "photon_weave", "**", "*.py"), recursive=True)):
        rel = os.path.relpath(fn, REPO)
        if rel.endswith("einsum_constructor.py"):
            continue
        tree = ast.parse(open(fn).read())
        for f in ast.walk(tree):
            if isinstance(f, (ast.FunctionDef, ast.AsyncFunctionDef)):
                found = []
                for n in ast.walk(f):
                    if isinstance(n, ast.Constant) and isinstance(n.value, str) and EINSUM_RE.match(n.value):
                        found.append((n.lineno, n.col_offset, n.value))
                for (_, _, v) in sorted(found):
                    rows.append((rel, f.name, canon(v)))
    return rows


ATOMS = [("zero", 0), ("one", 1), ("negOne", -1), ("i", 1j), ("negI", -1j), ("h", 2**-0.5), ("negH", -(2**-0.5)),
         ("w", np.exp(1j * np.pi / 4)), ("halfOnePlusI", (1 + 1j) / 2), ("halfOneMinusI", (1 - 1j) / 2)]


def atom(z):
    for name, v in ATOMS:
        if abs(complex(z) - v) < 1e-12:
            return name
    return "other"


def gates():
    import photon_weave._math.ops as O
    names = ["identity_operator", "hadamard_operator", "x_operator", "y_operator", "z_operator", "s_operator", "t_operator",
             "sx_operator", "controlled_not_operator", "controlled_z_operator", "swap_operator", "controlled_swap_operator"]
    out = []
    for n in names:
        try:
            m = np.asarray(getattr(O, n)())
            tab = [[atom(x) for x in row] for row in m]
        except Exception:
            tab = [["other"]]
        out.append((n, tab))
    return out


def enums():
    from photon_weave.operation import FockOperationType, PolarizationOperationType, CompositeOperationType, CustomStateOperationType
    rows = []
    for cls in (FockOperationType, PolarizationOperationType, CustomStateOperationType, CompositeOperationType):
        for m in cls:
            v = m.value
            ren, req = bool(v[0]), [str(x) for x in v[1]]
            if cls is CompositeOperationType:
                kinds, lvl = [x if isinstance(x, str) else getattr(x, "__name__", str(x)) for x in v[2]], int(v[3])
            else:
                kinds, lvl = [], int(v[2])
            rows.append((cls.__name__, m.name, ren, req, kinds, lvl))
    return rows


def norm_src(node):
    return re.sub(r"\s+", " ", ast.unparse(node)).replace("1.0", "1")


def contract_sites():
    """decision logic of every `contract` method: (file, class, default of `tol`, purity tests
    `jnp.abs(<x> - 1) <op> <tol>`, arguments of `jnp.argmax`)"""
    rows = []
    for fn in sorted(glob.glob(os.path.join(REPO, "photon_weave", "state", "*.py"))):
        rel = os.path.relpath(fn, REPO)
        tree = ast.parse(open(fn).read())
        for cls in [n for n in ast.walk(tree) if isinstance(n, ast.ClassDef)]:
            for f in cls.body:
                if isinstance(f, ast.FunctionDef) and f.name == "contract":
                    args = f.args
                    names = [a.arg for a in args.args]
                    defaults = dict(zip(names[len(names) - len(args.defaults):], args.defaults))
                    tol = norm_src(defaults["tol"]) if "tol" in defaults else "none"
                    tests, picks, other = [], [], []
                    for n in ast.walk(f):
                        if isinstance(n, ast.Compare) and isinstance(n.left, ast.Call) and norm_src(n.left.func) == "jnp.abs" \
                                and not any(isinstance(p, ast.Call) and norm_src(p.func) == "jnp.argmax" and any(n is q for q in ast.walk(p)) for p in ast.walk(f)):
                            arg = n.left.args[0]
                            shape = "abs(x - 1)" if isinstance(arg, ast.BinOp) and isinstance(arg.op, ast.Sub) and norm_src(arg.right) == "1" else norm_src(n.left)
                            tests.append(f"{shape} {norm_src(n).split(norm_src(n.left), 1)[1].strip()}")
                        if isinstance(n, ast.Call) and norm_src(n.func) == "jnp.argmax":
                            picks.append(norm_src(n.args[0]))
                        if isinstance(n, ast.Call) and norm_src(n.func) in ("jnp.isclose", "jnp.allclose", "np.isclose", "np.allclose"):
                            other.append(norm_src(n))
                    rows.append((rel, cls.name, tol, tests, picks + other))
    return rows


def kraus_check_source():
    """normalised statements of `kraus_identity_check` (_math/ops.py)"""
    fn = os.path.join(REPO, "photon_weave", "_math", "ops.py")
    tree = ast.parse(open(fn).read())
    for f in ast.walk(tree):
        if isinstance(f, ast.FunctionDef) and f.name == "kraus_identity_check":
            names = [a.arg for a in f.args.args]
            defaults = dict(zip(names[len(names) - len(f.args.defaults):], f.args.defaults))
            body = [norm_src(st) for st in f.body if not (isinstance(st, ast.Expr) and isinstance(st.value, ast.Constant))]
            return [("tol=" + (norm_src(defaults["tol"]) if "tol" in defaults else "none"))] + body
    return []


def guards():
    """every `raise` that sits directly under an `if` in the state / operation modules:
    (file, class.function, normalised test, exception type) -- the request validation of the library"""
    rows = []
    files = sorted(glob.glob(os.path.join(REPO, "photon_weave", "state", "*.py"))) + \
        [os.path.join(REPO, "photon_weave", "operation", "operation.py"), os.path.join(REPO, "photon_weave", "_math", "ops.py")]
    for fn in files:
        rel = os.path.relpath(fn, REPO)
        tree = ast.parse(open(fn).read())

        def walk(node, qual):
            for ch in ast.iter_child_nodes(node):
                if isinstance(ch, ast.ClassDef):
                    walk(ch, ch.name)
                elif isinstance(ch, (ast.FunctionDef, ast.AsyncFunctionDef)):
                    name = f"{qual}.{ch.name}" if qual else ch.name
                    for n in ast.walk(ch):
                        if isinstance(n, ast.If):
                            for b in n.body:
                                if isinstance(b, ast.Raise) and b.exc is not None:
                                    exc = b.exc.func if isinstance(b.exc, ast.Call) else b.exc
                                    rows.append((rel, name, norm_src(n.test).replace('"', "'"), norm_src(exc)))
                else:
                    walk(ch, qual)
        walk(tree, "")
    return rows


def resize_guards():
    """every comparison that mentions `num_quanta` in a `resize` / `resize_fock` method:
    (file, class.function, normalised comparison) -- the decision whether a shrink is allowed"""
    rows = []
    for fn in sorted(glob.glob(os.path.join(REPO, "photon_weave", "state", "*.py"))):
        rel = os.path.relpath(fn, REPO)
        tree = ast.parse(open(fn).read())
        for cls in [n for n in ast.walk(tree) if isinstance(n, ast.ClassDef)]:
            for f in cls.body:
                if isinstance(f, ast.FunctionDef) and f.name in ("resize", "resize_fock"):
                    for n in ast.walk(f):
                        if isinstance(n, ast.Compare) and "num_quanta" in norm_src(n):
                            rows.append((rel, f"{cls.name}.{f.name}", norm_src(n)))
    return rows


def lstr(xs):
    return "[" + ", ".join('"' + x + '"' for x in xs) + "]"


def main():
    L = ["/- GENERATED by tools/gen_tables.py from the current source of /repo — do not edit. -/", "namespace PW.Generated", ""]
    L.append("/-- (file, function, einsum string relabelled by first appearance) for every hard-coded einsum literal -/")
    L.append("def hardcodedEinsum : List (String × String × String) := [")
    rows = hardcoded()
    L += [f'  ("{a}", "{b}", "{c}")' + ("," if k < len(rows) - 1 else "") for k, (a, b, c) in enumerate(rows)]
    L.append("]\n")
    L.append("/-- the same literals as label lists: (file, function, input label lists, output labels) -/")
    L.append("def hardcodedPlans : List (String × String × List (List Nat) × List Nat) := [")
    def plan(sv):
        lhs, rhs = sv.split("->")
        ins = "[" + ", ".join("[" + ", ".join(str(ord(ch) - 97) for ch in part) + "]" for part in lhs.split(",")) + "]"
        out = "[" + ", ".join(str(ord(ch) - 97) for ch in rhs) + "]"
        return ins, out
    for k, (a, b, c) in enumerate(rows):
        ins, out = plan(c)
        L.append(f'  ("{a}", "{b}", {ins}, {out})' + ("," if k < len(rows) - 1 else ""))
    L.append("]\n")
    L.append("/-- parameter-free gate matrices as tables of symbolic atoms -/")
    L.append("def gateTables : List (String × List (List String)) := [")
    g = gates()
    for k, (n, tab) in enumerate(g):
        L.append(f'  ("{n}", [' + ", ".join(lstr(r) for r in tab) + "])" + ("," if k < len(g) - 1 else ""))
    L.append("]\n")
    L.append("/-- (enum, member, renormalize, required parameters, expected operand kinds, required level) -/")
    L.append("def opTable : List (String × String × Bool × List String × List String × Nat) := [")
    e = enums()
    for k, (c, m, ren, req, kinds, lvl) in enumerate(e):
        L.append(f'  ("{c}", "{m}", {"true" if ren else "false"}, {lstr(req)}, {lstr(kinds)}, {lvl})' + ("," if k < len(e) - 1 else ""))
    L.append("]\n")
    L.append("/-- decision logic of every `contract` method: (file, class, default tol, purity tests, argmax arguments) -/")
    L.append("def contractSites : List (String × String × String × List String × List String) := [")
    cs = contract_sites()
    for k, (a, b, c, d, e2) in enumerate(cs):
        L.append(f'  ("{a}", "{b}", "{c}", {lstr(d)}, {lstr(e2)})' + ("," if k < len(cs) - 1 else ""))
    L.append("]\n")
    L.append("/-- request validation: every `raise` directly under an `if` (file, class.function, test, exception) -/")
    L.append("def guardTable : List (String × String × String × String) := [")
    gs = guards()
    for k, (a, b, c, d) in enumerate(gs):
        L.append(f'  ("{a}", "{b}", "{c}", "{d}")' + ("," if k < len(gs) - 1 else ""))
    L.append("]\n")
    L.append("/-- shrink decisions: comparisons on `num_quanta` in the resize methods (file, class.function, comparison) -/")
    L.append("def resizeGuards : List (String × String × String) := [")
    rg = resize_guards()
    for k, (a, b, c) in enumerate(rg):
        L.append(f'  ("{a}", "{b}", "{c}")' + ("," if k < len(rg) - 1 else ""))
    L.append("]\n")
    L.append("/-- normalised source of `kraus_identity_check` -/")
    L.append("def krausCheckSource : List String := " + lstr([x.replace('"', "'") for x in kraus_check_source()]) + "\n")
    L.append("end PW.Generated")
    txt = "\n".join(L) + "\n"
    os.makedirs(os.path.dirname(OUT), exist_ok=True)
    old = open(OUT).read() if os.path.exists(OUT) else None
    if old != txt:
        open(OUT, "w").write(txt)
        print("tables regenerated (changed)")
    else:
        print("tables regenerated (unchanged)")


if __name__ == "__main__":
    main()
