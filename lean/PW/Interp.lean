import PW.Ops
/-!
# Model of `photon_weave/extra/expression_interpreter.py` (Mathlib-free, executable)

Expressions are Lisp-style trees; leaves are numbers, matrices, or names resolved through a
context (the harness sends the value the context returns for the *dimension list*, so a wrong
dimension list shows up as a value mismatch).  Values are scalars or square matrices with
numpy's broadcasting rules for `+ - * /`.
-/
namespace PW.Interp
open PW PW.Ops

inductive Val where
  | num (z : CF)
  | mat (m : Mat)
deriving Inhabited

inductive Expr where
  | num (z : CF)
  | mat (m : Mat)
  | name (s : String)
  | node (head : String) (args : List Expr)
deriving Inhabited

abbrev Ctx := String → Option Val

def zipMat (f : CF → CF → CF) (a b : Mat) : Except String Val :=
  if a.n = b.n then .ok (.mat (Mat.ofFn a.n fun r c => f (a.get r c) (b.get r c)))
  else .error "shape"

/-- numpy broadcasting of a binary scalar function -/
def broadcast (f : CF → CF → CF) : Val → Val → Except String Val
  | .num a, .num b => .ok (.num (f a b))
  | .num a, .mat b => .ok (.mat (Mat.ofFn b.n fun r c => f a (b.get r c)))
  | .mat a, .num b => .ok (.mat (Mat.ofFn a.n fun r c => f (a.get r c) b))
  | .mat a, .mat b => zipMat f a b

def vAdd := broadcast (· + ·)
def vSub := broadcast (· - ·)
def vMul := broadcast (· * ·)
def vDiv := broadcast (· / ·)

def vMatMul : Val → Val → Except String Val
  | .mat a, .mat b => if a.n = b.n then .ok (.mat (Mat.mul a b)) else .error "shape"
  | _, _ => .error "matmul of a scalar"

def kronMat (a b : Mat) : Mat :=
  Mat.ofFn (a.n * b.n) fun r c => a.get (r / b.n) (c / b.n) * b.get (r % b.n) (c % b.n)

def vKron : Val → Val → Except String Val
  | .num a, .num b => .ok (.num (a * b))
  | .num a, .mat b => .ok (.mat (Mat.smul a b))
  | .mat a, .num b => .ok (.mat (Mat.smul b a))
  | .mat a, .mat b => .ok (.mat (kronMat a b))

def vExpm : Val → Except String Val
  | .mat a => .ok (.mat (Mat.expm a))
  | .num _ => .error "expm of a scalar"

/-- left fold of a binary operation over already evaluated arguments (`result = f(result, arg)`) -/
def foldVals (f : Val → Val → Except String Val) : List Val → Except String Val
  | [] => .error "no arguments"
  | v :: vs => vs.foldlM f v

/-- the command table of the interpreter -/
def applyHead (head : String) (vs : List Val) : Except String Val :=
  match head, vs with
  | "add", vs => foldVals vAdd vs
  | "sub", a :: b :: _ => vSub a b
  | "s_mult", vs => foldVals vMul vs
  | "m_mult", vs => foldVals vMatMul vs
  | "kron", vs => foldVals vKron vs
  | "expm", a :: _ => vExpm a
  | "div", a :: b :: _ => vDiv a b
  | _, _ => .error "Something went wrong in the expression interpreter!"

mutual
def eval (ctx : Ctx) : Expr → Except String Val
  | .num z => .ok (.num z)
  | .mat m => .ok (.mat m)
  | .name s => match ctx s with
    | some v => .ok v
    | none => .error "KeyError"
  | .node head args => do
      let vs ← evalList ctx args
      applyHead head vs
def evalList (ctx : Ctx) : List Expr → Except String (List Val)
  | [] => .ok []
  | e :: es => do
      let v ← eval ctx e
      let vs ← evalList ctx es
      .ok (v :: vs)
end

def knownHeads : List String := ["add", "sub", "s_mult", "m_mult", "kron", "expm", "div"]

end PW.Interp
