import Mathlib.LinearAlgebra.Matrix.Kronecker
import Mathlib.Algebra.BigOperators.Fin
import PW.Proofs.SumLabels
import PW.Proofs.Channels
import PW.Proofs.Grid
import PW.Spec
/-!
# Adequacy of the specification

`Spec.applyOn` is defined by an index formula.  For a system of two factors (the addressed one of
dimension `a`, everything else of dimension `b`) it *is* Mathlib's `(O ⊗ₖ 1) * ρ * (O ⊗ₖ 1)ᴴ`, and
`Spec.trace` is `Matrix.trace`; so the specification is the textbook object and the Mathlib-level
channel theorems (`PW.Channels`) apply to it.
-/
open Matrix
open scoped Kronecker
namespace PW.Adequacy
open PW PW.Spec

/-- sum over `List.range n` as a `Finset` sum over `Fin n` -/
theorem list_range_sum_eq {R : Type} [CommRing R] (n : Nat) (f : Nat → R) :
    ((List.range n).map f).sum = ∑ i : Fin n, f i := by
  induction n with
  | zero => simp
  | succ n ih =>
    rw [List.range_succ, List.map_append, List.sum_append, ih, Fin.sum_univ_castSucc]
    simp

variable {a b : Nat}

/-- a joint state of two subsystems as a Mathlib matrix on `Fin a × Fin b` -/
def toMatrix (ρ : Tensor ℂ) : Matrix (Fin a × Fin b) (Fin a × Fin b) ℂ :=
  fun x y => ρ [x.1, x.2, y.1, y.2]

/-- an operator on the first subsystem as a Mathlib matrix -/
def opMatrix (O : Tensor ℂ) : Matrix (Fin a) (Fin a) ℂ := fun r c => O [r, c]

/-- **`Spec.applyOn` is `(O ⊗ 1) ρ (O ⊗ 1)†`** (two factors, operator on the first) -/
theorem applyOn_first_eq_matrix (O ρ : Tensor ℂ) (x y : Fin a × Fin b) :
    applyOn [a, b] [0] O ρ [x.1, x.2, y.1, y.2]
      = ((PW.Channels.emb (b := Fin b) (opMatrix (a := a) O) * toMatrix ρ *
          (PW.Channels.emb (b := Fin b) (opMatrix (a := a) O))ᴴ :
          Matrix (Fin a × Fin b) (Fin a × Fin b) ℂ)) x y := by
  unfold applyOn
  simp only [List.length_cons, List.length_nil, List.map_cons, List.map_nil, List.cons_append, List.nil_append,
    sumLabels, subst, dimOf2]
  simp only [list_range_sum_eq]
  rw [Matrix.mul_apply]
  simp only [Matrix.mul_apply, PW.Channels.emb, Matrix.conjTranspose_apply, Matrix.kroneckerMap_apply,
    Matrix.one_apply, toMatrix, opMatrix]
  have hr2 : List.range (0 + 1 + 1) = [0, 1] := rfl
  simp only [hr2, List.take, List.drop, List.getD_cons_zero, List.map_cons, List.map_nil, upd, List.mem_singleton,
    List.cons_append, List.nil_append, List.getD_cons_succ]
  norm_num
  simp only [Fintype.sum_prod_type, conj_eq_star]
  simp only [Finset.sum_ite_eq, Finset.mem_univ, if_true, apply_ite (starRingEnd ℂ), map_zero, mul_ite, mul_zero]
  rw [Finset.sum_comm]
  apply Finset.sum_congr rfl
  intro j1 _
  rw [Finset.sum_mul]
  rfl

theorem toMatrix_applyOn (O ρ : Tensor ℂ) :
    toMatrix (a := a) (b := b) (applyOn [a, b] [0] O ρ)
      = PW.Channels.emb (b := Fin b) (opMatrix (a := a) O) * toMatrix ρ *
          (PW.Channels.emb (b := Fin b) (opMatrix (a := a) O))ᴴ := by
  ext x y
  exact applyOn_first_eq_matrix O ρ x y

/-- **`Spec.trace` is `Matrix.trace`** -/
theorem trace_eq_matrix_trace (ρ : Tensor ℂ) : Spec.trace [a, b] ρ = Matrix.trace (toMatrix (a := a) (b := b) ρ) := by
  unfold Spec.trace Matrix.trace
  simp only [sumGrid, list_range_sum_eq, Fintype.sum_prod_type, Matrix.diag_apply, toMatrix]
  rfl

/-- the specification's operation by a unitary preserves the specification's trace -/
theorem spec_unitary_preserves_trace (O ρ : Tensor ℂ)
    (hU : (opMatrix (a := a) O)ᴴ * opMatrix (a := a) O = 1) :
    Spec.trace [a, b] (applyOn [a, b] [0] O ρ) = Spec.trace [a, b] ρ := by
  rw [trace_eq_matrix_trace, trace_eq_matrix_trace, toMatrix_applyOn]
  exact PW.Channels.unitary_trace_preserving (opMatrix O) hU (toMatrix ρ)

open scoped ComplexOrder in
/-- the specification's operation keeps a positive semidefinite state positive semidefinite -/
theorem spec_operation_posSemidef (O ρ : Tensor ℂ) (hρ : (toMatrix (a := a) (b := b) ρ).PosSemidef) :
    (toMatrix (a := a) (b := b) (applyOn [a, b] [0] O ρ)).PosSemidef := by
  rw [toMatrix_applyOn]
  exact PW.Channels.operation_posSemidef (opMatrix O) (toMatrix ρ) hρ

end PW.Adequacy
