import Mathlib.Algebra.Star.Basic
import Mathlib.Algebra.Ring.Defs
import PW.Scalar
/-! Scalars of the theorems: any commutative ring with a star operation; `conj := star`. -/
namespace PW
instance (priority := low) starConj {R : Type} [Star R] : Conj R := ⟨star⟩
theorem conj_eq_star {R : Type} [Star R] (x : R) : conj x = star x := rfl
end PW
