import PW.Proofs.NoSignal
import PW.Proofs.CollapsePSD
/-!
# Measuring one part cannot be seen in the rest (on average over the outcomes)

The collapsed, unnormalised states `(Π_o ⊗ 1) ρ (Π_o ⊗ 1)` of the outcomes `o` add up to a
trace-preserving channel with Kraus operators `Π_o`; so the reduced state of everything else, averaged
over the outcomes with their Born weights, is the reduced state before the measurement.  Also: each
outcome's Born weight is non-negative for a positive semidefinite state.
-/
open Matrix
open scoped ComplexOrder
namespace PW.Adequacy
open PW PW.Spec PW.Channels

variable {a b : Nat}

theorem opMatrix_projector (o : Fin a) :
    opMatrix (a := a) (projector (R := ℂ) o.val) = Matrix.single o o (1 : ℂ) := by
  ext r c
  unfold opMatrix projector
  rw [Matrix.single_apply]
  by_cases h : o = r ∧ o = c
  · obtain ⟨rfl, rfl⟩ := h; simp
  · rw [if_neg h, if_neg]
    intro hh
    simp only [List.cons.injEq, and_true] at hh
    exact h ⟨Fin.ext hh.1.symm, Fin.ext hh.2.symm⟩

theorem projectors_complete : ∑ o : Fin a, (Matrix.single o o (1 : ℂ))ᴴ * Matrix.single o o (1 : ℂ) = 1 := by
  ext r c
  simp only [Matrix.sum_apply, Matrix.conjTranspose_single, star_one, Matrix.single_mul_single_same, mul_one,
    Matrix.single_apply, Matrix.one_apply]
  by_cases h : r = c
  · subst h; simp
  · simp only [h, if_false]
    apply Finset.sum_eq_zero
    intro o _
    rw [if_neg]
    rintro ⟨rfl, rfl⟩; exact h rfl

/-- the collapsed state of outcome `o` as a Mathlib matrix: `(Π_o ⊗ 1) ρ (Π_o ⊗ 1)†` -/
theorem toMatrix_projectOn_emb (o : Fin a) (ρ : Tensor ℂ) :
    toMatrix (a := a) (b := b) (projectOn [a, b] 0 o.val ρ)
      = emb (Matrix.single o o (1 : ℂ)) * toMatrix ρ * (emb (Matrix.single o o (1 : ℂ)))ᴴ := by
  rw [toMatrix_projectOn o.val o.isLt, toMatrix_applyOn, opMatrix_projector]

/-- **measurement is invisible in the rest**: summed over the outcomes, the (unnormalised) collapsed
states have the reduced state of everything else that the state had before -/
theorem ptrace_measurement (ρ : Tensor ℂ) :
    ∑ o : Fin a, ptrace (toMatrix (a := a) (b := b) (projectOn [a, b] 0 o.val ρ)) = ptrace (toMatrix (a := a) (b := b) ρ) := by
  have h := ptrace_kraus (b := Fin b) (Finset.univ : Finset (Fin a)) (fun o => Matrix.single o o (1 : ℂ))
    projectors_complete (toMatrix (a := a) (b := b) ρ)
  rw [← h]
  simp only [toMatrix_projectOn_emb]
  funext x y
  simp only [ptrace, Matrix.sum_apply]
  rw [Finset.sum_comm]

/-- each Born weight (the trace of the collapsed state) is non-negative for a PSD state -/
theorem born_weight_nonneg (o : Nat) (ho : o < a) (ρ : Tensor ℂ) (hρ : (toMatrix (a := a) (b := b) ρ).PosSemidef) :
    0 ≤ Matrix.trace (toMatrix (a := a) (b := b) (projectOn [a, b] 0 o ρ)) :=
  (projectOn_posSemidef o ho ρ hρ).trace_nonneg

end PW.Adequacy
