import PW.Proofs.LayoutLemmas
import PW.Proofs.LayoutWF
/-! Measurement keeps the partition invariant. -/
namespace PW.Layout

theorem allMembers_cons (b : Block) (l : Layout) : allMembers (b :: l) = b.members ++ allMembers l := by
  simp [allMembers]

theorem removeMeasured_sublist (l : Layout) (M : List Nat) :
    (allMembers (removeMeasured l M)).Sublist (allMembers l) := by
  induction l with
  | nil => simp [removeMeasured, allMembers]
  | cons b l ih =>
    have hcons : removeMeasured (b :: l) M =
        (if (b.members.filter (· ∉ M)).isEmpty then [] else [{ b with members := b.members.filter (· ∉ M) }])
          ++ removeMeasured l M := by
      unfold removeMeasured
      simp only [List.map_cons, List.filter_cons]
      by_cases hall : ∀ a, a ∈ b.members → a ∈ M
      · have hne : ¬ ∃ x, x ∈ b.members ∧ ¬ x ∈ M := by rintro ⟨x, hx, hn⟩; exact hn (hall x hx)
        simp [hall, hne]
      · have hex : ∃ x, x ∈ b.members ∧ ¬ x ∈ M := by
          by_contra hc
          apply hall
          intro a ha
          by_contra hna
          exact hc ⟨a, ha, hna⟩
        simp [hall, hex]
    rw [hcons, allMembers_cons]
    split
    · simp only [List.nil_append]
      exact ih.trans (List.sublist_append_right _ _)
    · simp only [List.cons_append, List.nil_append, allMembers_cons]
      exact List.Sublist.append List.filter_sublist ih

/-- **Invariant under measurement.** Exactly-one-place and no-empty-block survive the removal of
measured subsystems. -/
theorem WF_removeMeasured (l : Layout) (M : List Nat) (h : WF l) : WF (removeMeasured l M) := by
  constructor
  · exact h.1.sublist (removeMeasured_sublist l M)
  · intro b hb
    obtain ⟨_, _, _, _, hne⟩ := removeMeasured_members l M b hb
    exact hne

end PW.Layout
