import PW.Proofs.LayoutWF
/-! `reorder` only permutes the members of one block: the partition invariant is preserved. -/
namespace PW.Layout

theorem swap_perm (l : List Nat) (i j : Nat) (hi : i < l.length) (hj : j < l.length) :
    ((l.set i l[j]).set j l[i]).Perm l := by
  rw [List.perm_iff_count]
  intro a
  by_cases hij : i = j
  · subst hij; simp
  · rw [List.count_set (by simpa using hj), List.count_set hi]
    simp only [List.getElem_set_ne hij]
    have h1 : 0 < List.count l[i] l := List.count_pos_iff.mpr (List.getElem_mem hi)
    have h2 : 0 < List.count l[j] l := List.count_pos_iff.mpr (List.getElem_mem hj)
    by_cases hai : l[i] = a <;> by_cases haj : l[j] = a <;> simp_all

theorem swapInto_perm (T : List Nat) (order : List Nat) (i : Nat) (hmem : ∀ t ∈ T, t ∈ order)
    (hlen : i + T.length ≤ order.length) : (swapInto order i T).Perm order := by
  induction T generalizing order i with
  | nil => exact List.Perm.refl _
  | cons t ts ih =>
    have ht : t ∈ order := hmem t List.mem_cons_self
    have hj : order.idxOf t < order.length := List.idxOf_lt_length_iff.mpr ht
    have hi : i < order.length := by simp at hlen; omega
    have hstep : (if order.idxOf t = i then order else (order.set i t).set (order.idxOf t) (order.getD i 0)).Perm order := by
      split
      · exact List.Perm.refl _
      · have h1 : order[order.idxOf t] = t := List.getElem_idxOf hj
        have h2 : order.getD i 0 = order[i] := by
          rw [List.getD_eq_getElem?_getD, List.getElem?_eq_getElem hi]; rfl
        rw [h2]
        have := swap_perm order i (order.idxOf t) hi hj
        rw [h1] at this
        exact this
    unfold swapInto
    dsimp only
    refine (ih _ (i + 1) ?_ ?_).trans hstep
    · intro x hx
      exact hstep.symm.subset (hmem x (List.mem_cons_of_mem _ hx))
    · rw [hstep.length_eq]; simp at hlen ⊢; omega

theorem allMembers_map_perm (l : Layout) (f : Block → Block) (hf : ∀ b ∈ l, (f b).members.Perm b.members) :
    (allMembers (l.map f)).Perm (allMembers l) := by
  induction l with
  | nil => exact List.Perm.refl _
  | cons b l ih =>
    simp only [List.map_cons, allMembers, List.flatten_cons]
    exact List.Perm.append (hf b List.mem_cons_self) (ih (fun x hx => hf x (List.mem_cons_of_mem _ hx)))

/-- **Invariant under reorder.** -/
theorem WF_reorder (l : Layout) (c : Nat) (T : List Nat) (hnd : T.Nodup) (h : WF l) : WF (reorder l c T) := by
  have hc := WF_combine l c T h
  unfold reorder
  dsimp only
  have hperm : ∀ b ∈ combine l c T,
      (if b.kind == Kind.ps c && T.all (· ∈ b.members) then { b with members := swapInto b.members 0 T } else b).members.Perm b.members := by
    intro b _
    split
    · rename_i hcond
      simp only [Bool.and_eq_true, List.all_eq_true, decide_eq_true_eq] at hcond
      apply swapInto_perm T b.members 0 hcond.2
      have hsub : T.Subperm b.members := List.subperm_of_subset hnd (fun x hx => hcond.2 x hx)
      simpa using hsub.length_le
    · exact List.Perm.refl _
  refine ⟨(allMembers_map_perm _ _ hperm).nodup_iff.mpr hc.1, ?_⟩
  intro b hb
  rw [List.mem_map] at hb
  obtain ⟨b0, hb0, rfl⟩ := hb
  have hne := hc.2 b0 hb0
  intro hnil
  have := (hperm b0 hb0).length_eq
  rw [hnil] at this
  exact hne (List.length_eq_zero_iff.mp this.symm)

end PW.Layout
