import Mathlib.Analysis.SpecialFunctions.Trigonometric.Basic
import Mathlib.Analysis.SpecialFunctions.Complex.Circle
import Mathlib.Tactic.Ring
import Mathlib.Tactic.IntervalCases
import PW.Proofs.Basic
import PW.Ops
/-!
Rotations over ℂ with the real functions `cos`, `sin`, `exp`: the library's `rx_operator(θ)` is
`Ops.rx I (cos(θ/2)) (sin(θ/2))` etc.; they compose additively for all real angles (negative and
larger than 2π included) and are 2π-periodic up to the sign −1 (4π-periodic).
-/
open PW PW.Ops

namespace PW.Rotations

noncomputable def RX (θ : ℝ) : Tensor ℂ := rx Complex.I (Real.cos (θ / 2) : ℂ) (Real.sin (θ / 2) : ℂ)
noncomputable def RY (θ : ℝ) : Tensor ℂ := ry (Real.cos (θ / 2) : ℂ) (Real.sin (θ / 2) : ℂ)
noncomputable def RZ (θ : ℝ) : Tensor ℂ :=
  rz (Complex.exp (-(Complex.I * (θ / 2 : ℝ)))) (Complex.exp (Complex.I * (θ / 2 : ℝ)))

theorem range2 : List.range 2 = [0, 1] := rfl

theorem half_add (a b : ℝ) : (a + b) / 2 = a / 2 + b / 2 := by ring

/-- `RX(a) · RX(b) = RX(a + b)` for all real angles -/
theorem RX_add (a b : ℝ) (r c : Nat) (hr : r < 2) (hc : c < 2) :
    mmul 2 (RX a) (RX b) [r, c] = RX (a + b) [r, c] := by
  unfold RX
  rw [half_add, Real.cos_add, Real.sin_add]
  simp only [Complex.ofReal_sub, Complex.ofReal_mul, Complex.ofReal_add]
  generalize (Real.cos (a / 2) : ℂ) = c₁
  generalize (Real.sin (a / 2) : ℂ) = s₁
  generalize (Real.cos (b / 2) : ℂ) = c₂
  generalize (Real.sin (b / 2) : ℂ) = s₂
  have hi : Complex.I * Complex.I = -1 := Complex.I_mul_I
  interval_cases r <;> interval_cases c <;> simp [mmul, range2, rx, mat2] <;>
    first | ring1 | linear_combination (s₁ * s₂) * hi

/-- `RY(a) · RY(b) = RY(a + b)` for all real angles -/
theorem RY_add (a b : ℝ) (r c : Nat) (hr : r < 2) (hc : c < 2) :
    mmul 2 (RY a) (RY b) [r, c] = RY (a + b) [r, c] := by
  unfold RY
  rw [half_add, Real.cos_add, Real.sin_add]
  simp only [Complex.ofReal_sub, Complex.ofReal_mul, Complex.ofReal_add]
  interval_cases r <;> interval_cases c <;> simp [mmul, range2, ry, mat2] <;> ring

/-- `RZ(a) · RZ(b) = RZ(a + b)` for all real angles -/
theorem RZ_add (a b : ℝ) (r c : Nat) (hr : r < 2) (hc : c < 2) :
    mmul 2 (RZ a) (RZ b) [r, c] = RZ (a + b) [r, c] := by
  unfold RZ
  interval_cases r <;> interval_cases c <;> simp [mmul, range2, rz, mat2, ← Complex.exp_add] <;>
    (congr 1; push_cast; ring)

/-- a full turn is minus the identity: `RX(θ + 2π) = −RX(θ)` (the physical state is unchanged) -/
theorem RX_two_pi (θ : ℝ) (r c : Nat) (hr : r < 2) (hc : c < 2) :
    RX (θ + 2 * Real.pi) [r, c] = -(RX θ [r, c]) := by
  unfold RX
  have h : (θ + 2 * Real.pi) / 2 = θ / 2 + Real.pi := by ring
  rw [h, Real.cos_add_pi, Real.sin_add_pi]
  simp only [Complex.ofReal_neg]
  interval_cases r <;> interval_cases c <;> simp [rx, mat2]

/-- `RX(0)` is the identity -/
theorem RX_zero (r c : Nat) (hr : r < 2) (hc : c < 2) : RX 0 [r, c] = (ident 2 : Tensor ℂ) [r, c] := by
  unfold RX
  interval_cases r <;> interval_cases c <;> simp [rx, mat2, ident]

/-- sign convention: to first order `RX(θ) ≈ 1 − iθX/2`, i.e. the (0,1) entry is `−i sin(θ/2)` -/
theorem RX_offdiag (θ : ℝ) : RX θ [0, 1] = -(Complex.I * (Real.sin (θ / 2) : ℂ)) := by
  unfold RX; simp [rx, mat2]

end PW.Rotations
