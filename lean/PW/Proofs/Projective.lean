import Mathlib.Tactic.Ring
import Mathlib.Algebra.Star.Basic
import PW.Proofs.MeasureOrder
import PW.Proofs.KronFactor
/-!
# A projective measurement operator reproduces collapse

Applying the basis projector `|o⟩⟨o|` to the subsystem at position `p` (as a POVM / Kraus operator,
`Spec.applyOn`) gives exactly `Spec.projectOn` — so the probability `Tr(M ρ M†)` of a projective POVM
element is the Born weight `Spec.prob`, and its post-measurement state is the collapsed state.
-/
namespace PW
namespace Spec
variable {R : Type} [CommRing R] [StarRing R]

/-- the basis projector `|o⟩⟨o|` as an operator tensor -/
def projector (o : Nat) : Tensor R := fun idx => if idx = [o, o] then 1 else 0

omit [StarRing R] in
theorem sumLabels_zero' (dimOf) (ls : List Nat) (e : Env) : sumLabels dimOf ls (fun _ => (0 : R)) e = 0 := by
  induction ls generalizing e with
  | nil => rfl
  | cons a ls ih => simp only [sumLabels, ih]; simp

theorem subst_self (n p : Nat) (r : List Nat) (hr : r.length = n) (f : Nat → Nat) (h : f p = r.getD p 0) :
    subst n [p] r f = r := by
  apply List.ext_getElem
  · simp [subst, hr]
  · intro i h1 h2
    unfold subst
    simp only [List.getElem_map, List.getElem_range, List.mem_singleton]
    by_cases hi : i = p
    · subst hi; simp [h, List.getD_eq_getElem?_getD, List.getElem?_eq_getElem h2]
    · simp [hi, List.getD_eq_getElem?_getD, List.getElem?_eq_getElem h2]

theorem applyOn_projector (dims : List Nat) (p o : Nat) (hp : p < dims.length) (ho : o < dims.getD p 0)
    (ρ : Tensor R) (r c : List Nat) (hr : r.length = dims.length) (hc : c.length = dims.length) :
    applyOn dims [p] (projector o) ρ (r ++ c) = projectOn dims p o ρ (r ++ c) := by
  unfold applyOn projectOn
  simp only [List.take_left' hr, List.drop_left' hr, List.map_cons, List.map_nil, List.cons_append, List.nil_append]
  have hbody : ∀ e : Env,
      projector o [r.getD p 0, e p] * ρ (subst dims.length [p] r e ++ subst dims.length [p] c fun x => e (dims.length + x)) *
        conj (projector (R := R) o [c.getD p 0, e (dims.length + p)])
      = if e p = o then (if e (dims.length + p) = o then
            (if r.getD p 0 = o ∧ c.getD p 0 = o then
              ρ (subst dims.length [p] r e ++ subst dims.length [p] c fun x => e (dims.length + x)) else 0) else 0) else 0 := by
    intro e
    generalize ρ (subst dims.length [p] r e ++ subst dims.length [p] c fun x => e (dims.length + x)) = X
    generalize r.getD p 0 = a
    generalize c.getD p 0 = b
    generalize e p = u
    generalize e (dims.length + p) = v
    unfold projector
    by_cases h1 : u = o <;> by_cases h2 : v = o <;> by_cases h3 : a = o <;>
      by_cases h4 : b = o <;> simp [h1, h2, h3, h4, conj_eq_star]
  rw [sumLabels_congr _ _ _ _ _ hbody]
  have hnot : p ∉ [dims.length + p] := by
    simp only [List.mem_singleton]; omega
  have hd1 : o < dimOf2 dims p := by unfold dimOf2; rw [if_pos hp]; exact ho
  have hd2 : o < dimOf2 dims (dims.length + p) := by
    unfold dimOf2
    rw [if_neg (Nat.not_lt.mpr (Nat.le_add_right _ _)), Nat.add_sub_cancel_left]
    exact ho
  rw [sumLabels_pin _ [dims.length + p] p o hnot hd1]
  rw [sumLabels_pin _ [] (dims.length + p) o (by simp) hd2]
  simp only [sumLabels]
  by_cases h : r.getD p 0 = o ∧ c.getD p 0 = o
  · rw [if_pos h, if_pos h]
    have e1 : upd (upd (fun _ => 0) p o) (dims.length + p) o p = r.getD p 0 := by
      show (if p = dims.length + p then o else if p = p then o else 0) = _
      rw [if_neg (by omega), if_pos rfl]; exact h.1.symm
    have e2 : (fun x => upd (upd (fun _ => 0) p o) (dims.length + p) o (dims.length + x)) p = c.getD p 0 := by
      show (if dims.length + p = dims.length + p then o else _) = _
      rw [if_pos rfl]; exact h.2.symm
    rw [subst_self dims.length p r hr _ e1, subst_self dims.length p c hc _ e2]
  · rw [if_neg h, if_neg h]

end Spec
end PW
