import Mathlib.Algebra.Star.Basic
import Mathlib.Algebra.BigOperators.Group.List.Basic
import Mathlib.Tactic.Ring
import PW.Proofs.Basic
import PW.Spec
/-! Elementary facts about the specification machine. -/
namespace PW.Spec
variable {R : Type} [CommRing R] [StarRing R]

/-- `ρ` is Hermitian on index lists of length `n` -/
def Hermitian (n : Nat) (ρ : Tensor R) : Prop :=
  ∀ r c : List Nat, r.length = n → c.length = n → conj (ρ (c ++ r)) = ρ (r ++ c)

theorem projectOn_idem (dims : List Nat) (p o : Nat) (ρ : Tensor R) :
    projectOn dims p o (projectOn dims p o ρ) = projectOn dims p o ρ := by
  funext rc; unfold projectOn; dsimp only; split <;> simp_all

theorem projectOn_orthogonal (dims : List Nat) (p o o' : Nat) (h : o ≠ o') (ρ : Tensor R) :
    projectOn dims p o (projectOn dims p o' ρ) = fun _ => 0 := by
  funext rc; unfold projectOn; dsimp only
  split
  · rename_i h1; split
    · rename_i h2; exact absurd (h1.1.symm.trans h2.1) h
    · rfl
  · rfl

theorem projectOn_hermitian (dims : List Nat) (p o : Nat) (ρ : Tensor R) (h : Hermitian dims.length ρ) :
    Hermitian dims.length (projectOn dims p o ρ) := by
  intro r c hr hc
  unfold projectOn; dsimp only
  simp only [List.take_left' hc, List.drop_left' hc, List.take_left' hr, List.drop_left' hr]
  by_cases h1 : r.getD p 0 = o ∧ c.getD p 0 = o
  · rw [if_pos ⟨h1.2, h1.1⟩, if_pos h1]; exact h r c hr hc
  · have h2 : ¬ (c.getD p 0 = o ∧ r.getD p 0 = o) := fun h' => h1 ⟨h'.2, h'.1⟩
    rw [if_neg h2, if_neg h1]; simp [conj_eq_star]

theorem scale_hermitian (n : Nat) (s : R) (hs : star s = s) (ρ : Tensor R) (h : Hermitian n ρ) :
    Hermitian n (scale s ρ) := by
  intro r c hr hc
  unfold scale
  rw [conj_eq_star, star_mul', hs, ← conj_eq_star, h r c hr hc]

/-- a pure state `|v⟩⟨v|` appended as a new factor keeps the joint state Hermitian -/
theorem tensorVec_hermitian (dims : List Nat) (v ρ : Tensor R) (h : Hermitian dims.length ρ) :
    Hermitian (dims.length + 1) (tensorVec dims v ρ) := by
  intro r c hr hc
  unfold tensorVec; dsimp only
  simp only [List.take_left' hc, List.drop_left' hc, List.take_left' hr, List.drop_left' hr]
  have h1 := h (r.take dims.length) (c.take dims.length) (by simp [hr]) (by simp [hc])
  rw [conj_eq_star, star_mul', star_mul', ← conj_eq_star, h1, conj_eq_star, conj_eq_star, star_star]
  ring

theorem krausOn_nil (dims : List Nat) (T : List Nat) (ρ : Tensor R) :
    krausOn dims T [] ρ = fun _ => 0 := by
  funext rc; simp [krausOn]

theorem krausOn_cons (dims : List Nat) (T : List Nat) (K : Tensor R) (Ks : List (Tensor R)) (ρ : Tensor R) :
    krausOn dims T (K :: Ks) ρ = fun rc => applyOn dims T K ρ rc + krausOn dims T Ks ρ rc := by
  funext rc; simp [krausOn]

/-- a rejected request leaves the state exactly as it was -/
theorem applyChecked_rejected (dims : List Nat) (T : List Nat) (O ρ : Tensor R) :
    (applyChecked dims T O ρ true).state = ρ := rfl

theorem applyChecked_ok (dims : List Nat) (T : List Nat) (O ρ : Tensor R) :
    (applyChecked dims T O ρ false).state = applyOn dims T O ρ := rfl

theorem resizeChecked_rejected (ρ ρ' : Tensor R) : (resizeChecked false ρ ρ').state = ρ := rfl

end PW.Spec
