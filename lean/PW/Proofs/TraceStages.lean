import PW.Proofs.TracePreserve
/-!
# Tracing out in stages is tracing out at once

`reduceTo (dims of T) S (reduceTo dims T ρ) = reduceTo dims (S picked out of T) ρ`: first reducing to
the subsystems `T` and then, inside that reduced space, to the positions `S`, gives the reduced state
of the subsystems `T[S]` of the original space — so the result of a partial trace does not depend on
how many calls it was split into.
-/
namespace PW
namespace Spec
variable {R : Type} [CommRing R]

/-- renaming the summed labels by a map that is injective on them -/
theorem sumLabels_rename (D D' : Nat → Nat) (ls : List Nat) (φ : Nat → Nat) (hnd : ls.Nodup)
    (hinj : ∀ x ∈ ls, ∀ y ∈ ls, φ x = φ y → x = y) (hD : ∀ l ∈ ls, D' (φ l) = D l)
    (F G : Env → R) (e e' : Env)
    (h : ∀ ea eb : Env, (∀ l ∈ ls, ea l = eb (φ l)) → (∀ l, l ∉ ls → ea l = e l) →
      (∀ l, l ∉ ls.map φ → eb l = e' l) → F ea = G eb) :
    sumLabels D ls F e = sumLabels D' (ls.map φ) G e' := by
  induction ls generalizing e e' with
  | nil => exact h e e' (by simp) (by simp) (by simp)
  | cons l ls ih =>
    have hl : l ∉ ls := (List.nodup_cons.mp hnd).1
    have hφl : φ l ∉ ls.map φ := by
      intro hmem
      obtain ⟨y, hy, hyl⟩ := List.mem_map.mp hmem
      have := hinj y (List.mem_cons_of_mem _ hy) l (List.mem_cons_self) hyl
      exact hl (this ▸ hy)
    simp only [List.map_cons, sumLabels, hD l (List.mem_cons_self)]
    congr 1
    apply List.map_congr_left
    intro i _
    apply ih (List.nodup_cons.mp hnd).2
      (fun x hx y hy => hinj x (List.mem_cons_of_mem _ hx) y (List.mem_cons_of_mem _ hy))
      (fun x hx => hD x (List.mem_cons_of_mem _ hx))
    intro ea eb hab ha hb
    apply h ea eb
    · intro x hx
      rcases List.mem_cons.mp hx with rfl | hx
      · rw [ha x hl, hb (φ x) hφl]; simp [upd]
      · exact hab x hx
    · intro x hx
      have hxl : x ≠ l := fun hh => hx (hh ▸ List.mem_cons_self)
      have hxls : x ∉ ls := fun hh => hx (List.mem_cons_of_mem _ hh)
      rw [ha x hxls]; simp [upd, hxl]
    · intro y hy
      have hyl : y ≠ φ l := fun hh => hy (by simp [hh])
      have hyls : y ∉ ls.map φ := fun hh => hy (by simp only [List.map_cons]; exact List.mem_cons_of_mem _ hh)
      rw [hb y hyls]; simp [upd, hyl]

theorem idxOf_map_of_injOn (S : List Nat) (f : Nat → Nat) (j : Nat)
    (hinj : ∀ x ∈ S, f x = f j → x = j) : (S.map f).idxOf (f j) = S.idxOf j := by
  induction S with
  | nil => simp
  | cons s S ih =>
    simp only [List.map_cons, List.idxOf_cons]
    by_cases hs : s = j
    · subst hs; simp
    · have : f s ≠ f j := fun hh => hs (hinj s List.mem_cons_self hh)
      have hb1 : (f s == f j) = false := by simpa using this
      have hb2 : (s == j) = false := by simpa using hs
      simp only [hb1, hb2]
      rw [ih (fun x hx => hinj x (List.mem_cons_of_mem _ hx))]

/-- **tracing out in stages is tracing out at once** -/
theorem reduceTo_reduceTo (dims T S : List Nat) (hT : T.Nodup) (hTlt : ∀ p ∈ T, p < dims.length)
    (hSlt : ∀ s ∈ S, s < T.length) (ρ : Tensor R) (a b : List Nat) (ha : a.length = S.length) :
    reduceTo (T.map fun p => dims.getD p 0) S (reduceTo dims T ρ) (a ++ b)
      = reduceTo dims (S.map fun s => T.getD s 0) ρ (a ++ b) := by
  let τ : Nat → Nat := fun s => T.getD s 0
  have hτ : ∀ j, (hj : j < T.length) → τ j = T[j] := fun j hj => by simp [τ, List.getD_eq_getElem?_getD, List.getElem?_eq_getElem hj]
  have hτmem : ∀ j, j < T.length → τ j ∈ T := fun j hj => by rw [hτ j hj]; exact List.getElem_mem hj
  have hτidx : ∀ j, j < T.length → T.idxOf (τ j) = j := fun j hj => by rw [hτ j hj]; exact hT.idxOf_getElem j hj
  have hτinj : ∀ i j, i < T.length → j < T.length → τ i = τ j → i = j := fun i j hi hj hh => by
    rw [← hτidx i hi, ← hτidx j hj, hh]
  have hidxτ : ∀ q ∈ T, τ (T.idxOf q) = q := fun q hq => by
    rw [hτ _ (List.idxOf_lt_length_iff.mpr hq)]; exact List.getElem_idxOf _
  have hUsub : ∀ q ∈ S.map τ, q ∈ T := by
    intro q hq
    obtain ⟨s, hs, rfl⟩ := List.mem_map.mp hq
    exact hτmem s (hSlt s hs)
  have hUiff : ∀ q ∈ T, (q ∈ S.map τ ↔ T.idxOf q ∈ S) := by
    intro q hq
    constructor
    · intro h
      obtain ⟨s, hs, hsq⟩ := List.mem_map.mp h
      rw [← hsq, hτidx s (hSlt s hs)]; exact hs
    · intro h
      exact List.mem_map.mpr ⟨_, h, hidxτ q hq⟩
  set restS := (List.range T.length).filter fun p => decide (p ∉ S) with hrestS
  set restT := (List.range dims.length).filter fun p => decide (p ∉ T) with hrestT
  set restU := (List.range dims.length).filter fun p => decide (p ∉ S.map τ) with hrestU
  have hndS : restS.Nodup := List.Nodup.filter _ List.nodup_range
  have hndT : restT.Nodup := List.Nodup.filter _ List.nodup_range
  have hndU : restU.Nodup := List.Nodup.filter _ List.nodup_range
  have hrS : ∀ j, j ∈ restS ↔ j < T.length ∧ j ∉ S := by intro j; simp [restS, List.mem_filter]
  have hrT : ∀ q, q ∈ restT ↔ q < dims.length ∧ q ∉ T := by intro q; simp [restT, List.mem_filter]
  have hrU : ∀ q, q ∈ restU ↔ q < dims.length ∧ q ∉ S.map τ := by intro q; simp [restU, List.mem_filter]
  have hinjS : ∀ x ∈ restS, ∀ y ∈ restS, τ x = τ y → x = y := fun x hx y hy hh =>
    hτinj x y ((hrS x).mp hx).1 ((hrS y).mp hy).1 hh
  have hndST : (restS.map τ ++ restT).Nodup := by
    rw [List.nodup_append]
    refine ⟨(List.nodup_map_iff_inj_on hndS).mpr hinjS, hndT, ?_⟩
    intro x hx y hy hxy
    subst hxy
    obtain ⟨j, hj, rfl⟩ := List.mem_map.mp hx
    exact ((hrT _).mp hy).2 (hτmem j ((hrS j).mp hj).1)
  have hperm : (restS.map τ ++ restT).Perm restU := by
    apply (List.perm_ext_iff_of_nodup hndST hndU).mpr
    intro x
    rw [List.mem_append, hrU, hrT]
    constructor
    · rintro (hx | hx)
      · obtain ⟨j, hj, rfl⟩ := List.mem_map.mp hx
        have hjm := ((hrS j).mp hj).1
        refine ⟨hTlt _ (hτmem j hjm), ?_⟩
        rw [hUiff _ (hτmem j hjm), hτidx j hjm]
        exact ((hrS j).mp hj).2
      · exact ⟨hx.1, fun h => hx.2 (hUsub x h)⟩
    · rintro ⟨hx, hxU⟩
      by_cases hxT : x ∈ T
      · left
        refine List.mem_map.mpr ⟨T.idxOf x, (hrS _).mpr ⟨List.idxOf_lt_length_iff.mpr hxT, ?_⟩, hidxτ x hxT⟩
        exact fun h => hxU ((hUiff x hxT).mpr h)
      · right; exact ⟨hx, hxT⟩
  -- right-hand side as a nested sum
  have hR : reduceTo dims (S.map τ) ρ (a ++ b)
      = sumLabels (dimOf2 dims) (restS.map τ) (fun e' => sumLabels (dimOf2 dims) restT
          (fun e => ρ (scatter dims.length (S.map τ) a e ++ scatter dims.length (S.map τ) b e)) e') (fun _ => 0) := by
    unfold reduceTo
    dsimp only
    rw [← sumLabels_append, sumLabels_perm _ hperm hndST]
    simp [ha, restU]
  show reduceTo (T.map fun p => dims.getD p 0) S (reduceTo dims T ρ) (a ++ b) = reduceTo dims (S.map τ) ρ (a ++ b)
  rw [hR]
  unfold reduceTo
  dsimp only
  have hta : (a ++ b).take S.length = a := List.take_left' ha
  have hdb : (a ++ b).drop S.length = b := List.drop_left' ha
  rw [hta, hdb, List.length_map]
  apply sumLabels_rename _ _ restS τ hndS hinjS
  · intro j hj
    have hjm := ((hrS j).mp hj).1
    unfold dimOf2
    rw [if_pos (hTlt _ (hτmem j hjm)), List.length_map, if_pos hjm]
    simp [τ, List.getD_eq_getElem?_getD, List.getElem?_eq_getElem hjm]
  · intro ea eb hab _ hb
    have hlen : ∀ (x : List Nat) (e : Env), (scatter T.length S x e).length = T.length := by
      intro x e; simp [scatter]
    rw [List.take_left' (hlen a ea), List.drop_left' (hlen a ea)]
    apply sumLabels_rel
    intro e2 e3 h23 _ h3
    have hsc : ∀ x : List Nat, scatter dims.length T (scatter T.length S x ea) e2 = scatter dims.length (S.map τ) x e3 := by
      intro x
      unfold scatter
      apply List.map_congr_left
      intro q hq
      have hqn := List.mem_range.mp hq
      by_cases hqT : q ∈ T
      · have hjm : T.idxOf q < T.length := List.idxOf_lt_length_iff.mpr hqT
        rw [if_pos hqT]
        rw [List.getD_eq_getElem?_getD, List.getElem?_eq_getElem (by simpa using hjm)]
        simp only [List.getElem_map, List.getElem_range, Option.getD_some]
        by_cases hjS : T.idxOf q ∈ S
        · rw [if_pos hjS, if_pos ((hUiff q hqT).mpr hjS)]
          congr 1
          rw [← hidxτ q hqT]
          rw [idxOf_map_of_injOn S τ (T.idxOf q) (fun x hx hh => hτinj x _ (hSlt x hx) hjm hh)]
          rw [hidxτ q hqT]
        · rw [if_neg hjS, if_neg (fun h => hjS ((hUiff q hqT).mp h))]
          have h1 : ea (T.idxOf q) = eb (τ (T.idxOf q)) := hab _ ((hrS _).mpr ⟨hjm, hjS⟩)
          rw [h1, hidxτ q hqT]
          have : q ∉ restT := fun h => ((hrT q).mp h).2 hqT
          rw [h3 q this]
      · rw [if_neg hqT, if_neg (fun h => hqT (hUsub q h))]
        exact h23 q ((hrT q).mpr ⟨hqn, hqT⟩)
    rw [hsc a, hsc b]

end Spec
end PW
