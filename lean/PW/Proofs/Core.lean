import Mathlib.Algebra.Ring.Defs
import Mathlib.Tactic.Ring
import Mathlib.Data.List.Basic
import Mathlib.Data.List.Nodup
import Mathlib.Data.List.Range
import Mathlib.Data.List.Perm.Basic
import Mathlib.Algebra.BigOperators.Group.List.Basic
import PW.Tensor

/-! # Generic lemmas about the einsum evaluator (`sumLabels_perm`, `sumLabels_rel`, `summedLabels_perm`, `bindEnv`) -/
namespace PW

variable {R : Type} [CommRing R]


theorem upd_comm (e : Env) (a b i j : Nat) (h : a ≠ b) :
    upd (upd e a i) b j = upd (upd e b j) a i := by
  funext x; unfold upd
  by_cases hxa : x = a <;> by_cases hxb : x = b <;> simp_all

theorem sum_map_sum_comm (as bs : List Nat) (F : Nat → Nat → R) :
    (as.map fun i => (bs.map fun j => F i j).sum).sum =
    (bs.map fun j => (as.map fun i => F i j).sum).sum := by
  induction as with
  | nil => simp
  | cons a as ih =>
    simp only [List.map_cons, List.sum_cons, ih]
    rw [← List.sum_map_add]

theorem sumLabels_perm (dimOf) {ls ls' : List Nat} (hp : ls.Perm ls') (hnd : ls.Nodup)
    (f : Env → R) (e : Env) : sumLabels dimOf ls f e = sumLabels dimOf ls' f e := by
  induction hp generalizing e with
  | nil => rfl
  | cons x _ ih =>
    simp only [sumLabels]; congr 1
    apply List.map_congr_left; intro i _
    exact ih (List.nodup_cons.mp hnd).2 _
  | swap x y l =>
    have hxy : y ≠ x := by
      have := (List.nodup_cons.mp hnd).1
      intro h; apply this; rw [h]; exact List.mem_cons_self
    simp only [sumLabels]
    rw [sum_map_sum_comm]; congr 1
    apply List.map_congr_left; intro j _; congr 1
    apply List.map_congr_left; intro i _
    rw [upd_comm e y x i j hxy]
  | trans h1 _ ih1 ih2 =>
    rw [ih1 hnd, ih2 ((List.Perm.nodup_iff h1).mp hnd)]

/-- two label sums agree if the bodies agree on all pairs of environments that coincide on
the summed labels and equal the respective base environments elsewhere -/
theorem sumLabels_rel (dimOf) (ls : List Nat) (f g : Env → R) (e e' : Env)
    (h : ∀ ea eb : Env, (∀ l, l ∈ ls → ea l = eb l) → (∀ l, l ∉ ls → ea l = e l) →
      (∀ l, l ∉ ls → eb l = e' l) → f ea = g eb) :
    sumLabels dimOf ls f e = sumLabels dimOf ls g e' := by
  induction ls generalizing e e' with
  | nil => exact h e e' (by simp) (by simp) (by simp)
  | cons l ls ih =>
    simp only [sumLabels]; congr 1
    apply List.map_congr_left; intro i _
    apply ih
    intro ea eb hag ha hb
    apply h ea eb
    · intro x hx
      rcases List.mem_cons.mp hx with rfl | hx
      · by_cases hm : x ∈ ls
        · exact hag x hm
        · rw [ha x hm, hb x hm]; simp [upd]
      · exact hag x hx
    · intro x hx
      have hx1 : x ≠ l := fun h' => hx (h' ▸ List.mem_cons_self)
      have hx2 : x ∉ ls := fun h' => hx (List.mem_cons_of_mem _ h')
      rw [ha x hx2]; simp [upd, hx1]
    · intro x hx
      have hx1 : x ≠ l := fun h' => hx (h' ▸ List.mem_cons_self)
      have hx2 : x ∉ ls := fun h' => hx (List.mem_cons_of_mem _ h')
      rw [hb x hx2]; simp [upd, hx1]

theorem mem_dedupL (l : List Nat) (x : Nat) : x ∈ dedupL l ↔ x ∈ l := by
  induction l with
  | nil => simp [dedupL]
  | cons a l ih =>
    unfold dedupL
    by_cases h : a ∈ dedupL l
    · rw [if_pos h, ih, List.mem_cons]
      constructor
      · exact Or.inr
      · rintro (rfl | h'); exact ih.mp h; exact h'
    · rw [if_neg h, List.mem_cons, List.mem_cons, ih]

theorem nodup_dedupL (l : List Nat) : (dedupL l).Nodup := by
  induction l with
  | nil => simp [dedupL]
  | cons a l ih =>
    unfold dedupL
    by_cases h : a ∈ dedupL l
    · rw [if_pos h]; exact ih
    · rw [if_neg h]; exact List.nodup_cons.mpr ⟨h, ih⟩

/-- the summed labels are any nodup list with the right members, up to permutation -/
theorem summedLabels_perm (ins : List (List Nat)) (out target : List Nat) (ht : target.Nodup)
    (hm : ∀ x, x ∈ target ↔ (x ∈ ins.flatten ∧ x ∉ out)) :
    (summedLabels ins out).Perm target := by
  unfold summedLabels
  apply (List.perm_ext_iff_of_nodup (nodup_dedupL _) ht).mpr
  intro x
  rw [mem_dedupL, List.mem_filter, hm x]
  simp

theorem bindEnv_of_not_mem (ls vs : List Nat) (e : Env) (x : Nat) (h : x ∉ ls) :
    bindEnv ls vs e x = e x := by
  induction ls generalizing vs with
  | nil => cases vs <;> rfl
  | cons l ls ih =>
    cases vs with
    | nil => rfl
    | cons v vs =>
      have hx : x ≠ l := fun h' => h (h' ▸ List.mem_cons_self)
      show (if x = l then v else bindEnv ls vs e x) = e x
      rw [if_neg hx]
      exact ih vs (fun h' => h (List.mem_cons_of_mem _ h'))

theorem bindEnv_getElem (ls vs : List Nat) (e : Env) (hnd : ls.Nodup) (i : Nat)
    (hi : i < ls.length) (hiv : i < vs.length) :
    bindEnv ls vs e (ls[i]) = vs[i] := by
  induction ls generalizing vs i with
  | nil => simp at hi
  | cons l ls ih =>
    cases vs with
    | nil => simp at hiv
    | cons v vs =>
      have hn := List.nodup_cons.mp hnd
      cases i with
      | zero => show (if l = l then v else _) = v; simp
      | succ i =>
        have hi' : i < ls.length := by simpa using hi
        have hiv' : i < vs.length := by simpa using hiv
        have hne : ls[i] ≠ l := fun h' => hn.1 (h' ▸ List.getElem_mem hi')
        show (if ls[i] = l then v else bindEnv ls vs e ls[i]) = vs[i]
        rw [if_neg hne]
        exact ih vs hn.2 i hi' hiv'

end PW
