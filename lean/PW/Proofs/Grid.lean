import Mathlib.Algebra.BigOperators.Group.List.Basic
import Mathlib.Algebra.BigOperators.Ring.List
import Mathlib.Tactic.Ring
import PW.Proofs.Basic
import PW.Proofs.SumLabels
import PW.Spec
/-! `sumGrid` congruence and the collapse lemmas of the specification machine. -/
namespace PW
variable {R : Type} [CommRing R]

theorem sumGrid_congr (ds : List Nat) (f g : List Nat → R)
    (h : ∀ κ, κ.length = ds.length → f κ = g κ) : sumGrid ds f = sumGrid ds g := by
  induction ds generalizing f g with
  | nil => simp only [sumGrid]; exact h [] rfl
  | cons d ds ih =>
    simp only [sumGrid]
    congr 1
    apply List.map_congr_left
    intro i _
    apply ih
    intro κ hκ
    exact h (i :: κ) (by simp [hκ])

theorem sumGrid_zero (ds : List Nat) : sumGrid ds (fun _ => (0 : R)) = 0 := by
  induction ds with
  | nil => rfl
  | cons d ds ih =>
    simp only [sumGrid, ih]
    simp

theorem sumGrid_mul_left (ds : List Nat) (s : R) (f : List Nat → R) :
    sumGrid ds (fun κ => s * f κ) = s * sumGrid ds f := by
  induction ds generalizing f with
  | nil => simp [sumGrid]
  | cons d ds ih =>
    simp only [sumGrid]
    rw [← List.sum_map_mul_left]
    congr 1
    apply List.map_congr_left
    intro i _
    exact ih (fun κ => f (i :: κ))

theorem sumGrid_add (ds : List Nat) (f g : List Nat → R) :
    sumGrid ds (fun κ => f κ + g κ) = sumGrid ds f + sumGrid ds g := by
  induction ds generalizing f g with
  | nil => simp [sumGrid]
  | cons d ds ih =>
    simp only [sumGrid]
    rw [← List.sum_map_add]
    congr 1
    apply List.map_congr_left
    intro i _
    exact ih (fun κ => f (i :: κ)) (fun κ => g (i :: κ))

namespace Spec

theorem scatter_length (n : Nat) (T a : List Nat) (e : Nat → Nat) : (scatter n T a e).length = n := by
  simp [scatter]

theorem scatter_getD_single (n p o : Nat) (hp : p < n) (e : Nat → Nat) :
    (scatter n [p] [o, o] e).getD p 0 = o := by
  unfold scatter
  rw [List.getD_eq_getElem?_getD, List.getElem?_eq_getElem (by simpa using hp)]
  simp

theorem scatter_take_single (n p o : Nat) (e : Nat → Nat) :
    scatter n [p] (List.take 1 [o, o]) e = scatter n [p] [o, o] e := by
  unfold scatter
  apply List.map_congr_left
  intro q _
  by_cases h : q = p <;> simp [h]

/-- after projecting on outcome `o`, every other outcome has probability zero: an outcome of
probability zero is never reported on re-measurement, and re-measuring returns `o` -/
theorem prob_after_projectOn_other (dims : List Nat) (p o o' : Nat) (hp : p < dims.length) (h : o ≠ o')
    (ρ : Tensor R) : prob dims p (projectOn dims p o ρ) o' = 0 := by
  unfold prob reduceTo
  dsimp only
  have hz : ∀ e : Env, projectOn dims p o ρ
      (scatter dims.length [p] (List.take [p].length [o', o']) e ++
        scatter dims.length [p] (List.drop [p].length [o', o']) e) = 0 := by
    intro e
    unfold projectOn; dsimp only
    have ht := scatter_take_single dims.length p o' e
    rw [show List.take [p].length [o', o'] = List.take 1 [o', o'] from rfl, ht,
      List.take_left' (scatter_length _ _ _ _), scatter_getD_single dims.length p o' hp e]
    rw [if_neg]
    rintro ⟨h1, _⟩
    exact h h1.symm
  rw [sumLabels_congr _ _ _ (fun _ => 0) _ hz]
  clear hz
  generalize ((List.range dims.length).filter fun p_1 => decide (p_1 ∉ [p])) = ls
  generalize (fun (_ : Nat) => 0) = e0
  induction ls generalizing e0 with
  | nil => rfl
  | cons a ls ih => simp only [sumLabels, ih]; simp

/-- the probability of the outcome projected on is unchanged by the projection -/
theorem prob_after_projectOn_same (dims : List Nat) (p o : Nat) (hp : p < dims.length)
    (ρ : Tensor R) : prob dims p (projectOn dims p o ρ) o = prob dims p ρ o := by
  unfold prob reduceTo
  dsimp only
  apply sumLabels_congr
  intro e
  unfold projectOn; dsimp only
  have h1 : scatter dims.length [p] (List.take [p].length [o, o]) e = scatter dims.length [p] [o, o] e :=
    scatter_take_single dims.length p o e
  have h2 : scatter dims.length [p] (List.drop [p].length [o, o]) e = scatter dims.length [p] [o, o] e := by
    unfold scatter
    apply List.map_congr_left
    intro q _
    by_cases h : q = p <;> simp [h]
  rw [h1, h2, List.take_left' (scatter_length _ _ _ _), List.drop_left' (scatter_length _ _ _ _),
    scatter_getD_single dims.length p o hp e]
  simp

end Spec
end PW
