import Mathlib.Algebra.BigOperators.Group.List.Basic
import Mathlib.Algebra.BigOperators.Ring.List
import Mathlib.Tactic.Ring
import PW.Proofs.Basic
import PW.Spec
/-! `sumGrid` congruence and the collapse lemmas of the specification machine. -/
namespace PW
variable {R : Type} [CommRing R]

theorem sumGrid_congr (ds : List Nat) (f g : List Nat → R)
    (h : ∀ κ, κ.length = ds.length → f κ = g κ) : sumGrid ds f = sumGrid ds g := by
  induction ds generalizing f g with
  | nil => simp only [sumGrid]; exact h [] rfl
  | cons d ds ih =>
    simp only [sumGrid]
    congr 1
    apply List.map_congr_left
    intro i _
    apply ih
    intro κ hκ
    exact h (i :: κ) (by simp [hκ])

theorem sumGrid_zero (ds : List Nat) : sumGrid ds (fun _ => (0 : R)) = 0 := by
  induction ds with
  | nil => rfl
  | cons d ds ih =>
    simp only [sumGrid, ih]
    simp

theorem sumGrid_mul_left (ds : List Nat) (s : R) (f : List Nat → R) :
    sumGrid ds (fun κ => s * f κ) = s * sumGrid ds f := by
  induction ds generalizing f with
  | nil => simp [sumGrid]
  | cons d ds ih =>
    simp only [sumGrid]
    rw [← List.sum_map_mul_left]
    congr 1
    apply List.map_congr_left
    intro i _
    exact ih (fun κ => f (i :: κ))

theorem sumGrid_add (ds : List Nat) (f g : List Nat → R) :
    sumGrid ds (fun κ => f κ + g κ) = sumGrid ds f + sumGrid ds g := by
  induction ds generalizing f g with
  | nil => simp [sumGrid]
  | cons d ds ih =>
    simp only [sumGrid]
    rw [← List.sum_map_add]
    congr 1
    apply List.map_congr_left
    intro i _
    exact ih (fun κ => f (i :: κ)) (fun κ => g (i :: κ))

namespace Spec


theorem insertAt_length (l : List Nat) (p v : Nat) (hp : p ≤ l.length) :
    (insertAt l p v).length = l.length + 1 := by
  unfold insertAt; simp; omega

theorem insertAt_getD (l : List Nat) (p v : Nat) (hp : p ≤ l.length) : (insertAt l p v).getD p 0 = v := by
  unfold insertAt
  rw [List.getD_eq_getElem?_getD, List.getElem?_append_right (by simp)]
  simp [Nat.min_eq_left hp]

/-- after projecting on outcome `o`, every other outcome has probability zero: an outcome of
probability zero is never reported on re-measurement, and re-measuring returns `o` -/
theorem prob_after_projectOn_other (dims : List Nat) (p o o' : Nat) (hp : p < dims.length) (h : o ≠ o')
    (ρ : Tensor R) : prob dims p (projectOn dims p o ρ) o' = 0 := by
  unfold prob
  rw [← sumGrid_zero (R := R) (dims.eraseIdx p)]
  apply sumGrid_congr
  intro κ hκ
  have hlen : κ.length = dims.length - 1 := by rw [hκ, List.length_eraseIdx]; simp [hp]
  have hpl : p ≤ κ.length := by omega
  have hil : (insertAt κ p o').length = dims.length := by rw [insertAt_length κ p o' hpl]; omega
  unfold projectOn; dsimp only
  rw [List.take_left' hil, insertAt_getD κ p o' hpl]
  rw [if_neg]; rintro ⟨h1, _⟩; exact h h1.symm

/-- the probability of the outcome projected on is unchanged by the projection -/
theorem prob_after_projectOn_same (dims : List Nat) (p o : Nat) (hp : p < dims.length)
    (ρ : Tensor R) : prob dims p (projectOn dims p o ρ) o = prob dims p ρ o := by
  unfold prob
  apply sumGrid_congr
  intro κ hκ
  have hlen : κ.length = dims.length - 1 := by rw [hκ, List.length_eraseIdx]; simp [hp]
  have hpl : p ≤ κ.length := by omega
  have hil : (insertAt κ p o).length = dims.length := by rw [insertAt_length κ p o hpl]; omega
  unfold projectOn; dsimp only
  rw [List.take_left' hil, List.drop_left' hil, insertAt_getD κ p o hpl]
  simp

end Spec
end PW
