import Mathlib.Tactic.Ring
import Mathlib.Algebra.BigOperators.Group.List.Basic
import Mathlib.Data.Nat.Basic
import PW.Tensor
/-! Row-major flat indices: the lemmas behind `reshape`, `kron`, zero padding and truncation. -/
namespace PW

/-- a multi-index lies inside a shape -/
def InRange : List Nat → List Nat → Prop
  | [], [] => True
  | d :: ds, i :: is => i < d ∧ InRange ds is
  | _, _ => False

theorem inRange_iff (ds is : List Nat) : inRange ds is = true ↔ InRange ds is := by
  induction ds generalizing is with
  | nil => cases is <;> simp [inRange, InRange]
  | cons d ds ih => cases is with
    | nil => simp [inRange, InRange]
    | cons i is => simp [inRange, InRange, ih]

theorem encode_lt (ds is : List Nat) (h : InRange ds is) : encode ds is < ds.prod := by
  induction ds generalizing is with
  | nil => cases is <;> simp [encode]
  | cons d ds ih =>
    cases is with
    | nil => simp [InRange] at h
    | cons i is =>
      obtain ⟨hi, hr⟩ := h
      have := ih is hr
      simp only [encode, List.prod_cons]
      calc i * ds.prod + encode ds is < i * ds.prod + ds.prod := by omega
        _ = (i + 1) * ds.prod := by ring
        _ ≤ d * ds.prod := Nat.mul_le_mul_right _ hi

/-- `reshape` round trip: decoding the flat index of an in-range multi-index gives it back -/
theorem decode_encode (ds is : List Nat) (h : InRange ds is) : decode ds (encode ds is) = is := by
  induction ds generalizing is with
  | nil => cases is <;> simp_all [InRange, decode]
  | cons d ds ih =>
    cases is with
    | nil => simp [InRange] at h
    | cons i is =>
      obtain ⟨hi, hr⟩ := h
      have hlt := encode_lt ds is hr
      have hpos : 0 < ds.prod := by omega
      simp only [encode, decode]
      rw [Nat.add_comm, Nat.add_mul_div_right _ _ hpos, Nat.div_eq_of_lt hlt, Nat.zero_add,
        Nat.add_mul_mod_self_right, Nat.mod_eq_of_lt hlt, ih is hr]

/-- `kron` layout: the flat index of a concatenated multi-index is `i_a · |b| + i_b` -/
theorem encode_append (da db ia ib : List Nat) (h : ia.length = da.length) :
    encode (da ++ db) (ia ++ ib) = encode da ia * db.prod + encode db ib := by
  induction da generalizing ia with
  | nil =>
    cases ia with
    | nil => simp [encode]
    | cons _ _ => simp at h
  | cons d da ih =>
    cases ia with
    | nil => simp at h
    | cons i ia =>
      simp only [List.cons_append, encode, List.prod_append]
      rw [ih ia (by simpa using h)]
      ring

theorem InRange.length {ds is : List Nat} (h : InRange ds is) : is.length = ds.length := by
  induction ds generalizing is with
  | nil => cases is <;> simp_all [InRange]
  | cons d ds ih => cases is with
    | nil => simp [InRange] at h
    | cons i is => simp [ih h.2]

theorem InRange.append {da db ia ib : List Nat} (ha : InRange da ia) (hb : InRange db ib) :
    InRange (da ++ db) (ia ++ ib) := by
  induction da generalizing ia with
  | nil => cases ia <;> simp_all [InRange]
  | cons d da ih => cases ia with
    | nil => simp [InRange] at ha
    | cons i ia => exact ⟨ha.1, ih ha.2⟩

/-- reading a stored array back at an in-range index returns the stored entry -/
theorem ofFlat_toFlat {R : Type} [Zero R] (ds : List Nat) (t : Tensor R) (idx : List Nat)
    (h : InRange ds idx) : ofFlat ds (toFlat ds t) idx = t idx := by
  unfold ofFlat toFlat
  rw [(inRange_iff ds idx).mpr h]
  have hlt := encode_lt ds idx h
  simp [Array.getD, hlt, decode_encode ds idx h]

/-- zero extension: outside its stored shape a tensor is zero (Fock spaces are infinite with
finite support) -/
theorem ofFlat_outside {R : Type} [Zero R] (ds : List Nat) (a : Array R) (idx : List Nat)
    (h : ¬ InRange ds idx) : ofFlat ds a idx = 0 := by
  unfold ofFlat
  have : inRange ds idx = false := by
    cases hb : inRange ds idx
    · rfl
    · exact absurd ((inRange_iff ds idx).mp hb) h
  simp [this]

end PW

namespace PW
/-- **`kron` is the tensor product of the block functions.** Reading the Kronecker product of two
stored blocks at a concatenated index gives the product of the blocks' entries: combining blocks
multiplies amplitudes and changes nothing else (all shapes, all block sizes). -/
theorem ofFlat_kronFlat {R : Type} [MulZeroClass R] (da db : List Nat) (a b : Array R)
    (ha : a.size = da.prod) (hb : b.size = db.prod) (ia ib : List Nat)
    (hia : InRange da ia) (hib : InRange db ib) :
    ofFlat (da ++ db) (kronFlat a b) (ia ++ ib) = ofFlat da a ia * ofFlat db b ib := by
  have hab : InRange (da ++ db) (ia ++ ib) := hia.append hib
  unfold ofFlat
  rw [(inRange_iff _ _).mpr hab, (inRange_iff _ _).mpr hia, (inRange_iff _ _).mpr hib]
  simp only [if_true]
  rw [encode_append da db ia ib hia.length]
  have hla := encode_lt da ia hia
  have hlb := encode_lt db ib hib
  have hpos : 0 < db.prod := by omega
  have hlt : encode da ia * db.prod + encode db ib < a.size * b.size := by
    rw [ha, hb]
    calc encode da ia * db.prod + encode db ib < encode da ia * db.prod + db.prod := by omega
      _ = (encode da ia + 1) * db.prod := by ring
      _ ≤ da.prod * db.prod := Nat.mul_le_mul_right _ hla
  unfold kronFlat
  simp only [Array.getD_eq_getD_getElem?, Array.getElem?_ofFn, hlt, dif_pos, Option.getD_some]
  rw [hb, Nat.add_comm, Nat.add_mul_div_right _ _ hpos, Nat.div_eq_of_lt hlb, Nat.zero_add,
    Nat.add_mul_mod_self_right, Nat.mod_eq_of_lt hlb]
end PW
