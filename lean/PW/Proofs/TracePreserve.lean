import PW.Proofs.MeasureOrder
/-!
# The partial trace keeps the trace — for every kept list

`Tr (reduceTo dims T ρ) = Tr ρ` for every duplicate-free list `T` of positions (in any order): tracing
subsystems out never changes the total weight, so a normalised state stays normalised without any
rescaling.
-/
namespace PW
namespace Spec
variable {R : Type} [CommRing R]

/-- a grid sum over the dimensions of a duplicate-free label list is the label sum over that list -/
theorem sumGrid_eq_sumLabels_list (T : List Nat) (hT : T.Nodup) (D : Nat → Nat) (g : List Nat → R) (e : Env) :
    sumGrid (T.map D) g = sumLabels D T (fun e' => g (T.map e')) e := by
  induction T generalizing g e with
  | nil => simp [sumGrid, sumLabels]
  | cons t T ih =>
    have ht : t ∉ T := (List.nodup_cons.mp hT).1
    simp only [List.map_cons, sumGrid, sumLabels]
    congr 1
    apply List.map_congr_left
    intro i _
    rw [ih (List.nodup_cons.mp hT).2 (fun κ => g (i :: κ)) (upd e t i)]
    apply sumLabels_rel
    intro ea eb hab _ hb
    have h1 : eb t = i := by simpa [upd] using hb t ht
    have h2 : T.map ea = T.map eb := List.map_congr_left (fun l hl => hab l hl)
    rw [h1, h2]

theorem getD_map_idxOf (T : List Nat) (f : Nat → Nat) (q : Nat) (hq : q ∈ T) :
    (T.map f).getD (T.idxOf q) 0 = f q := by
  have hlt : T.idxOf q < T.length := List.idxOf_lt_length_iff.mpr hq
  rw [List.getD_eq_getElem?_getD, List.getElem?_eq_getElem (by simpa using hlt)]
  simp [List.getElem_idxOf]

/-- **the partial trace keeps the trace** (every space, every duplicate-free kept list, any order) -/
theorem trace_reduceTo (dims : List Nat) (T : List Nat) (hT : T.Nodup) (hlt : ∀ p ∈ T, p < dims.length)
    (ρ : Tensor R) : trace (T.map fun p => dims.getD p 0) (reduceTo dims T ρ) = trace dims ρ := by
  have hdim : (T.map fun p => dims.getD p 0) = T.map (dimOf2 dims) := by
    apply List.map_congr_left
    intro p hp
    unfold dimOf2; rw [if_pos (hlt p hp)]
  rw [trace_eq_sumLabels dims ρ (fun _ => 0)]
  unfold trace
  rw [hdim, sumGrid_eq_sumLabels_list T hT (dimOf2 dims) _ (fun _ => 0)]
  let rest := (List.range dims.length).filter fun p => decide (p ∉ T)
  have hperm : (T ++ rest).Perm (List.range dims.length) := by
    have h1 : (T ++ rest).Perm (((List.range dims.length).filter fun p => decide (p ∈ T)) ++ rest) := by
      apply List.Perm.append_right
      apply (List.perm_ext_iff_of_nodup hT (List.Nodup.filter _ List.nodup_range)).mpr
      intro x
      simp only [List.mem_filter, List.mem_range, decide_eq_true_eq]
      exact ⟨fun h => ⟨hlt x h, h⟩, fun h => h.2⟩
    refine h1.trans ?_
    have := List.filter_append_perm (fun p => decide (p ∈ T)) (List.range dims.length)
    simpa [rest] using this
  have hnd : (T ++ rest).Nodup := by
    rw [List.nodup_append]
    refine ⟨hT, List.Nodup.filter _ List.nodup_range, ?_⟩
    intro x hx y hy hxy
    subst hxy
    simp [rest, List.mem_filter] at hy
    exact hy.2 hx
  rw [← sumLabels_perm _ hperm hnd, sumLabels_append]
  apply sumLabels_congr
  intro e'
  unfold reduceTo
  dsimp only
  apply sumLabels_rel
  intro ea eb hab _ hb
  have hsc : scatter dims.length T (T.map e') ea = (List.range dims.length).map eb := by
    unfold scatter
    apply List.map_congr_left
    intro q hq
    by_cases hqT : q ∈ T
    · have hnr : q ∉ (List.range dims.length).filter fun p => decide (p ∉ T) := by simp [List.mem_filter, hqT]
      rw [if_pos hqT, getD_map_idxOf T e' q hqT, hb q hnr]
    · have hr : q ∈ (List.range dims.length).filter fun p => decide (p ∉ T) := by simp [List.mem_filter, List.mem_range.mp hq, hqT]
      rw [if_neg hqT, hab q hr]
  have htake : (T.map e' ++ T.map e').take T.length = T.map e' := by simp
  have hdrop : (T.map e' ++ T.map e').drop T.length = T.map e' := by simp
  rw [htake, hdrop, hsc]

end Spec
end PW

namespace PW
namespace Spec
variable {R : Type} [CommRing R]

/-- keeping *every* subsystem, in any order, only permutes the axes: nothing is summed -/
theorem reduceTo_of_all (dims T : List Nat) (hT : T.Perm (List.range dims.length)) (ρ : Tensor R) (rc : List Nat) :
    reduceTo dims T ρ rc
      = ρ (scatter dims.length T (rc.take T.length) (fun _ => 0) ++ scatter dims.length T (rc.drop T.length) (fun _ => 0)) := by
  unfold reduceTo
  dsimp only
  have hrest : ((List.range dims.length).filter fun p => decide (p ∉ T)) = [] := by
    rw [List.filter_eq_nil_iff]
    intro a ha
    simp [hT.mem_iff.mpr ha]
  rw [hrest]
  rfl

/-- … and in the original order it is the state itself -/
theorem reduceTo_range (dims : List Nat) (ρ : Tensor R) (r c : List Nat) (hr : r.length = dims.length)
    (hc : c.length = dims.length) : reduceTo dims (List.range dims.length) ρ (r ++ c) = ρ (r ++ c) := by
  rw [reduceTo_of_all dims _ (List.Perm.refl _), List.length_range, List.take_left' hr, List.drop_left' hr]
  have hs : ∀ x : List Nat, x.length = dims.length → scatter dims.length (List.range dims.length) x (fun _ => 0) = x := by
    intro x hx
    apply List.ext_getElem?
    intro i
    unfold scatter
    by_cases hi : i < dims.length
    · rw [List.getElem?_map, List.getElem?_range hi]
      simp only [Option.map_some]
      rw [if_pos (List.mem_range.mpr hi)]
      have hidx : (List.range dims.length).idxOf i = i := by
        have := (List.nodup_range (n := dims.length)).idxOf_getElem i (by simpa using hi)
        simpa using this
      rw [hidx, List.getD_eq_getElem?_getD, List.getElem?_eq_getElem (by omega)]
      simp
    · rw [List.getElem?_eq_none (by simp; omega), List.getElem?_eq_none (by omega)]
  rw [hs r hr, hs c hc]

end Spec
end PW
