import PW.Proofs.LayoutLemmas
import PW.Routing
/-! Frame lemmas for the routing model: blocks without an addressed subsystem are untouched. -/
namespace PW.Routing
open PW.Layout

theorem not_all_mem_of_not_meets (T : List Nat) (b : Block) (hT : T ≠ []) (hm : meets T b = false) :
    T.all (· ∈ b.members) = false := by
  obtain ⟨t, ht⟩ := List.exists_mem_of_ne_nil T hT
  rw [Bool.eq_false_iff]
  intro hall
  rw [List.all_eq_true] at hall
  have htb : t ∈ b.members := by simpa using hall t ht
  rw [meets_of_mem T b t ht htb] at hm
  exact Bool.noConfusion hm

theorem reorder_bystander (l : Layout) (c : Nat) (T : List Nat) (b : Block) (hb : b ∈ l)
    (hm : meets T b = false) : b ∈ reorder l c T := by
  unfold reorder
  dsimp only
  rw [List.mem_map]
  refine ⟨b, combine_bystander l c T b hb hm, ?_⟩
  by_cases hT : T = []
  · subst hT; simp [swapInto]
  · rw [not_all_mem_of_not_meets T b hT hm]; simp

theorem envOrder_bystander (l : Layout) (T : List Nat) (b : Block) (hb : b ∈ l) (hT : T ≠ [])
    (hm : meets T b = false) : b ∈ envOrder l T := by
  unfold envOrder
  rw [List.mem_map]
  refine ⟨b, hb, ?_⟩
  rw [not_all_mem_of_not_meets T b hT hm]; simp

theorem meets_singleton (t : Nat) (b : Block) : meets [t] b = decide (t ∈ b.members) := by
  unfold meets
  by_cases h : t ∈ b.members
  · rw [decide_eq_true h, List.any_eq_true]
    exact ⟨t, h, by simp⟩
  · rw [decide_eq_false h, Bool.eq_false_iff]
    intro hany
    rw [List.any_eq_true] at hany
    obtain ⟨x, hx, hxt⟩ := hany
    have : x = t := by simpa using hxt
    subst this; exact h hx

/-- **A single-subsystem request leaves every block that does not hold the subsystem untouched.** -/
theorem memberFront_bystander (l : Layout) (t : Nat) (r : Bool) (b : Block) (hb : b ∈ l)
    (hm : t ∉ b.members) : b ∈ memberFront l t r := by
  have hmeets : meets [t] b = false := by rw [meets_singleton]; simpa using hm
  unfold memberFront
  split
  · exact envOrder_bystander l [t] b hb (by simp) hmeets
  · split
    · exact reorder_bystander l _ [t] b hb hmeets
    · exact hb
  · exact hb

theorem foldl_reorder_bystander (focks : List Nat) (l : Layout) (c : Nat) (b : Block) (hb : b ∈ l)
    (hm : ∀ f ∈ focks, f ∉ b.members) : b ∈ focks.foldl (fun acc f => reorder acc c [f]) l := by
  induction focks generalizing l with
  | nil => exact hb
  | cons f fs ih =>
    simp only [List.foldl_cons]
    apply ih
    · apply reorder_bystander _ _ _ _ hb
      rw [meets_singleton]; simpa using hm f List.mem_cons_self
    · intro g hg; exact hm g (List.mem_cons_of_mem _ hg)

theorem meets_append_members (l : Layout) (c : Nat) (T : List Nat) (b : Block) (hb : b ∈ l)
    (hwf : (allMembers l).Nodup) (hm : meets T b = false) : meets (withMembers l c T) b = false := by
  unfold withMembers meets at *
  rw [Bool.eq_false_iff] at hm ⊢
  intro h
  apply hm
  rw [List.any_eq_true] at h ⊢
  obtain ⟨x, hxb, hx⟩ := h
  refine ⟨x, hxb, ?_⟩
  simp only [List.mem_append, decide_eq_true_eq] at hx ⊢
  rcases hx with hx | hx
  · exact hx
  · -- x belongs to another block that meets T: impossible, the blocks are disjoint
    exfalso
    simp only [List.mem_flatten, List.mem_map] at hx
    obtain ⟨ms, ⟨b', hb', rfl⟩, hxb'⟩ := hx
    have hb'l : b' ∈ l := (List.mem_filter.mp hb').1
    have hb'm : meets T b' = true := by
      have := (List.mem_filter.mp hb').2
      simp only [Bool.and_eq_true] at this
      exact this.2
    have hne : b ≠ b' := by
      intro he; subst he
      exact hm (by unfold meets at hb'm; exact hb'm)
    -- x occurs in two different blocks of a layout whose member list is duplicate-free
    clear hm hb'm hb'
    induction l with
    | nil => simp at hb
    | cons a l ih =>
      have hnd : (a.members ++ allMembers l).Nodup := by simpa [allMembers] using hwf
      rcases List.mem_cons.mp hb with rfl | hbl
      · rcases List.mem_cons.mp hb'l with rfl | hb'l'
        · exact hne rfl
        · have : x ∈ allMembers l := by
            unfold allMembers; simp only [List.mem_flatten, List.mem_map]
            exact ⟨b'.members, ⟨b', hb'l', rfl⟩, hxb'⟩
          exact (List.nodup_append.mp hnd).2.2 x hxb x this rfl
      · rcases List.mem_cons.mp hb'l with rfl | hb'l'
        · have : x ∈ allMembers l := by
            unfold allMembers; simp only [List.mem_flatten, List.mem_map]
            exact ⟨b.members, ⟨b, hbl, rfl⟩, hxb⟩
          exact (List.nodup_append.mp hnd).2.2 x hxb' x this rfl
        · exact ih hbl (List.nodup_append.mp hnd).2.1 hb'l'

/-- **Operations**: a block that holds none of the operands is untouched by `apply_operation`,
whatever has to be joined and reordered for the operands. -/
theorem actOp_bystander (l : Layout) (c : Nat) (T focks : List Nat) (b : Block) (hb : b ∈ l)
    (hwf : (allMembers l).Nodup) (hm : meets T b = false) (hf : ∀ f ∈ focks, f ∈ T) : b ∈ actOp l c T focks := by
  have hfb : ∀ f ∈ focks, f ∉ b.members := by
    intro f hf' hfb
    rw [meets_of_mem T b f (hf f hf') hfb] at hm
    exact Bool.noConfusion hm
  unfold actOp
  split
  · rename_i t
    apply memberFront_bystander _ _ _ _ hb
    intro ht
    rw [meets_of_mem [t] b t (by simp) ht] at hm
    exact Bool.noConfusion hm
  · dsimp only
    apply foldl_reorder_bystander _ _ _ _ _ hfb
    split
    · exact hb
    · exact combine_bystander l c _ b hb (meets_append_members l c T b hb hwf hm)

end PW.Routing
