import Mathlib.Analysis.SpecialFunctions.Gaussian.GaussianIntegral
/-! The overlap integral of two Gaussian profiles of *different* widths. -/
open Real MeasureTheory
namespace PW.OverlapGeneral
noncomputable def gprof (σ μ : ℝ) (t : ℝ) : ℝ :=
  (1 / √(σ * √π)) * exp (-((t - μ) ^ 2) / (2 * σ ^ 2))

theorem overlap_general (σ₁ σ₂ a b : ℝ) (h1 : 0 < σ₁) (h2 : 0 < σ₂) :
    ∫ t, gprof σ₁ a t * gprof σ₂ b t
      = √(2 * σ₁ * σ₂ / (σ₁ ^ 2 + σ₂ ^ 2)) * exp (-((a - b) ^ 2) / (2 * (σ₁ ^ 2 + σ₂ ^ 2))) := by
  have hpi : 0 < √π := sqrt_pos.mpr pi_pos
  set S := σ₁ ^ 2 + σ₂ ^ 2 with hS
  have hSpos : 0 < S := by positivity
  set A := S / (2 * σ₁ ^ 2 * σ₂ ^ 2) with hA
  have hApos : 0 < A := by positivity
  set m := (a * σ₂ ^ 2 + b * σ₁ ^ 2) / S with hm
  have key : ∀ t, gprof σ₁ a t * gprof σ₂ b t =
      ((1 / √(σ₁ * √π)) * (1 / √(σ₂ * √π)) * exp (-((a - b) ^ 2) / (2 * S))) * exp (-A * (t - m) ^ 2) := by
    intro t
    unfold gprof
    rw [mul_mul_mul_comm, ← exp_add, mul_assoc (1 / √(σ₁ * √π) * (1 / √(σ₂ * √π))), ← exp_add]
    congr 2
    rw [hA, hm, hS]
    field_simp
    ring
  simp_rw [key]
  rw [integral_const_mul]
  have h2' : ∫ t, exp (-A * (t - m) ^ 2) = √(π / A) := by
    rw [integral_sub_right_eq_self (fun t => exp (-A * t ^ 2)) m]
    exact integral_gaussian A
  rw [h2']
  have hconst : (1 / √(σ₁ * √π)) * (1 / √(σ₂ * √π)) * √(π / A) = √(2 * σ₁ * σ₂ / S) := by
    rw [one_div, one_div, ← sqrt_inv, ← sqrt_inv, ← sqrt_mul (by positivity), ← sqrt_mul (by positivity)]
    congr 1
    rw [hA]
    have hsq : √π * √π = π := mul_self_sqrt pi_pos.le
    field_simp
    nlinarith [hsq, pi_pos]
  calc (1 / √(σ₁ * √π)) * (1 / √(σ₂ * √π)) * exp (-((a - b) ^ 2) / (2 * S)) * √(π / A)
      = ((1 / √(σ₁ * √π)) * (1 / √(σ₂ * √π)) * √(π / A)) * exp (-((a - b) ^ 2) / (2 * S)) := by ring
    _ = √(2 * σ₁ * σ₂ / S) * exp (-((a - b) ^ 2) / (2 * S)) := by rw [hconst]

end PW.OverlapGeneral
