import PW.Proofs.Channels
/-!
# No signalling: what is done to the addressed part cannot be seen in the rest

`ptrace ρ` is the reduced state of "everything else" (`b`) of a bipartite state on `a × b`.
A trace-preserving channel on `a` — in particular a unitary operation — leaves it unchanged, for every
joint state, entangled or not.  So whatever is stored in other blocks, and the reduced state of the
unaddressed members of the same block, cannot depend on the call.
-/
open Matrix
open scoped Kronecker ComplexOrder

namespace PW.Channels

variable {a b ι : Type} [Fintype a] [Fintype b] [DecidableEq a] [DecidableEq b]

/-- partial trace over the addressed part -/
def ptrace (ρ : Matrix (a × b) (a × b) ℂ) : Matrix b b ℂ := fun x y => ∑ i, ρ (i, x) (i, y)

omit [Fintype a] [Fintype b] [DecidableEq a] in
theorem emb_apply (K : Matrix a a ℂ) (i j : a) (x y : b) : emb (b := b) K (i, x) (j, y) = if x = y then K i j else 0 := by
  unfold emb
  rw [kroneckerMap_apply, Matrix.one_apply]
  split <;> simp

omit [DecidableEq a] in
/-- entry of `(K ⊗ 1) ρ (L ⊗ 1)` -/
theorem emb_mul_mul_apply (K L : Matrix a a ℂ) (ρ : Matrix (a × b) (a × b) ℂ) (i j : a) (x y : b) :
    (emb (b := b) K * ρ * emb L : Matrix (a × b) (a × b) ℂ) (i, x) (j, y) = ∑ k, ∑ l, K i k * ρ (k, x) (l, y) * L l j := by
  rw [Matrix.mul_apply, Fintype.sum_prod_type]
  simp only [Matrix.mul_apply, Fintype.sum_prod_type, emb_apply]
  rw [Finset.sum_comm]
  have : ∀ (l : a), (∑ y' : b, (∑ k : a, ∑ x' : b, (if x = x' then K i k else 0) * ρ (k, x') (l, y')) * (if y' = y then L l j else 0))
      = ∑ k, K i k * ρ (k, x) (l, y) * L l j := by
    intro l
    rw [Finset.sum_eq_single y]
    · simp only [if_true]
      rw [Finset.sum_mul]
      apply Finset.sum_congr rfl
      intro k _
      rw [Finset.sum_eq_single x]
      · simp
      · intro x' _ hx'; simp [Ne.symm hx']
      · simp
    · intro y' _ hy'; simp [hy']
    · simp
  rw [Finset.sum_comm]
  simp only [this]
  rw [Finset.sum_comm]

/-- **no signalling**: a trace-preserving channel on the addressed part leaves the reduced state of
everything else unchanged -/
theorem ptrace_kraus (s : Finset ι) (K : ι → Matrix a a ℂ) (hK : ∑ i ∈ s, (K i)ᴴ * K i = 1)
    (ρ : Matrix (a × b) (a × b) ℂ) :
    ptrace (∑ i ∈ s, emb (K i) * ρ * (emb (K i))ᴴ) = ptrace ρ := by
  funext x y
  unfold ptrace
  simp only [Matrix.sum_apply, emb_conjTranspose, emb_mul_mul_apply]
  -- Σ_m Σ_i Σ_k Σ_l K_i[m,k] ρ[(k,x),(l,y)] K_i†[l,m]  =  Σ_k Σ_l (Σ_i K_i†K_i)[l,k] ρ[(k,x),(l,y)]
  have hkey : ∀ k l : a, (∑ m : a, ∑ i ∈ s, K i m k * (K i)ᴴ l m) = if l = k then 1 else 0 := by
    intro k l
    have := congrFun (congrFun hK l) k
    rw [Matrix.sum_apply, Matrix.one_apply] at this
    rw [← this, Finset.sum_comm]
    apply Finset.sum_congr rfl
    intro i _
    rw [Matrix.mul_apply]
    apply Finset.sum_congr rfl
    intro m _
    ring
  calc (∑ m : a, ∑ i ∈ s, ∑ k : a, ∑ l : a, K i m k * ρ (k, x) (l, y) * (K i)ᴴ l m)
      = ∑ m : a, ∑ k : a, ∑ i ∈ s, ∑ l : a, K i m k * ρ (k, x) (l, y) * (K i)ᴴ l m :=
        Finset.sum_congr rfl (fun m _ => Finset.sum_comm)
    _ = ∑ k : a, ∑ m : a, ∑ i ∈ s, ∑ l : a, K i m k * ρ (k, x) (l, y) * (K i)ᴴ l m := Finset.sum_comm
    _ = ∑ k : a, ∑ m : a, ∑ l : a, ∑ i ∈ s, K i m k * ρ (k, x) (l, y) * (K i)ᴴ l m :=
        Finset.sum_congr rfl (fun k _ => Finset.sum_congr rfl (fun m _ => Finset.sum_comm))
    _ = ∑ k : a, ∑ l : a, ∑ m : a, ∑ i ∈ s, K i m k * ρ (k, x) (l, y) * (K i)ᴴ l m :=
        Finset.sum_congr rfl (fun k _ => Finset.sum_comm)
    _ = ∑ k : a, ∑ l : a, (∑ m : a, ∑ i ∈ s, K i m k * (K i)ᴴ l m) * ρ (k, x) (l, y) := by
        apply Finset.sum_congr rfl; intro k _
        apply Finset.sum_congr rfl; intro l _
        simp only [Finset.sum_mul]
        apply Finset.sum_congr rfl; intro m _
        apply Finset.sum_congr rfl; intro i _
        ring
    _ = ∑ k : a, ∑ l : a, (if l = k then 1 else 0) * ρ (k, x) (l, y) := by simp only [hkey]
    _ = ∑ k : a, ρ (k, x) (k, y) := by
        apply Finset.sum_congr rfl; intro k _
        rw [Finset.sum_eq_single k]
        · simp
        · intro l _ hl; simp [hl]
        · simp

/-- … in particular a unitary operation -/
theorem ptrace_unitary (U : Matrix a a ℂ) (hU : Uᴴ * U = 1) (ρ : Matrix (a × b) (a × b) ℂ) :
    ptrace (emb U * ρ * (emb U)ᴴ) = ptrace ρ := by
  have := ptrace_kraus (b := b) ({()} : Finset Unit) (fun _ => U) (by simpa using hU) ρ
  simpa using this

end PW.Channels
