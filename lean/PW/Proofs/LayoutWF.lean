import Mathlib.Data.List.Perm.Basic
import Mathlib.Data.List.Perm.Lattice
import PW.Proofs.LayoutLemmas
/-! The partition invariant is preserved by `combine`. -/
namespace PW.Layout

theorem allMembers_perm {l l' : Layout} (h : l.Perm l') : (allMembers l).Perm (allMembers l') := by
  unfold allMembers
  exact List.Perm.flatten (h.map _)

theorem allMembers_append (l l' : Layout) : allMembers (l ++ l') = allMembers l ++ allMembers l' := by
  simp [allMembers]

/-- the collected blocks are pairwise different records -/
theorem collected_nodup (l : Layout) (c : Nat) (T : List Nat) : (collected l c T).Nodup := by
  unfold collected
  apply foldl_inv (fun acc : List Block => acc.Nodup)
  · apply foldl_inv (fun acc : List Block => acc.Nodup)
    · exact List.nodup_nil
    · intro acc t _ hacc
      cases hf : l.find? (fun b => b.kind == .ps c && t ∈ b.members) with
      | none => simpa [hf] using hacc
      | some b0 =>
        simp only [hf]
        split
        · exact hacc
        · rename_i hn
          exact List.Nodup.append hacc (List.nodup_singleton _) (by
            intro x hx hx'
            have : x = b0 := by simpa using hx'
            subst this; exact hn hx)
  · intro acc t _ hacc
    split
    · exact hacc
    · rename_i hn
      cases hf : l.find? (fun b => t ∈ b.members) with
      | none => simpa [hf] using hacc
      | some b0 =>
        simp only [hf]
        apply List.Nodup.append hacc (List.nodup_singleton _)
        intro x hx hx'
        have hxb : x = b0 := by simpa using hx'
        subst hxb
        apply hn
        have hp := List.find?_some hf
        simp only [decide_eq_true_eq] at hp
        simp only [List.contains_eq_mem, List.mem_flatten, List.mem_map, decide_eq_true_eq]
        exact ⟨x.members, ⟨x, hx, rfl⟩, hp⟩

/-- in a well-formed layout two different positions hold different blocks -/
theorem WF.blocks_nodup {l : Layout} (h : WF l) : l.Nodup := by
  induction l with
  | nil => exact List.nodup_nil
  | cons b l ih =>
    have h1 : (b.members ++ allMembers l).Nodup := by simpa [allMembers] using h.1
    have hwf : WF l := ⟨(List.nodup_append.mp h1).2.1, fun x hx => h.2 x (List.mem_cons_of_mem _ hx)⟩
    refine List.nodup_cons.mpr ⟨?_, ih hwf⟩
    intro hb
    have hne := h.2 b List.mem_cons_self
    obtain ⟨x, hx⟩ := List.exists_mem_of_ne_nil _ hne
    have hx2 : x ∈ allMembers l := by
      unfold allMembers
      simp only [List.mem_flatten, List.mem_map]
      exact ⟨b.members, ⟨b, hb, rfl⟩, hx⟩
    exact (List.nodup_append.mp h1).2.2 x hx x hx2 rfl

theorem filter_split_perm (l : Layout) (col : List Block) :
    l.Perm (l.filter (fun b => b ∉ col) ++ l.filter (fun b => b ∈ col)) := by
  have := List.filter_append_perm (fun b => decide (b ∉ col)) l
  have h2 : l.filter (fun b => !decide (b ∉ col)) = l.filter (fun b => decide (b ∈ col)) := by
    apply List.filter_congr; intro x _; simp
  rw [h2] at this
  exact this.symm

/-- **The partition invariant is preserved by a combine**: afterwards every live subsystem is
still stored in exactly one block, no block is empty, and no subsystem was lost or invented. -/
theorem combine_members_perm (l : Layout) (c : Nat) (T : List Nat) (h : WF l) :
    (allMembers (combine l c T)).Perm (allMembers l) := by
  unfold combine
  split
  · exact List.Perm.refl _
  · dsimp only
    split
    · exact List.Perm.refl _
    · set col := collected l c T with hcol
      have hsub : ∀ b ∈ col, b ∈ l := fun b hb => (collected_sound l c T b hb).1
      have hcn := collected_nodup l c T
      have hfc : (l.filter (fun b => b ∈ col)).Perm col := by
        apply (List.perm_ext_iff_of_nodup (h.blocks_nodup.filter _) hcn).mpr
        intro x
        simp only [List.mem_filter, decide_eq_true_eq]
        exact ⟨fun hx => hx.2, fun hx => ⟨hsub x hx, hx⟩⟩
      rw [allMembers_append]
      have h1 : allMembers [({ kind := Kind.ps c, members := (col.map (·.members)).flatten } : Block)]
          = allMembers col := by simp [allMembers]
      rw [h1]
      have h2 := allMembers_perm (filter_split_perm l col)
      rw [allMembers_append] at h2
      exact ((List.Perm.append_left _ (allMembers_perm hfc)).symm.trans h2.symm)

theorem WF_combine (l : Layout) (c : Nat) (T : List Nat) (h : WF l) : WF (combine l c T) := by
  refine ⟨(combine_members_perm l c T h).nodup_iff.mpr h.1, ?_⟩
  intro b hb
  rcases combine_new_block l c T b hb with hbl | ⟨_, _⟩
  · exact h.2 b hbl
  · -- the new block: it is non-empty because a collected block is non-empty
    unfold combine at hb
    split at hb
    · exact h.2 b hb
    · dsimp only at hb
      split at hb
      · exact h.2 b hb
      · rename_i hne
        rcases List.mem_append.mp hb with h1 | h1
        · exact h.2 b (List.mem_filter.mp h1).1
        · have hbe : b = ⟨.ps c, ((collected l c T).map (·.members)).flatten⟩ := by simpa using h1
          subst hbe
          have hcne : collected l c T ≠ [] := by simpa using hne
          obtain ⟨b0, hb0⟩ := List.exists_mem_of_ne_nil _ hcne
          have hb0l := (collected_sound l c T b0 hb0).1
          obtain ⟨x, hx⟩ := List.exists_mem_of_ne_nil _ (h.2 b0 hb0l)
          intro hnil
          have : x ∈ ((collected l c T).map (·.members)).flatten := by
            simp only [List.mem_flatten, List.mem_map]
            exact ⟨b0.members, ⟨b0, hb0, rfl⟩, hx⟩
          simp only at hnil
          rw [hnil] at this
          exact absurd this List.not_mem_nil

theorem WF_route (l : Layout) (c : Nat) (T : List Nat) (h : WF l) : WF (route l c T) := by
  unfold route
  split
  · split
    · exact WF_combine l c _ h
    · exact h
  · exact WF_combine l c T h

end PW.Layout
