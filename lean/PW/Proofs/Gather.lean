import PW.Proofs.RoutingWF
/-! A combine brings all addressed subsystems together: they end up in one product space. -/
namespace PW.Layout

def memList (acc : List Block) : List Nat := (acc.map (·.members)).flatten

theorem memList_append (a b : List Block) : memList (a ++ b) = memList a ++ memList b := by
  simp [memList]

/-- second phase of `collected`: one step -/
def gatherStep (l : Layout) (acc : List Block) (t : Nat) : List Block :=
  if (memList acc).contains t then acc else
    match l.find? (fun b => t ∈ b.members) with
    | some b => acc ++ [b]
    | none => acc

theorem gatherStep_mono (l : Layout) (acc : List Block) (t x : Nat) (hx : x ∈ memList acc) :
    x ∈ memList (gatherStep l acc t) := by
  unfold gatherStep
  split
  · exact hx
  · split
    · rw [memList_append]; exact List.mem_append_left _ hx
    · exact hx

theorem gatherStep_covers (l : Layout) (acc : List Block) (t : Nat) (ht : t ∈ allMembers l) :
    t ∈ memList (gatherStep l acc t) := by
  unfold gatherStep
  split
  · rename_i h; simpa using h
  · have : ∃ b ∈ l, t ∈ b.members := by
      unfold allMembers at ht
      simp only [List.mem_flatten, List.mem_map] at ht
      obtain ⟨ms, ⟨b, hb, rfl⟩, h⟩ := ht
      exact ⟨b, hb, h⟩
    obtain ⟨b, hb, htb⟩ := this
    cases hf : l.find? (fun b => t ∈ b.members) with
    | none =>
      have := List.find?_eq_none.mp hf b hb
      simp [htb] at this
    | some b0 =>
      have hp := List.find?_some hf
      simp only [decide_eq_true_eq] at hp
      rw [memList_append]
      apply List.mem_append_right
      simp [memList, hp]

theorem foldl_gather_mono (l : Layout) (T : List Nat) (acc : List Block) (x : Nat) (hx : x ∈ memList acc) :
    x ∈ memList (T.foldl (gatherStep l) acc) := by
  induction T generalizing acc with
  | nil => exact hx
  | cons t ts ih => exact ih _ (gatherStep_mono l acc t x hx)

theorem foldl_gather_covers (l : Layout) (T : List Nat) (acc : List Block) (t : Nat) (ht : t ∈ T)
    (hl : t ∈ allMembers l) : t ∈ memList (T.foldl (gatherStep l) acc) := by
  induction T generalizing acc with
  | nil => simp at ht
  | cons a ts ih =>
    simp only [List.foldl_cons]
    rcases List.mem_cons.mp ht with rfl | h
    · exact foldl_gather_mono l ts _ _ (gatherStep_covers l acc _ hl)
    · exact ih _ h

theorem collected_eq_gather (l : Layout) (c : Nat) (T : List Nat) :
    ∃ hit : List Block, collected l c T = T.foldl (gatherStep l) hit := by
  unfold collected
  exact ⟨_, rfl⟩

/-- every addressed live subsystem is in one of the collected blocks -/
theorem collected_covers (l : Layout) (c : Nat) (T : List Nat) (t : Nat) (ht : t ∈ T) (hl : t ∈ allMembers l) :
    t ∈ memList (collected l c T) := by
  obtain ⟨hit, h⟩ := collected_eq_gather l c T
  rw [h]
  exact foldl_gather_covers l T hit t ht hl

/-- **After a combine all addressed subsystems share one product space.** -/
theorem combine_gathers (l : Layout) (c : Nat) (T : List Nat) (hT : T ≠ []) (hall : ∀ t ∈ T, t ∈ allMembers l) :
    ∃ b ∈ combine l c T, b.kind = .ps c ∧ ∀ t ∈ T, t ∈ b.members := by
  unfold combine
  split
  · rename_i h
    rw [List.any_eq_true] at h
    obtain ⟨b, hb, hcond⟩ := h
    simp only [Bool.and_eq_true, beq_iff_eq, List.all_eq_true, decide_eq_true_eq] at hcond
    exact ⟨b, hb, hcond.1, hcond.2⟩
  · dsimp only
    split
    · rename_i hemp
      exfalso
      obtain ⟨t, ht⟩ := List.exists_mem_of_ne_nil T hT
      have := collected_covers l c T t ht (hall t ht)
      have he : collected l c T = [] := by simpa using hemp
      rw [he] at this
      simp [memList] at this
    · refine ⟨⟨.ps c, ((collected l c T).map (·.members)).flatten⟩, List.mem_append_right _ (by simp), rfl, ?_⟩
      intro t ht
      exact collected_covers l c T t ht (hall t ht)

end PW.Layout
