import Mathlib.Analysis.Normed.Algebra.MatrixExponential
import Mathlib.Analysis.SpecialFunctions.Exponential
import Mathlib.Analysis.SpecialFunctions.Trigonometric.Basic
import Mathlib.LinearAlgebra.Matrix.NonsingularInverse
import Mathlib.Analysis.Matrix.Normed
import Mathlib.Topology.Instances.Matrix
import Mathlib.LinearAlgebra.Matrix.Notation
import Mathlib.LinearAlgebra.Matrix.Determinant.Basic
import Mathlib.Tactic.LinearCombination
import Mathlib.Tactic.FinCases
/-!
# The single-photon sector of a beam splitter, and the Mach–Zehnder probabilities

On the single-photon sector `{|1,0⟩, |0,1⟩}` the generator `a⊗b† + a†⊗b` is the exchange matrix `σx`;
`exp(iη σx) = [[cos η, i sin η], [i sin η, cos η]]` (proved by diagonalising `σx`).  A Mach–Zehnder
arrangement — splitter at `π/4`, phase `φ` on the first arm, splitter at `π/4` — then sends a photon
entering the first port to the two outputs with probabilities `sin²(φ/2)` and `cos²(φ/2)`.
-/
open Matrix NormedSpace

namespace PW.MZI

/-- the exchange matrix: the generator on the single-photon sector -/
def sigmaX : Matrix (Fin 2) (Fin 2) ℂ := !![0, 1; 1, 0]

/-- the SU(2) mode transformation of the splitter at mixing angle `η` -/
noncomputable def B (η : ℝ) : Matrix (Fin 2) (Fin 2) ℂ :=
  !![(Real.cos η : ℂ), Complex.I * (Real.sin η : ℂ); Complex.I * (Real.sin η : ℂ), (Real.cos η : ℂ)]

/-- the phase shifter on the first arm -/
noncomputable def P (φ : ℝ) : Matrix (Fin 2) (Fin 2) ℂ := !![Complex.exp (Complex.I * φ), 0; 0, 1]

def V : Matrix (Fin 2) (Fin 2) ℂ := !![1, 1; 1, -1]

theorem V_mul_half : V * ((1 / 2 : ℂ) • V) = 1 := by
  ext i j
  fin_cases i <;> fin_cases j <;> simp [V, Matrix.mul_apply, Fin.sum_univ_two] <;> ring

theorem V_inv : V⁻¹ = (1 / 2 : ℂ) • V := Matrix.inv_eq_right_inv V_mul_half

theorem V_isUnit : IsUnit V := by
  rw [Matrix.isUnit_iff_isUnit_det]
  simp [V, Matrix.det_fin_two]
  norm_num

theorem gen_diag (η : ℝ) :
    ((Complex.I * η : ℂ) • sigmaX) = V * Matrix.diagonal ![Complex.I * η, -(Complex.I * η)] * V⁻¹ := by
  rw [V_inv]
  ext i j
  fin_cases i <;> fin_cases j <;>
    simp only [Matrix.mul_apply, Fin.sum_univ_two, Matrix.diagonal_apply, Matrix.smul_apply] <;>
    simp [V, sigmaX] <;> ring

/-- **the splitter on the single-photon sector**: `exp(iη σx)` is the SU(2) rotation `B η` -/
theorem exp_sigmaX (η : ℝ) : exp ((Complex.I * η : ℂ) • sigmaX) = B η := by
  rw [gen_diag, Matrix.exp_conj _ _ V_isUnit, Matrix.exp_diagonal, V_inv]
  have hc : (Real.cos η : ℂ) = (Complex.exp (Complex.I * η) + Complex.exp (-(Complex.I * η))) / 2 := by
    rw [Complex.ofReal_cos, Complex.cos]; ring_nf
  have hs : Complex.I * (Real.sin η : ℂ) = (Complex.exp (Complex.I * η) - Complex.exp (-(Complex.I * η))) / 2 := by
    rw [Complex.ofReal_sin, Complex.sin]
    have : Complex.I * ((Complex.exp (-(η : ℂ) * Complex.I) - Complex.exp ((η : ℂ) * Complex.I)) * Complex.I / 2)
        = (Complex.exp ((η : ℂ) * Complex.I) - Complex.exp (-(η : ℂ) * Complex.I)) / 2 := by
      have hI : Complex.I * Complex.I = -1 := Complex.I_mul_I
      linear_combination ((Complex.exp (-(η : ℂ) * Complex.I) - Complex.exp ((η : ℂ) * Complex.I)) / 2) * hI
    rw [this]; ring_nf
  ext i j
  fin_cases i <;> fin_cases j <;>
    simp only [Matrix.mul_apply, Fin.sum_univ_two, Matrix.diagonal_apply, Matrix.smul_apply, Pi.coe_exp, ← Complex.exp_eq_exp_ℂ] <;>
    simp [V, B, hc, hs, -Complex.ofReal_cos, -Complex.ofReal_sin] <;> ring

/-- the Mach–Zehnder arrangement -/
noncomputable def mzi (φ : ℝ) : Matrix (Fin 2) (Fin 2) ℂ := B (Real.pi / 4) * P φ * B (Real.pi / 4)

theorem sqrt_two_sq : ((Real.sqrt 2 : ℝ) : ℂ) * ((Real.sqrt 2 : ℝ) : ℂ) = 2 := by
  rw [← Complex.ofReal_mul, Real.mul_self_sqrt (by norm_num)]; norm_num

theorem mzi_amp0 (φ : ℝ) : mzi φ 0 0 = (Complex.exp (Complex.I * φ) - 1) / 2 := by
  simp only [mzi, B, P, Matrix.mul_apply, Fin.sum_univ_two]
  simp
  have hI : Complex.I * Complex.I = -1 := Complex.I_mul_I
  linear_combination (Complex.exp (Complex.I * φ) / 4 + Complex.I * Complex.I / 4) * sqrt_two_sq + (1 / 2 : ℂ) * hI

theorem mzi_amp1 (φ : ℝ) : mzi φ 1 0 = Complex.I * (Complex.exp (Complex.I * φ) + 1) / 2 := by
  simp only [mzi, B, P, Matrix.mul_apply, Fin.sum_univ_two]
  simp
  linear_combination (Complex.I * Complex.exp (Complex.I * φ) / 4 + Complex.I / 4) * sqrt_two_sq

/-- `|e^{iφ} − 1|² / 4 = sin²(φ/2)` -/
theorem normSq_amp0 (φ : ℝ) : Complex.normSq ((Complex.exp (Complex.I * φ) - 1) / 2) = Real.sin (φ / 2) ^ 2 := by
  have he : Complex.exp (Complex.I * φ) = ⟨Real.cos φ, Real.sin φ⟩ := by
    rw [mul_comm, Complex.exp_mul_I]
    apply Complex.ext <;> simp [← Complex.ofReal_cos, ← Complex.ofReal_sin]
  rw [he, Complex.normSq_div, Complex.normSq_apply]
  simp
  have h1 := Real.sin_sq_add_cos_sq φ
  have h2 : Real.cos φ = 1 - 2 * Real.sin (φ / 2) ^ 2 := by
    have := Real.cos_two_mul (φ / 2)
    rw [show 2 * (φ / 2) = φ by ring] at this
    rw [this, Real.cos_sq']; ring
  nlinarith [h1, h2]

/-- `|i(e^{iφ} + 1)|² / 4 = cos²(φ/2)` -/
theorem normSq_amp1 (φ : ℝ) :
    Complex.normSq (Complex.I * (Complex.exp (Complex.I * φ) + 1) / 2) = Real.cos (φ / 2) ^ 2 := by
  have he : Complex.exp (Complex.I * φ) = ⟨Real.cos φ, Real.sin φ⟩ := by
    rw [mul_comm, Complex.exp_mul_I]
    apply Complex.ext <;> simp [← Complex.ofReal_cos, ← Complex.ofReal_sin]
  rw [he, Complex.normSq_div, Complex.normSq_mul, Complex.normSq_I, Complex.normSq_apply]
  simp
  have h1 := Real.sin_sq_add_cos_sq φ
  have h2 : Real.cos φ = 2 * Real.cos (φ / 2) ^ 2 - 1 := by
    have := Real.cos_two_mul (φ / 2)
    rw [show 2 * (φ / 2) = φ by ring] at this
    exact this
  nlinarith [h1, h2]

/-- **Mach–Zehnder**: a photon entering the first port leaves through the first / second port with
probability `sin²(φ/2)` / `cos²(φ/2)` -/
theorem mzi_probabilities (φ : ℝ) :
    Complex.normSq (mzi φ 0 0) = Real.sin (φ / 2) ^ 2 ∧ Complex.normSq (mzi φ 1 0) = Real.cos (φ / 2) ^ 2 := by
  rw [mzi_amp0, mzi_amp1]
  exact ⟨normSq_amp0 φ, normSq_amp1 φ⟩

theorem mzi_amp01 (φ : ℝ) : mzi φ 0 1 = Complex.I * (Complex.exp (Complex.I * φ) + 1) / 2 := by
  simp only [mzi, B, P, Matrix.mul_apply, Fin.sum_univ_two]
  simp
  linear_combination (Complex.I * Complex.exp (Complex.I * φ) / 4 + Complex.I / 4) * sqrt_two_sq

theorem mzi_amp11 (φ : ℝ) : mzi φ 1 1 = -(Complex.exp (Complex.I * φ) - 1) / 2 := by
  simp only [mzi, B, P, Matrix.mul_apply, Fin.sum_univ_two]
  simp
  have hI : Complex.I * Complex.I = -1 := Complex.I_mul_I
  linear_combination (Complex.I * Complex.I * Complex.exp (Complex.I * φ) / 4 + 1 / 4) * sqrt_two_sq
    + (Complex.exp (Complex.I * φ) / 2) * hI

/-- a photon entering the *second* port: the probabilities are exchanged -/
theorem mzi_probabilities_second_port (φ : ℝ) :
    Complex.normSq (mzi φ 0 1) = Real.cos (φ / 2) ^ 2 ∧ Complex.normSq (mzi φ 1 1) = Real.sin (φ / 2) ^ 2 := by
  rw [mzi_amp01, mzi_amp11]
  refine ⟨normSq_amp1 φ, ?_⟩
  rw [neg_div, Complex.normSq_neg]
  exact normSq_amp0 φ

section intertwine
variable {m k : Type} [Fintype m] [DecidableEq m] [Fintype k] [DecidableEq k]

/-- intertwining passes to the exponential: `A E = E B ⇒ exp(A) E = E exp(B)` -/
theorem exp_intertwine (A : Matrix m m ℂ) (B : Matrix k k ℂ) (E : Matrix m k ℂ) (h : A * E = E * B) :
    exp A * E = E * exp B := by
  have hpow : ∀ n : ℕ, A ^ n * E = E * B ^ n := by
    intro n
    induction n with
    | zero => simp
    | succ n ih => rw [pow_succ, Matrix.mul_assoc, h, ← Matrix.mul_assoc, ih, Matrix.mul_assoc, ← pow_succ]
  have hA : HasSum (fun n => ((n.factorial : ℂ)⁻¹) • A ^ n) (exp A) := by
    let _ : NormedRing (Matrix m m ℂ) := Matrix.linftyOpNormedRing
    let _ : NormedAlgebra ℂ (Matrix m m ℂ) := Matrix.linftyOpNormedAlgebra
    exact NormedSpace.exp_series_hasSum_exp' (𝕂 := ℂ) A
  have hB : HasSum (fun n => ((n.factorial : ℂ)⁻¹) • B ^ n) (exp B) := by
    let _ : NormedRing (Matrix k k ℂ) := Matrix.linftyOpNormedRing
    let _ : NormedAlgebra ℂ (Matrix k k ℂ) := Matrix.linftyOpNormedAlgebra
    exact NormedSpace.exp_series_hasSum_exp' (𝕂 := ℂ) B
  let fR : Matrix m m ℂ →+ Matrix m k ℂ :=
    { toFun := fun X => X * E, map_zero' := Matrix.zero_mul E, map_add' := fun X Y => Matrix.add_mul X Y E }
  let fL : Matrix k k ℂ →+ Matrix m k ℂ :=
    { toFun := fun X => E * X, map_zero' := Matrix.mul_zero E, map_add' := fun X Y => Matrix.mul_add E X Y }
  have h1 : HasSum (fun n => (((n.factorial : ℂ)⁻¹) • A ^ n) * E) (exp A * E) :=
    hA.map fR (continuous_id.matrix_mul continuous_const)
  have h2 : HasSum (fun n => E * (((n.factorial : ℂ)⁻¹) • B ^ n)) (E * exp B) :=
    hB.map fL (continuous_const.matrix_mul continuous_id)
  have heq : (fun n => (((n.factorial : ℂ)⁻¹) • A ^ n) * E) = fun n => E * (((n.factorial : ℂ)⁻¹) • B ^ n) := by
    funext n
    rw [Matrix.smul_mul, Matrix.mul_smul, hpow]
  rw [heq] at h1
  exact h1.unique h2

end intertwine

end PW.MZI
