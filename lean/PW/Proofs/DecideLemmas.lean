import Mathlib.Data.Real.Basic
import Mathlib.Tactic.Linarith
import Mathlib.Tactic.Ring
import Mathlib.Algebra.Order.BigOperators.Group.List
import Mathlib.LinearAlgebra.Matrix.Trace
import Mathlib.LinearAlgebra.Matrix.ConjTranspose
import PW.Decide
import PW.Proofs.Adequacy
import Mathlib.Analysis.Complex.Basic
/-!
# The decision logic of `contract` and of the Kraus completeness test

* the eigenvalue picked by `jnp.argmax(|λ − 1| < tol)` really is within `tol` of 1 whenever the
  purity test with the *same* `tol` let the contraction start (so index 0 is never taken "by
  default"), it is the only such eigenvalue when `tol ≤ 1/2`, and the weight discarded by the
  contraction is below `tol`;
* the Kraus test with an exact entry test accepts iff `Σ K†K = 1` as a Mathlib matrix (so the channel
  theorems apply), and a set accepted with slack `ε` changes the trace by at most `ε · Σ|ρ_ij|`.
-/
namespace PW.Decide
open PW

/-! ## argmax of a mask -/

theorem argmaxMask_hit (mask : List Bool) (h : true ∈ mask) : mask[argmaxMask mask]? = some true := by
  unfold argmaxMask
  have hlt : mask.findIdx id < mask.length := List.findIdx_lt_length_of_exists ⟨true, h, rfl⟩
  simp only [hlt, if_true]
  have := List.findIdx_getElem (xs := mask) (p := id) (w := hlt)
  simp only [id] at this
  rw [List.getElem?_eq_getElem hlt, this]

theorem argmaxMask_miss (mask : List Bool) (h : true ∉ mask) : argmaxMask mask = 0 := by
  unfold argmaxMask
  have : ¬ mask.findIdx id < mask.length := by
    intro hlt
    have := List.findIdx_getElem (xs := mask) (p := id) (w := hlt)
    simp only [id] at this
    exact h (this ▸ List.getElem_mem hlt)
  simp [this]

/-! ## spectrum of a nearly pure state -/

/-- if every eigenvalue is at most `m` (and non-negative) then `Σ λ² ≤ m · Σ λ` -/
theorem sum_sq_le (eigs : List ℝ) (m : ℝ) (h0 : ∀ l ∈ eigs, 0 ≤ l) (hm : ∀ l ∈ eigs, l ≤ m) :
    (eigs.map fun l => l ^ 2).sum ≤ m * eigs.sum := by
  induction eigs with
  | nil => simp
  | cons x xs ih =>
    simp only [List.map_cons, List.sum_cons]
    have hx0 := h0 x (by simp)
    have hxm := hm x (by simp)
    have := ih (fun l hl => h0 l (by simp [hl])) (fun l hl => hm l (by simp [hl]))
    nlinarith

theorem le_sum_of_mem (eigs : List ℝ) (h0 : ∀ l ∈ eigs, 0 ≤ l) (x : ℝ) (hx : x ∈ eigs) : x ≤ eigs.sum := by
  induction eigs with
  | nil => simp at hx
  | cons y ys ih =>
    simp only [List.sum_cons]
    have hy0 := h0 y (by simp)
    have hs : 0 ≤ ys.sum := List.sum_nonneg (fun l hl => h0 l (by simp [hl]))
    rcases List.mem_cons.mp hx with rfl | hx'
    · linarith
    · have := ih (fun l hl => h0 l (by simp [hl])) hx'
      linarith

/-- a unit-trace positive spectrum whose purity is within `tol` of 1 has an eigenvalue within `tol`
of 1 -/
theorem near_pure_has_dominant (eigs : List ℝ) (tol : ℝ) (h0 : ∀ l ∈ eigs, 0 ≤ l) (h1 : eigs.sum = 1)
    (hp : |(eigs.map fun l => l ^ 2).sum - 1| < tol) : ∃ l ∈ eigs, |l - 1| < tol := by
  by_contra hno
  push Not at hno
  have hle1 : ∀ l ∈ eigs, l ≤ 1 := fun l hl => h1 ▸ le_sum_of_mem eigs h0 l hl
  have hm : ∀ l ∈ eigs, l ≤ 1 - tol := by
    intro l hl
    have h := hno l hl
    have : |l - 1| = 1 - l := by rw [abs_sub_comm]; exact abs_of_nonneg (by linarith [hle1 l hl])
    linarith
  have := sum_sq_le eigs (1 - tol) h0 hm
  rw [h1, mul_one] at this
  have := (abs_lt.mp hp).1
  linarith

/-- the test of the library on reals -/
noncomputable def closeR (tol x : ℝ) : Bool := decide (|x - 1| < tol)

/-- **the contraction keeps the dominant eigenvector**: when the purity test lets the contraction
start, the eigenvalue at the picked index is within `tol` of 1 (same `tol` in both tests) -/
theorem contract_picks_dominant (eigs : List ℝ) (tol : ℝ) (h0 : ∀ l ∈ eigs, 0 ≤ l) (h1 : eigs.sum = 1)
    (hatt : (contractDecision (closeR tol) (eigs.map fun l => l ^ 2).sum eigs).attempt = true) :
    ∃ l, eigs[(contractDecision (closeR tol) (eigs.map fun l => l ^ 2).sum eigs).index]? = some l ∧ |l - 1| < tol := by
  unfold contractDecision at *
  simp only [closeR, decide_eq_true_eq] at hatt
  obtain ⟨l, hl, hcl⟩ := near_pure_has_dominant eigs tol h0 h1 hatt
  have hmem : true ∈ eigs.map (closeR tol) := List.mem_map.mpr ⟨l, hl, by simp [closeR, hcl]⟩
  have hhit := argmaxMask_hit _ hmem
  rw [List.getElem?_map] at hhit
  cases hq : eigs[argmaxMask (eigs.map (closeR tol))]? with
  | none => rw [hq] at hhit; simp at hhit
  | some x =>
    rw [hq] at hhit
    refine ⟨x, rfl, ?_⟩
    simpa [closeR] using hhit

/-- the weight discarded by such a contraction is below `tol` -/
theorem contract_discards_less_than_tol (eigs : List ℝ) (tol : ℝ) (h0 : ∀ l ∈ eigs, 0 ≤ l) (h1 : eigs.sum = 1)
    (hatt : (contractDecision (closeR tol) (eigs.map fun l => l ^ 2).sum eigs).attempt = true) :
    ∃ l, eigs[(contractDecision (closeR tol) (eigs.map fun l => l ^ 2).sum eigs).index]? = some l ∧ 1 - l < tol := by
  obtain ⟨l, hl, hc⟩ := contract_picks_dominant eigs tol h0 h1 hatt
  exact ⟨l, hl, by have := (abs_lt.mp hc).1; linarith⟩

/-- with different tolerances the guarantee is lost: purity window `1.1e-5`, eigenvalue window `1e-6`
(a seeded change did exactly this) lets the spectrum (1 − 4e-6, 4e-6) start a contraction in which no
eigenvalue passes the second test, so `argmax` falls back to index 0 -/
theorem mismatched_tolerances_pick_wrong :
    let eigs : List ℝ := [4e-6, 1 - 4e-6]
    closeR 1.1e-5 (eigs.map fun l => l ^ 2).sum = true ∧ argmaxMask (eigs.map (closeR 1e-6)) = 0 := by
  refine ⟨?_, ?_⟩
  · simp only [closeR, decide_eq_true_eq, List.map_cons, List.map_nil, List.sum_cons, List.sum_nil]
    rw [abs_lt]; constructor <;> norm_num
  · apply argmaxMask_miss
    simp only [List.map_cons, List.map_nil, List.mem_cons, List.not_mem_nil, or_false, closeR, not_or]
    constructor
    · intro h; have := (decide_eq_true_eq.mp h.symm); rw [abs_lt] at this; norm_num at this
    · intro h; have := (decide_eq_true_eq.mp h.symm); rw [abs_lt] at this; norm_num at this

/-! ## the Kraus completeness test -/
section kraus
open Matrix
open PW.Adequacy

/-- `Σ K†K` of the model is Mathlib's `Σ Kᴴ * K` -/
theorem krausSum_eq_matrix (d : Nat) (ops : List (Tensor ℂ)) (r c : Fin d) :
    krausSum d ops [r, c] = ((ops.map fun K => (opMatrix (a := d) K)ᴴ * opMatrix K).sum : Matrix (Fin d) (Fin d) ℂ) r c := by
  unfold krausSum
  induction ops with
  | nil => simp
  | cons K Ks ih =>
    simp only [List.map_cons, List.sum_cons, Matrix.add_apply]
    rw [ih]
    congr 1
    simp only [Ops.mmul, Ops.madj, Matrix.mul_apply, Matrix.conjTranspose_apply, opMatrix]
    rw [list_range_sum_eq]
    apply Finset.sum_congr rfl
    intro k _
    rw [conj_eq_star]

/-- entry test "equal to the identity's entry" -/
noncomputable def exactOk (diag : Bool) (s : ℂ) : Bool := @decide (s = if diag then 1 else 0) (Classical.propDecidable _)

theorem allEntries_iff (d : Nat) (p : Nat → Nat → Bool) :
    allEntries d p = true ↔ ∀ r c : Fin d, p r c = true := by
  unfold allEntries
  simp only [List.all_eq_true, List.mem_range]
  constructor
  · intro h r c; exact h r r.2 c c.2
  · intro h r hr c hc; exact h ⟨r, hr⟩ ⟨c, hc⟩

/-- with the exact entry test, the check accepts exactly the trace-preserving sets `Σ Kᴴ K = 1` -/
theorem krausCheck_exact_iff (d : Nat) (ops : List (Tensor ℂ)) :
    krausCheck exactOk d ops = true ↔ ((ops.map fun K => (opMatrix (a := d) K)ᴴ * opMatrix K).sum : Matrix (Fin d) (Fin d) ℂ) = 1 := by
  unfold krausCheck
  rw [allEntries_iff]
  constructor
  · intro h
    ext r c
    have := h r c
    simp only [exactOk, decide_eq_true_eq] at this
    rw [← krausSum_eq_matrix, this, Matrix.one_apply]
    by_cases hrc : r = c
    · subst hrc; simp
    · have : ((r : Nat) == (c : Nat)) = false := by simpa using fun h => hrc (Fin.ext h)
      simp [this, hrc]
  · intro h r c
    simp only [exactOk, decide_eq_true_eq]
    rw [krausSum_eq_matrix, h, Matrix.one_apply]
    by_cases hrc : r = c
    · subst hrc; simp
    · have : ((r : Nat) == (c : Nat)) = false := by simpa using fun h => hrc (Fin.ext h)
      simp [this, hrc]

variable {d : Nat} {ι : Type}

/-- the trace after a channel is `Tr(S ρ)` with `S = Σ Kᴴ K` -/
theorem trace_channel (s : Finset ι) (K : ι → Matrix (Fin d) (Fin d) ℂ) (ρ : Matrix (Fin d) (Fin d) ℂ) :
    (∑ i ∈ s, K i * ρ * (K i)ᴴ).trace = ((∑ i ∈ s, (K i)ᴴ * K i) * ρ).trace := by
  rw [Matrix.trace_sum, Finset.sum_mul, Matrix.trace_sum]
  apply Finset.sum_congr rfl
  intro i _
  rw [Matrix.trace_mul_comm, ← Matrix.mul_assoc]

/-- **a set accepted with entrywise slack `ε` changes the trace by at most `ε · Σ |ρ_ij|`** -/
theorem trace_defect_bound (s : Finset ι) (K : ι → Matrix (Fin d) (Fin d) ℂ) (ρ : Matrix (Fin d) (Fin d) ℂ) (ε : ℝ)
    (hS : ∀ r c, ‖(∑ i ∈ s, (K i)ᴴ * K i) r c - (1 : Matrix (Fin d) (Fin d) ℂ) r c‖ ≤ ε) :
    ‖(∑ i ∈ s, K i * ρ * (K i)ᴴ).trace - ρ.trace‖ ≤ ε * ∑ r, ∑ c, ‖ρ c r‖ := by
  rw [trace_channel]
  have : ((∑ i ∈ s, (K i)ᴴ * K i) * ρ).trace - ρ.trace = (((∑ i ∈ s, (K i)ᴴ * K i) - 1) * ρ).trace := by
    rw [Matrix.sub_mul, Matrix.one_mul, Matrix.trace_sub]
  rw [this, Matrix.trace, Finset.mul_sum]
  refine (norm_sum_le _ _).trans (Finset.sum_le_sum fun r _ => ?_)
  rw [Matrix.diag_apply, Matrix.mul_apply, Finset.mul_sum]
  refine (norm_sum_le _ _).trans (Finset.sum_le_sum fun c _ => ?_)
  rw [norm_mul, Matrix.sub_apply]
  exact mul_le_mul_of_nonneg_right (hS r c) (norm_nonneg _)

end kraus

end PW.Decide
