import PW.Proofs.TraceStages
/-!
# Forgetting a measured subsystem is tracing it out of the collapsed state

`removeAt dims p o (projectOn dims p o ρ)` — drop the coordinate of the measured subsystem, which is
known to be `o` — is the partial trace of the collapsed state over that subsystem: the state the
survivors are left with is their reduced state given the outcome.
-/
namespace PW
namespace Spec
variable {R : Type} [CommRing R]

/-- position `i` of the survivors ↦ its position in the full list -/
def skip (p i : Nat) : Nat := if i < p then i else i + 1

/-- all positions except `p`, in order -/
def survivors (n p : Nat) : List Nat := (List.range (n - 1)).map (skip p)

theorem mem_survivors (n p x : Nat) (hp : p < n) : x ∈ survivors n p ↔ x < n ∧ x ≠ p := by
  unfold survivors skip
  simp only [List.mem_map, List.mem_range]
  constructor
  · rintro ⟨i, hi, rfl⟩
    split <;> omega
  · rintro ⟨hx, hne⟩
    by_cases h : x < p
    · exact ⟨x, by omega, by simp [h]⟩
    · exact ⟨x - 1, by omega, by rw [if_neg (by omega)]; omega⟩

theorem skip_inj (p i j : Nat) (h : skip p i = skip p j) : i = j := by
  unfold skip at h
  split at h <;> split at h <;> omega

theorem idxOf_survivors (n p j : Nat) (hj : j < n - 1) : (survivors n p).idxOf (skip p j) = j := by
  unfold survivors
  rw [idxOf_map_of_injOn _ _ _ (fun x _ h => skip_inj p x j h)]
  have := (List.nodup_range (n := n - 1)).idxOf_getElem j (by simpa using hj)
  simpa using this

theorem scatter_survivors (n p : Nat) (hp : p < n) (r : List Nat) (hr : r.length = n - 1) (e : Env) :
    scatter n (survivors n p) r e = insertAt r p (e p) := by
  apply List.ext_getElem?
  intro x
  unfold scatter insertAt
  by_cases hx : x < n
  · rw [List.getElem?_map, List.getElem?_range hx]
    simp only [Option.map_some]
    by_cases hxp : x = p
    · subst hxp
      have : x ∉ survivors n x := fun h => ((mem_survivors n x x hp).mp h).2 rfl
      rw [if_neg this, List.getElem?_append_right (by simp)]
      have hmin : min x r.length = x := by omega
      simp [hmin]
    · have hmem : x ∈ survivors n p := (mem_survivors n p x hp).mpr ⟨hx, hxp⟩
      rw [if_pos hmem]
      by_cases hlt : x < p
      · have hs : skip p x = x := by simp [skip, hlt]
        have := idxOf_survivors n p x (by omega)
        rw [hs] at this
        rw [this, List.getElem?_append_left (by simp; omega)]
        simp [List.getD_eq_getElem?_getD, hlt, List.getElem?_eq_getElem (show x < r.length by omega)]
      · have hgt : p < x := by omega
        have hs : skip p (x - 1) = x := by unfold skip; rw [if_neg (by omega)]; omega
        have := idxOf_survivors n p (x - 1) (by omega)
        rw [hs] at this
        rw [this, List.getElem?_append_right (by simp; omega)]
        have hmin : min p r.length = p := by omega
        simp only [List.length_take, hmin]
        obtain ⟨d, hd⟩ : ∃ d, x - p = d + 1 := ⟨x - p - 1, by omega⟩
        rw [hd, List.getElem?_cons_succ, List.getElem?_drop]
        have : p + d = x - 1 := by omega
        rw [this]
        simp [List.getD_eq_getElem?_getD, List.getElem?_eq_getElem (show x - 1 < r.length by omega)]
  · have h1 : n ≤ x := by omega
    rw [List.getElem?_eq_none (by simp; omega), List.getElem?_eq_none (by simp; omega)]

theorem insertAt_length (l : List Nat) (p v : Nat) (hp : p ≤ l.length) : (insertAt l p v).length = l.length + 1 := by
  simp [insertAt]; omega

theorem insertAt_getD (l : List Nat) (p v : Nat) (hp : p ≤ l.length) : (insertAt l p v).getD p 0 = v := by
  unfold insertAt
  rw [List.getD_eq_getElem?_getD, List.getElem?_append_right (by simp)]
  have : min p l.length = p := by omega
  simp [this]

/-- **forgetting the measured subsystem is tracing it out of the collapsed state** -/
theorem removeAt_eq_reduceTo (dims : List Nat) (p o : Nat) (hp : p < dims.length) (ho : o < dims.getD p 0)
    (ρ : Tensor R) (r c : List Nat) (hr : r.length = dims.length - 1) (hc : c.length = dims.length - 1) :
    removeAt dims p o (projectOn dims p o ρ) (r ++ c)
      = reduceTo dims (survivors dims.length p) (projectOn dims p o ρ) (r ++ c) := by
  have hTlen : (survivors dims.length p).length = dims.length - 1 := by simp [survivors]
  unfold removeAt reduceTo
  dsimp only
  rw [hTlen, List.take_left' hr, List.drop_left' hr]
  set rest := (List.range dims.length).filter fun x => decide (x ∉ survivors dims.length p) with hrest
  have hndrest : rest.Nodup := List.Nodup.filter _ List.nodup_range
  have hperm : rest.Perm [p] := by
    apply (List.perm_ext_iff_of_nodup hndrest (List.nodup_singleton p)).mpr
    intro x
    simp only [rest, List.mem_filter, List.mem_range, decide_eq_true_eq, List.mem_singleton, mem_survivors _ _ _ hp]
    constructor
    · rintro ⟨hx, hn⟩
      by_contra hne
      exact hn ⟨hx, hne⟩
    · rintro rfl
      exact ⟨hp, fun h => h.2 rfl⟩
  rw [sumLabels_perm _ hperm hndrest]
  have hbody : ∀ e : Env, projectOn dims p o ρ (scatter dims.length (survivors dims.length p) r e ++
        scatter dims.length (survivors dims.length p) c e)
      = if e p = o then ρ (insertAt r p (e p) ++ insertAt c p (e p)) else 0 := by
    intro e
    rw [scatter_survivors _ _ hp r hr, scatter_survivors _ _ hp c hc]
    unfold projectOn
    dsimp only
    have hl : (insertAt r p (e p)).length = dims.length := by rw [insertAt_length _ _ _ (by omega)]; omega
    rw [List.take_left' hl, List.drop_left' hl, insertAt_getD _ _ _ (by omega), insertAt_getD _ _ _ (by omega)]
    simp
  rw [sumLabels_congr _ _ _ _ _ hbody]
  have hd : o < dimOf2 dims p := by unfold dimOf2; rw [if_pos hp]; exact ho
  rw [sumLabels_pin _ [] p o (by simp) hd]
  simp only [sumLabels]
  have hl : (insertAt r p o).length = dims.length := by rw [insertAt_length _ _ _ (by omega)]; omega
  unfold projectOn
  dsimp only
  rw [List.take_left' hl, List.drop_left' hl, insertAt_getD _ _ _ (by omega), insertAt_getD _ _ _ (by omega)]
  simp [upd]

end Spec
end PW
