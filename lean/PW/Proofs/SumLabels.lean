import Mathlib.Algebra.Star.Basic
import Mathlib.Algebra.BigOperators.Ring.List
import PW.Proofs.Core
import PW.Proofs.Basic
/-! Algebra of label sums: concatenation, factoring out, conjugation, shifting labels. -/
namespace PW
variable {R : Type} [CommRing R]

theorem sumLabels_append (dimOf) (l1 l2 : List Nat) (f : Env → R) (e : Env) :
    sumLabels dimOf (l1 ++ l2) f e = sumLabels dimOf l1 (fun e1 => sumLabels dimOf l2 f e1) e := by
  induction l1 generalizing e with
  | nil => rfl
  | cons a l1 ih =>
    simp only [List.cons_append, sumLabels]
    congr 1
    apply List.map_congr_left
    intro i _
    exact ih _

/-- the value of a label sum does not depend on what the base environment says about summed labels
or about labels the body never reads -/
theorem sumLabels_base_irrelevant (dimOf) (ls : List Nat) (f : Env → R) (e e' : Env)
    (hf : ∀ ea eb : Env, (∀ l ∈ ls, ea l = eb l) → (∀ l, l ∉ ls → ea l = e l) →
      (∀ l, l ∉ ls → eb l = e' l) → f ea = f eb) :
    sumLabels dimOf ls f e = sumLabels dimOf ls f e' :=
  sumLabels_rel dimOf ls f f e e' hf

/-- a factor that does not read the summed labels can be pulled out -/
theorem sumLabels_mul_left (dimOf) (ls : List Nat) (f g : Env → R) (e : Env)
    (hf : ∀ ea : Env, (∀ l, l ∉ ls → ea l = e l) → f ea = f e) :
    sumLabels dimOf ls (fun x => f x * g x) e = f e * sumLabels dimOf ls g e := by
  induction ls generalizing e with
  | nil => rfl
  | cons a ls ih =>
    simp only [sumLabels]
    rw [← List.sum_map_mul_left]
    congr 1
    apply List.map_congr_left
    intro i _
    have hfa : f (upd e a i) = f e := hf _ (by
      intro l hl
      have : l ≠ a := fun h => hl (h ▸ List.mem_cons_self)
      simp [upd, this])
    rw [ih (upd e a i), hfa]
    intro ea hea
    rw [hfa]
    apply hf
    intro l hl
    have h1 : l ∉ ls := fun h => hl (List.mem_cons_of_mem _ h)
    have h2 : l ≠ a := fun h => hl (h ▸ List.mem_cons_self)
    rw [hea l h1]; simp [upd, h2]

theorem sumLabels_mul_right (dimOf) (ls : List Nat) (f g : Env → R) (e : Env)
    (hg : ∀ ea : Env, (∀ l, l ∉ ls → ea l = e l) → g ea = g e) :
    sumLabels dimOf ls (fun x => f x * g x) e = sumLabels dimOf ls f e * g e := by
  have := sumLabels_mul_left dimOf ls g f e hg
  rw [mul_comm (sumLabels dimOf ls f e)]
  rw [← this]
  congr 1; funext x; ring

theorem sumLabels_congr (dimOf) (ls : List Nat) (f g : Env → R) (e : Env) (h : ∀ x, f x = g x) :
    sumLabels dimOf ls f e = sumLabels dimOf ls g e := by
  have : f = g := funext h
  rw [this]

section star
variable [StarRing R]

theorem star_list_sum (l : List R) : star l.sum = (l.map star).sum := by
  induction l with
  | nil => simp
  | cons a l ih => simp [star_add, ih]

theorem sumLabels_star (dimOf) (ls : List Nat) (f : Env → R) (e : Env) :
    star (sumLabels dimOf ls f e) = sumLabels dimOf ls (fun x => star (f x)) e := by
  induction ls generalizing e with
  | nil => rfl
  | cons a ls ih =>
    simp only [sumLabels]
    rw [star_list_sum, List.map_map]
    congr 1
    apply List.map_congr_left
    intro i _
    exact ih _
end star

/-- summing over the shifted labels `n + t` of a body that reads them through `p ↦ e (n + p)` is
summing over the labels `t` -/
theorem sumLabels_shift (dimOf : Nat → Nat) (n : Nat) (T : List Nat) (F : Env → R) (e0 : Env)
    (hd : ∀ t ∈ T, dimOf (n + t) = dimOf t) :
    sumLabels dimOf (T.map (n + ·)) (fun e => F (fun p => e (n + p))) e0
      = sumLabels dimOf T F (fun p => e0 (n + p)) := by
  induction T generalizing e0 with
  | nil => rfl
  | cons t ts ih =>
    simp only [List.map_cons, sumLabels]
    rw [hd t List.mem_cons_self]
    congr 1
    apply List.map_congr_left
    intro i _
    rw [ih (upd e0 (n + t) i) (fun x hx => hd x (List.mem_cons_of_mem _ hx))]
    congr 1
    funext p
    simp only [upd]
    by_cases h : p = t
    · subst h; simp
    · have : ¬ n + p = n + t := by omega
      simp [h, this]

end PW
