import PW.Proofs.RoutingWF
import PW.Proofs.MeasureWF
/-! The partition invariant along the remaining routed calls: `Envelope.combine`, channels, partial
traces, measurement with survivors, merging containers. -/
namespace PW.Routing
open PW.Layout

theorem allMembers_filter_split (l : Layout) (q : Block → Bool) :
    (allMembers l).Perm (allMembers (l.filter q) ++ allMembers (l.filter (fun b => !q b))) := by
  rw [← allMembers_append]
  exact allMembers_perm (List.filter_append_perm q l).symm

theorem mem_allMembers_of_block (l : Layout) (b : Block) (hb : b ∈ l) (x : Nat) (hx : x ∈ b.members) : x ∈ allMembers l := by
  unfold allMembers
  exact List.mem_flatten.mpr ⟨b.members, List.mem_map.mpr ⟨b, hb, rfl⟩, hx⟩

theorem WF_envCombine (l : Layout) (f p : Nat) (hne : f ≠ p) (h : WF l) : WF (envCombine l f p) := by
  unfold envCombine
  split
  · rename_i hcond
    simp only [Bool.and_eq_true, List.any_eq_true, beq_iff_eq] at hcond
    obtain ⟨⟨bf, hbf, hkf, hmf⟩, ⟨bp, hbp, hkp, hmp⟩⟩ := hcond
    set q : Block → Bool := fun b => !(b.kind == Kind.own && (b.members == [f] || b.members == [p])) with hq
    have hsplit := allMembers_filter_split l q
    have hnd := hsplit.nodup_iff.mp h.1
    rw [List.nodup_append] at hnd
    obtain ⟨hnd1, _, hdisj⟩ := hnd
    have hbf' : bf ∈ l.filter (fun b => !q b) := by
      rw [List.mem_filter]; refine ⟨hbf, ?_⟩; simp [hq, hkf, hmf]
    have hbp' : bp ∈ l.filter (fun b => !q b) := by
      rw [List.mem_filter]; refine ⟨hbp, ?_⟩; simp [hq, hkp, hmp]
    have hf2 : f ∈ allMembers (l.filter (fun b => !q b)) := mem_allMembers_of_block _ bf hbf' f (by rw [hmf]; simp)
    have hp2 : p ∈ allMembers (l.filter (fun b => !q b)) := mem_allMembers_of_block _ bp hbp' p (by rw [hmp]; simp)
    constructor
    · rw [allMembers_append, List.nodup_append]
      refine ⟨hnd1, ?_, ?_⟩
      · simp [allMembers, hne]
      · intro x hx y hy hxy
        subst hxy
        simp only [allMembers, List.map_cons, List.map_nil, List.flatten_cons, List.flatten_nil, List.append_nil,
          List.mem_cons, List.not_mem_nil, or_false] at hy
        rcases hy with rfl | rfl
        · exact hdisj x hx x hf2 rfl
        · exact hdisj x hx x hp2 rfl
    · intro b hb
      rw [List.mem_append] at hb
      rcases hb with hb | hb
      · exact h.2 b (List.mem_filter.mp hb).1
      · simp only [List.mem_singleton] at hb
        subst hb; simp
  · exact h

theorem WF_envPair (i : Info) (l : Layout) (a b : Nat) (hab : a ≠ b) (h : WF l) :
    WF (envOrder (envCombine l (if i.isFock a then a else b) (if i.isFock a then b else a)) [a, b]) := by
  apply WF_envOrder _ [a, b] (by simp [hab])
  apply WF_envCombine _ _ _ _ h
  split
  · exact hab
  · exact Ne.symm hab

theorem WF_ceKraus (i : Info) (l : Layout) (c : Nat) (T : List Nat) (hT : T.Nodup) (h : WF l) : WF (ceKraus i l c T) := by
  unfold ceKraus
  dsimp only
  split
  · exact WF_reorder _ c T hT (WF_combine l c _ h)
  · split
    · split
      · exact WF_memberFront l _ true h
      · split
        · exact WF_envPair i l _ _ (by simpa using hT) h
        · exact WF_reorder _ c _ hT (WF_combine l c _ h)
      · exact WF_reorder _ c T hT (WF_combine l c _ h)
    · exact WF_reorder l c T hT h

theorem WF_actKraus (i : Info) (l : Layout) (c : Nat) (entry : Entry) (T : List Nat) (hT : T.Nodup) (h : WF l) :
    WF (actKraus i l c entry T) := by
  unfold actKraus
  split
  · exact WF_ceKraus i l c T hT h
  · split
    · exact WF_reorder l _ [_] (List.nodup_singleton _) h
    · exact WF_memberFront l _ true h
  · split
    · exact WF_ceKraus i l c T hT h
    · split
      · exact WF_envPair i l _ _ (by simpa using hT) h
      · exact h

theorem WF_actTraceOut (i : Info) (l : Layout) (c : Nat) (entry : Entry) (T : List Nat) (hT : T.Nodup) (h : WF l) :
    WF (actTraceOut i l c entry T) := by
  unfold actTraceOut
  split
  · exact WF_ceTraceOut l c T hT h
  · split
    · exact WF_ceTraceOut l _ [_] (List.nodup_singleton _) h
    · exact WF_memberFront l _ false h
  · split
    · exact WF_ceTraceOut l c T hT h
    · split
      · exact WF_envPair i l _ _ (by simpa using hT) h
      · exact h

theorem allMembers_own (s : List Nat) : allMembers (s.map fun x => (⟨Kind.own, [x]⟩ : Block)) = s := by
  induction s with
  | nil => rfl
  | cons x xs ih =>
    simp only [List.map_cons, allMembers, List.flatten_cons] at ih ⊢
    rw [ih]; rfl

theorem WF_actMeasure (l : Layout) (M surv : List Nat) (hs : surv.Nodup) (hsub : ∀ s ∈ surv, s ∈ M) (h : WF l) :
    WF (actMeasure l M surv) := by
  unfold actMeasure
  have h1 := PW.Layout.WF_removeMeasured l M h
  constructor
  · rw [allMembers_append, allMembers_own, List.nodup_append]
    refine ⟨h1.1, hs, ?_⟩
    intro x hx y hy hxy
    subst hxy
    unfold allMembers at hx
    obtain ⟨ms, hms, hxm⟩ := List.mem_flatten.mp hx
    obtain ⟨b, hb, rfl⟩ := List.mem_map.mp hms
    exact removeMeasured_no_measured l M b hb x hxm (hsub x hy)
  · intro b hb
    rw [List.mem_append] at hb
    rcases hb with hb | hb
    · exact h1.2 b hb
    · obtain ⟨s, _, rfl⟩ := List.mem_map.mp hb
      simp

theorem WF_mergeContainers (l : Layout) (keep : Nat) (others : List Nat) (h : WF l) : WF (mergeContainers l keep others) := by
  unfold mergeContainers
  dsimp only
  generalize hq1 : (fun b : Block => match b.kind with | .ps c => !(decide (c ∈ others) && c != keep) | _ => true) = q1
  generalize hq2 : (fun b : Block => match b.kind with | .ps c => decide (c ∈ others) && c != keep | _ => false) = q2
  have hmoved : l.filter q2 = l.filter (fun b => !q1 b) := by
    apply List.filter_congr
    intro b _
    rw [← hq1, ← hq2]
    obtain ⟨k, m⟩ := b
    cases k <;> simp
  rw [hmoved]
  have hmem : allMembers ((l.filter (fun b => !q1 b)).map fun b => { b with kind := Kind.ps keep }) = allMembers (l.filter (fun b => !q1 b)) := by
    unfold allMembers
    rw [List.map_map]
    rfl
  constructor
  · rw [allMembers_append, hmem]
    exact (allMembers_filter_split l q1).nodup_iff.mp h.1
  · intro b hb
    rw [List.mem_append] at hb
    rcases hb with hb | hb
    · exact h.2 b (List.mem_filter.mp hb).1
    · obtain ⟨b0, hb0, rfl⟩ := List.mem_map.mp hb
      exact h.2 b0 (List.mem_filter.mp hb0).1

end PW.Routing
