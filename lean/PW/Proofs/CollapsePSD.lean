import PW.Proofs.Adequacy
import PW.Proofs.Projective
open Matrix
open scoped ComplexOrder
namespace PW.Adequacy
open PW PW.Spec

variable {a b : Nat}

/-- the collapsed state `(Π_o ⊗ 1) ρ (Π_o ⊗ 1)` as a Mathlib matrix is the projector conjugation -/
theorem toMatrix_projectOn (o : Nat) (ho : o < a) (ρ : Tensor ℂ) :
    toMatrix (a := a) (b := b) (projectOn [a, b] 0 o ρ)
      = toMatrix (a := a) (b := b) (applyOn [a, b] [0] (projector o) ρ) := by
  ext x y
  unfold toMatrix
  have := applyOn_projector [a, b] 0 o (by simp) (by simpa using ho) ρ [x.1, x.2] [y.1, y.2] (by simp) (by simp)
  simpa using this.symm

/-- **collapse keeps the state positive semidefinite** -/
theorem projectOn_posSemidef (o : Nat) (ho : o < a) (ρ : Tensor ℂ) (hρ : (toMatrix (a := a) (b := b) ρ).PosSemidef) :
    (toMatrix (a := a) (b := b) (projectOn [a, b] 0 o ρ)).PosSemidef := by
  rw [toMatrix_projectOn o ho]
  exact spec_operation_posSemidef (projector o) ρ hρ

end PW.Adequacy
