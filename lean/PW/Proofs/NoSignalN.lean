import Mathlib.Algebra.BigOperators.Group.Finset.Basic
import Mathlib.Algebra.BigOperators.Ring.Finset
import Mathlib.Algebra.BigOperators.Group.Finset.Sigma
import PW.Proofs.TraceStages
import PW.Proofs.KronFactor
import PW.Proofs.Projective
import PW.Proofs.SpecLemmas
/-!
# No signalling in a space of any number of subsystems

A unitary operation on the subsystem at position `q` leaves the reduced state of every list `K` of other
subsystems unchanged: `reduceTo dims K (applyOn dims [q] U ρ) = reduceTo dims K ρ`, for every number of
subsystems, every dimension list, every joint state.
-/
namespace PW
namespace Spec
variable {R : Type} [CommRing R] [StarRing R]

omit [StarRing R] in
theorem list_range_sum_finset (n : Nat) (f : Nat → R) : ((List.range n).map f).sum = ∑ i ∈ Finset.range n, f i := by
  induction n with
  | zero => simp
  | succ n ih => rw [List.range_succ, List.map_append, List.sum_append, ih, Finset.sum_range_succ]; simp

omit [StarRing R] in
theorem sumLabels_cons_finset (D : Nat → Nat) (l : Nat) (ls : List Nat) (f : Env → R) (e : Env) :
    sumLabels D (l :: ls) f e = ∑ i ∈ Finset.range (D l), sumLabels D ls f (upd e l i) := by
  simp only [sumLabels]; exact list_range_sum_finset _ _

omit [StarRing R] in
theorem sumLabels_finset_sum (D : Nat → Nat) (ls : List Nat) (s : Finset Nat) (f : Nat → Env → R) (e : Env) :
    sumLabels D ls (fun x => ∑ j ∈ s, f j x) e = ∑ j ∈ s, sumLabels D ls (f j) e := by
  induction ls generalizing e with
  | nil => rfl
  | cons a ls ih =>
    simp only [sumLabels_cons_finset, ih]
    exact Finset.sum_comm

omit [StarRing R] in
theorem sumLabels_const_mul (D : Nat → Nat) (ls : List Nat) (c : R) (G : Env → R) (e : Env) :
    sumLabels D ls (fun x => c * G x) e = c * sumLabels D ls G e :=
  sumLabels_mul_left D ls (fun _ => c) G e (fun _ _ => rfl)

theorem subst_scatter (n : Nat) (K : List Nat) (q : Nat) (hq : q ∉ K) (a : List Nat) (e1 g : Env) :
    subst n [q] (scatter n K a e1) g = scatter n K a (upd e1 q (g q)) := by
  unfold subst scatter
  apply List.map_congr_left
  intro p hp
  have hpn := List.mem_range.mp hp
  by_cases hpq : p = q
  · subst hpq; simp [hq, upd]
  · simp [hpq, upd, List.getD_eq_getElem?_getD, hpn]

theorem dimOf2_shift (dims : List Nat) (q : Nat) (hq : q < dims.length) :
    dimOf2 dims (dims.length + q) = dimOf2 dims q := by
  unfold dimOf2
  rw [if_neg (by omega), if_pos hq]
  congr 1; omega

omit [StarRing R] in
theorem sumLabels_add (D : Nat → Nat) (ls : List Nat) (f g : Env → R) (e : Env) :
    sumLabels D ls (fun x => f x + g x) e = sumLabels D ls f e + sumLabels D ls g e := by
  induction ls generalizing e with
  | nil => rfl
  | cons a ls ih => simp only [sumLabels_cons_finset, ih, Finset.sum_add_distrib]

/-- the label sum over everything except `K` and `q`, the row / column coordinate of `q` pinned to `j` / `k` -/
def pairSum (dims K : List Nat) (q : Nat) (ρ : Tensor R) (rc : List Nat) (j k : Nat) : R :=
  sumLabels (dimOf2 dims) (((List.range dims.length).filter fun p => decide (p ∉ K)).erase q)
    (fun e1 => ρ (scatter dims.length K (rc.take K.length) (upd e1 q j) ++
      scatter dims.length K (rc.drop K.length) (upd e1 q k))) (fun _ => 0)

section
variable (dims : List Nat) (K : List Nat) (q : Nat) (hq : q < dims.length) (hqK : q ∉ K)
include hq hqK

omit [StarRing R] in
theorem scatter_pin (x : List Nat) (ea eb : Env) (v : Nat)
    (hab : ∀ l ∈ ((List.range dims.length).filter fun p => decide (p ∉ K)).erase q, ea l = eb l) (hv : ea q = v) :
    scatter dims.length K x ea = scatter dims.length K x (upd eb q v) := by
  unfold scatter
  apply List.map_congr_left
  intro p hp
  by_cases hpK : p ∈ K
  · simp [hpK]
  · simp only [hpK, if_false]
    by_cases hpq : p = q
    · subst hpq; simp [upd, hv]
    · have : p ∈ (List.range dims.length).filter fun p => decide (p ∉ K) := by
        simp [List.mem_filter, List.mem_range.mp hp, hpK]
      simp [upd, hpq, hab p ((List.mem_erase_of_ne hpq).mpr this)]

omit [StarRing R] in
/-- the reduced state as a sum over the diagonal coordinate of `q` -/
theorem reduceTo_eq_pairSum (ρ : Tensor R) (rc : List Nat) :
    reduceTo dims K ρ rc = ∑ j ∈ Finset.range (dimOf2 dims q), pairSum dims K q ρ rc j j := by
  unfold reduceTo pairSum
  dsimp only
  set rest := (List.range dims.length).filter fun p => decide (p ∉ K) with hrest
  have hqrest : q ∈ rest := by simp [rest, List.mem_filter, hq, hqK]
  have hndrest : rest.Nodup := List.Nodup.filter _ List.nodup_range
  have hperm : rest.Perm (q :: rest.erase q) := List.perm_cons_erase hqrest
  have hqrest' : q ∉ rest.erase q := fun h => (List.Nodup.mem_erase_iff hndrest).mp h |>.1 rfl
  rw [sumLabels_perm _ hperm hndrest, sumLabels_cons_finset]
  apply Finset.sum_congr rfl
  intro j _
  apply sumLabels_rel
  intro ea eb hab ha _
  have hq' : ea q = j := by rw [ha q hqrest']; simp [upd]
  rw [scatter_pin dims K q hq hqK _ ea eb j hab hq', scatter_pin dims K q hq hqK _ ea eb j hab hq']

/-- the reduced state after an operation on `q`, expanded over the coordinates of `q` -/
theorem reduceTo_applyOn_pairSum (U ρ : Tensor R) (rc : List Nat) :
    reduceTo dims K (applyOn dims [q] U ρ) rc
      = ∑ j ∈ Finset.range (dimOf2 dims q), ∑ k ∈ Finset.range (dimOf2 dims q),
          (∑ i ∈ Finset.range (dimOf2 dims q), U [i, j] * conj (U [i, k])) * pairSum dims K q ρ rc j k := by
  unfold reduceTo
  dsimp only
  set n := dims.length with hn
  set a := rc.take K.length
  set b := rc.drop K.length
  set rest := (List.range n).filter fun p => decide (p ∉ K) with hrest
  have hqrest : q ∈ rest := by simp [rest, List.mem_filter, hq, hqK]
  have hndrest : rest.Nodup := List.Nodup.filter _ List.nodup_range
  have hperm : rest.Perm (q :: rest.erase q) := List.perm_cons_erase hqrest
  have hqrest' : q ∉ rest.erase q := fun h => (List.Nodup.mem_erase_iff hndrest).mp h |>.1 rfl
  rw [sumLabels_perm _ hperm hndrest, sumLabels_cons_finset]
  have hlen : ∀ (x : List Nat) (e : Env), (scatter n K x e).length = n := by intro x e; simp [scatter]
  have hleft : ∀ i, sumLabels (dimOf2 dims) (rest.erase q)
      (fun e => applyOn dims [q] U ρ (scatter n K a e ++ scatter n K b e)) (upd (fun _ => 0) q i)
      = ∑ j ∈ Finset.range (dimOf2 dims q), ∑ k ∈ Finset.range (dimOf2 dims q),
          (U [i, j] * conj (U [i, k])) * pairSum dims K q ρ rc j k := by
    intro i
    have hbody : ∀ e : Env, e q = i → applyOn dims [q] U ρ (scatter n K a e ++ scatter n K b e)
        = ∑ j ∈ Finset.range (dimOf2 dims q), ∑ k ∈ Finset.range (dimOf2 dims q),
            (U [i, j] * conj (U [i, k])) * ρ (scatter n K a (upd e q j) ++ scatter n K b (upd e q k)) := by
      intro e heq
      unfold applyOn
      dsimp only
      rw [← hn, List.take_left' (hlen a e), List.drop_left' (hlen a e)]
      have hsh : dimOf2 dims (n + q) = dimOf2 dims q := by rw [hn]; exact dimOf2_shift dims q hq
      simp only [List.map_cons, List.map_nil, List.cons_append, List.nil_append]
      rw [sumLabels_cons_finset]
      apply Finset.sum_congr rfl; intro j _
      rw [sumLabels_cons_finset, hsh]
      apply Finset.sum_congr rfl; intro k _
      simp only [sumLabels]
      have h1 : upd (upd (fun _ => 0) q j) (n + q) k q = j := by
        simp only [upd]; rw [if_neg (show ¬ q = n + q by omega)]; simp
      have h2 : upd (upd (fun _ => 0) q j) (n + q) k (n + q) = k := by simp [upd]
      have hgq : (scatter n K a e).getD q 0 = i := by
        simp [scatter, List.getD_eq_getElem?_getD, hq, hqK, heq]
      have hgq' : (scatter n K b e).getD q 0 = i := by
        simp [scatter, List.getD_eq_getElem?_getD, hq, hqK, heq]
      rw [subst_scatter n K q hqK a e _, subst_scatter n K q hqK b e _, h1, h2, hgq, hgq']
      ring
    unfold pairSum
    calc sumLabels (dimOf2 dims) (rest.erase q) (fun e => applyOn dims [q] U ρ (scatter n K a e ++ scatter n K b e)) (upd (fun _ => 0) q i)
        = sumLabels (dimOf2 dims) (rest.erase q) (fun e => ∑ j ∈ Finset.range (dimOf2 dims q), ∑ k ∈ Finset.range (dimOf2 dims q),
            (U [i, j] * conj (U [i, k])) * ρ (scatter n K a (upd e q j) ++ scatter n K b (upd e q k))) (fun _ => 0) := by
          apply sumLabels_rel
          intro ea eb hab ha _
          have hq' : ea q = i := by rw [ha q hqrest']; simp [upd]
          rw [hbody ea hq']
          apply Finset.sum_congr rfl; intro j _
          apply Finset.sum_congr rfl; intro k _
          have e1 : scatter n K a (upd ea q j) = scatter n K a (upd eb q j) :=
            scatter_pin dims K q hq hqK a (upd ea q j) eb j (fun l hl => by
              have : l ≠ q := fun h => hqrest' (h ▸ hl)
              simp [upd, this, hab l hl]) (by simp [upd])
          have e2 : scatter n K b (upd ea q k) = scatter n K b (upd eb q k) :=
            scatter_pin dims K q hq hqK b (upd ea q k) eb k (fun l hl => by
              have : l ≠ q := fun h => hqrest' (h ▸ hl)
              simp [upd, this, hab l hl]) (by simp [upd])
          rw [e1, e2]
      _ = _ := by
          rw [sumLabels_finset_sum]
          apply Finset.sum_congr rfl; intro j _
          rw [sumLabels_finset_sum]
          apply Finset.sum_congr rfl; intro k _
          rw [sumLabels_const_mul]
  simp only [hleft]
  rw [Finset.sum_comm]
  apply Finset.sum_congr rfl
  intro j _
  rw [Finset.sum_comm]
  apply Finset.sum_congr rfl
  intro k _
  rw [Finset.sum_mul]

omit [StarRing R] hq hqK in
theorem reduceTo_add (f g : Tensor R) (rc : List Nat) :
    reduceTo dims K (fun x => f x + g x) rc = reduceTo dims K f rc + reduceTo dims K g rc := by
  unfold reduceTo
  exact sumLabels_add _ _ _ _ _

omit [StarRing R] hq hqK in
theorem reduceTo_zero (rc : List Nat) : reduceTo dims K (fun _ => (0 : R)) rc = 0 := by
  unfold reduceTo
  exact sumLabels_zero' _ _ _

/-- the reduced state after a channel on `q`, expanded over the coordinates of `q` -/
theorem reduceTo_krausOn_pairSum (Ks : List (Tensor R)) (ρ : Tensor R) (rc : List Nat) :
    reduceTo dims K (krausOn dims [q] Ks ρ) rc
      = ∑ j ∈ Finset.range (dimOf2 dims q), ∑ k ∈ Finset.range (dimOf2 dims q),
          (Ks.map fun U => ∑ i ∈ Finset.range (dimOf2 dims q), U [i, j] * conj (U [i, k])).sum
            * pairSum dims K q ρ rc j k := by
  induction Ks with
  | nil => rw [krausOn_nil, reduceTo_zero]; simp
  | cons U Ks ih =>
    rw [krausOn_cons, reduceTo_add, ih, reduceTo_applyOn_pairSum dims K q hq hqK U ρ rc, ← Finset.sum_add_distrib]
    apply Finset.sum_congr rfl; intro j _
    rw [← Finset.sum_add_distrib]
    apply Finset.sum_congr rfl; intro k _
    simp only [List.map_cons, List.sum_cons]
    ring

/-- **no signalling, any number of subsystems**: a trace-preserving channel on position `q`
(`Σ_m Σ_i K_m[i,j]·conj K_m[i,k] = δ_jk` below the cutoff) leaves the reduced state of the subsystems
`K ∌ q` unchanged -/
theorem reduceTo_krausOn_single (Ks : List (Tensor R))
    (hK : ∀ j < dimOf2 dims q, ∀ k < dimOf2 dims q,
      (Ks.map fun U => ∑ i ∈ Finset.range (dimOf2 dims q), U [i, j] * conj (U [i, k])).sum = if j = k then 1 else 0)
    (ρ : Tensor R) (rc : List Nat) :
    reduceTo dims K (krausOn dims [q] Ks ρ) rc = reduceTo dims K ρ rc := by
  rw [reduceTo_krausOn_pairSum dims K q hq hqK, reduceTo_eq_pairSum dims K q hq hqK]
  apply Finset.sum_congr rfl
  intro j hj
  have hj' := Finset.mem_range.mp hj
  have : ∀ k ∈ Finset.range (dimOf2 dims q),
      (Ks.map fun U => ∑ i ∈ Finset.range (dimOf2 dims q), U [i, j] * conj (U [i, k])).sum * pairSum dims K q ρ rc j k
        = (if j = k then 1 else 0) * pairSum dims K q ρ rc j k := by
    intro k hk; rw [hK j hj' k (Finset.mem_range.mp hk)]
  rw [Finset.sum_congr rfl this, Finset.sum_eq_single j]
  · simp
  · intro k _ hk; simp [Ne.symm hk]
  · intro h; exact absurd hj h

/-- … in particular a unitary operation -/
theorem reduceTo_applyOn_single (U : Tensor R)
    (hU : ∀ j < dimOf2 dims q, ∀ k < dimOf2 dims q,
      ∑ i ∈ Finset.range (dimOf2 dims q), U [i, j] * conj (U [i, k]) = if j = k then 1 else 0)
    (ρ : Tensor R) (rc : List Nat) :
    reduceTo dims K (applyOn dims [q] U ρ) rc = reduceTo dims K ρ rc := by
  have h := reduceTo_krausOn_single dims K q hq hqK [U] (by simpa using hU) ρ rc
  rw [krausOn_cons, krausOn_nil] at h
  simpa using h

end

end Spec
end PW

namespace PW
namespace Spec
variable {R : Type} [CommRing R] [StarRing R]

omit [StarRing R] in
/-- the trace is the partial trace onto no subsystem at all -/
theorem trace_eq_reduceTo_nil (dims : List Nat) (ρ : Tensor R) : trace dims ρ = reduceTo dims [] ρ [] := by
  rw [trace_eq_sumLabels dims ρ (fun _ => 0)]
  unfold reduceTo
  dsimp only
  have hf : ((List.range dims.length).filter fun p => decide (p ∉ ([] : List Nat))) = List.range dims.length := by
    simp
  rw [hf]
  apply sumLabels_congr
  intro e
  have : scatter dims.length [] [] e = (List.range dims.length).map e := by
    unfold scatter; apply List.map_congr_left; intro p _; simp
  simp [this]

/-- **a trace-preserving channel on one subsystem preserves the trace — any number of subsystems** -/
theorem trace_krausOn_single (dims : List Nat) (q : Nat) (hq : q < dims.length) (Ks : List (Tensor R))
    (hK : ∀ j < dimOf2 dims q, ∀ k < dimOf2 dims q,
      (Ks.map fun U => ∑ i ∈ Finset.range (dimOf2 dims q), U [i, j] * conj (U [i, k])).sum = if j = k then 1 else 0)
    (ρ : Tensor R) : trace dims (krausOn dims [q] Ks ρ) = trace dims ρ := by
  rw [trace_eq_reduceTo_nil, trace_eq_reduceTo_nil, reduceTo_krausOn_single dims [] q hq (by simp) Ks hK]

end Spec
end PW

namespace PW
namespace Spec
variable {R : Type} [CommRing R] [StarRing R]

omit [StarRing R] in
theorem reduceTo_list_sum (dims K : List Nat) (fs : List (Tensor R)) (rc : List Nat) :
    reduceTo dims K (fun x => (fs.map fun f => f x).sum) rc = (fs.map fun f => reduceTo dims K f rc).sum := by
  induction fs with
  | nil => simpa using reduceTo_zero dims K rc
  | cons f fs ih =>
    simp only [List.map_cons, List.sum_cons]
    rw [reduceTo_add, ih]

/-- **the weights of a complete measurement add up to the trace — any number of subsystems**:
`Σ_m Tr((M_m ⊗ 1) ρ (M_m ⊗ 1)†) = Tr ρ` for operators on position `q` with `Σ_m M_m† M_m = 1` -/
theorem povm_weights_sum_single (dims : List Nat) (q : Nat) (hq : q < dims.length) (Ms : List (Tensor R))
    (hM : ∀ j < dimOf2 dims q, ∀ k < dimOf2 dims q,
      (Ms.map fun U => ∑ i ∈ Finset.range (dimOf2 dims q), U [i, j] * conj (U [i, k])).sum = if j = k then 1 else 0)
    (ρ : Tensor R) : (Ms.map fun M => trace dims (applyOn dims [q] M ρ)).sum = trace dims ρ := by
  rw [← trace_krausOn_single dims q hq Ms hM ρ]
  simp only [trace_eq_reduceTo_nil]
  unfold krausOn
  have h := reduceTo_list_sum dims [] (Ms.map fun M => applyOn dims [q] M ρ) []
  simp only [List.map_map, Function.comp_def] at h
  exact h.symm

end Spec
end PW

namespace PW
namespace Spec
variable {R : Type} [CommRing R] [StarRing R]

omit [StarRing R] in
/-- the partial trace reads its argument only at well-formed indices -/
theorem reduceTo_congr (dims K : List Nat) (σ τ : Tensor R) (rc : List Nat)
    (h : ∀ r c : List Nat, r.length = dims.length → c.length = dims.length → σ (r ++ c) = τ (r ++ c)) :
    reduceTo dims K σ rc = reduceTo dims K τ rc := by
  unfold reduceTo
  apply sumLabels_congr
  intro e
  apply h <;> simp [scatter]

theorem projector_gram (d o : Nat) (ho : o < d) (j k : Nat) :
    ∑ i ∈ Finset.range d, (projector (R := R) o) [i, j] * conj ((projector (R := R) o) [i, k])
      = if j = o ∧ k = o then 1 else 0 := by
  rw [Finset.sum_eq_single o]
  · unfold projector
    by_cases hj : j = o <;> by_cases hk : k = o <;> simp [hj, hk, conj_eq_star]
  · intro i _ hi
    unfold projector
    have : ¬ ([i, j] = [o, o]) := by simp [hi]
    simp [this]
  · intro h; exact absurd (Finset.mem_range.mpr ho) h

theorem projectors_complete (d : Nat) (j k : Nat) (hj : j < d) :
    (((List.range d).map fun o => projector (R := R) o).map fun U =>
        ∑ i ∈ Finset.range d, U [i, j] * conj (U [i, k])).sum = if j = k then 1 else 0 := by
  rw [List.map_map]
  have : ((List.range d).map ((fun U : Tensor R => ∑ i ∈ Finset.range d, U [i, j] * conj (U [i, k])) ∘ fun o => projector (R := R) o))
      = (List.range d).map fun o => if j = o ∧ k = o then (1 : R) else 0 := by
    apply List.map_congr_left
    intro o ho
    exact projector_gram d o (List.mem_range.mp ho) j k
  rw [this, list_range_sum_finset]
  by_cases hjk : j = k
  · subst hjk
    rw [Finset.sum_eq_single j]
    · simp
    · intro o _ ho; simp [Ne.symm ho]
    · intro h; exact absurd (Finset.mem_range.mpr hj) h
  · rw [if_neg hjk]
    apply Finset.sum_eq_zero
    intro o _
    rw [if_neg]
    rintro ⟨rfl, rfl⟩; exact hjk rfl

/-- **measuring one subsystem is invisible in all the others — any number of subsystems**: summed over the
outcomes, the collapsed (Born-weighted) states have the reduced state on `K ∌ q` that `ρ` had -/
theorem reduceTo_measurement (dims K : List Nat) (q : Nat) (hq : q < dims.length) (hqK : q ∉ K)
    (ρ : Tensor R) (rc : List Nat) :
    ((List.range (dims.getD q 0)).map fun o => reduceTo dims K (projectOn dims q o ρ) rc).sum
      = reduceTo dims K ρ rc := by
  have hd : dimOf2 dims q = dims.getD q 0 := by unfold dimOf2; rw [if_pos hq]
  have hK := reduceTo_krausOn_single dims K q hq hqK ((List.range (dims.getD q 0)).map fun o => projector (R := R) o)
    (by intro j hj k _; rw [hd] at hj ⊢; exact projectors_complete _ j k hj) ρ rc
  rw [← hK]
  unfold krausOn
  have h := reduceTo_list_sum dims K (((List.range (dims.getD q 0)).map fun o => projector (R := R) o).map
    fun M => applyOn dims [q] M ρ) rc
  simp only [List.map_map, Function.comp_def] at h ⊢
  rw [h]
  congr 1
  apply List.map_congr_left
  intro o ho
  apply reduceTo_congr
  intro r c hr hc
  exact (applyOn_projector dims q o hq (List.mem_range.mp ho) ρ r c hr hc).symm

end Spec
end PW
