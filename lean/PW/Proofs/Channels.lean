import Mathlib.LinearAlgebra.Matrix.PosDef
import Mathlib.LinearAlgebra.Matrix.Kronecker
import Mathlib.LinearAlgebra.Matrix.Trace
import Mathlib.Data.Complex.Basic
import Mathlib.Analysis.Complex.Basic
/-!
Channels and operations on a bipartite space `a × b` (addressed part × everything else) with
Mathlib's matrices over ℂ: `K ⊗ 1` is what "acts as `K` on the addressed subsystems and as the
identity on every other one" means.
-/
open Matrix
open scoped Kronecker ComplexOrder

namespace PW.Channels

variable {a b ι : Type} [Fintype a] [Fintype b] [DecidableEq a] [DecidableEq b]

/-- the embedding of an operator on the addressed part -/
noncomputable def emb (K : Matrix a a ℂ) : Matrix (a × b) (a × b) ℂ := K ⊗ₖ (1 : Matrix b b ℂ)

theorem emb_conjTranspose (K : Matrix a a ℂ) : (emb (b := b) K)ᴴ = emb Kᴴ := by
  unfold emb; rw [conjTranspose_kronecker, conjTranspose_one]

theorem emb_mul (K L : Matrix a a ℂ) : emb (b := b) K * emb L = emb (K * L) := by
  unfold emb; rw [← mul_kronecker_mul, Matrix.one_mul]

theorem emb_one : emb (b := b) (1 : Matrix a a ℂ) = 1 := by unfold emb; exact one_kronecker_one

theorem emb_sum (s : Finset ι) (K : ι → Matrix a a ℂ) : emb (b := b) (∑ i ∈ s, K i) = ∑ i ∈ s, emb (K i) := by
  unfold emb
  classical
  induction s using Finset.induction_on with
  | empty => simp
  | insert x s hx ih => rw [Finset.sum_insert hx, Finset.sum_insert hx, add_kronecker, ih]

/-- **A channel preserves the trace**: if `Σ Kᵢ† Kᵢ = 1` then
`Tr Σ (Kᵢ⊗1) ρ (Kᵢ⊗1)† = Tr ρ`, for every state of the bipartite system (entangled or not). -/
theorem kraus_trace_preserving (s : Finset ι) (K : ι → Matrix a a ℂ) (hK : ∑ i ∈ s, (K i)ᴴ * K i = 1)
    (ρ : Matrix (a × b) (a × b) ℂ) :
    trace (∑ i ∈ s, emb (K i) * ρ * (emb (K i))ᴴ) = trace ρ := by
  rw [trace_sum]
  have h1 : ∀ i ∈ s, trace (emb (b := b) (K i) * ρ * (emb (K i))ᴴ) = trace (emb ((K i)ᴴ * K i) * ρ) := by
    intro i _
    rw [Matrix.trace_mul_comm, ← Matrix.mul_assoc, emb_conjTranspose, emb_mul]
  rw [Finset.sum_congr rfl h1, ← trace_sum, ← Finset.sum_mul, ← emb_sum, hK, emb_one, Matrix.one_mul]

/-- **A channel preserves positivity**: each `(K⊗1) ρ (K⊗1)†` and their sum are positive
semidefinite when `ρ` is. -/
theorem kraus_posSemidef (s : Finset ι) (K : ι → Matrix a a ℂ) (ρ : Matrix (a × b) (a × b) ℂ)
    (hρ : ρ.PosSemidef) : (∑ i ∈ s, emb (K i) * ρ * (emb (K i))ᴴ).PosSemidef :=
  posSemidef_sum s fun i _ => hρ.mul_mul_conjTranspose_same (emb (K i))

/-- a unitary operation preserves the trace -/
theorem unitary_trace_preserving (U : Matrix a a ℂ) (hU : Uᴴ * U = 1) (ρ : Matrix (a × b) (a × b) ℂ) :
    trace (emb U * ρ * (emb U)ᴴ) = trace ρ := by
  have := kraus_trace_preserving (b := b) ({()} : Finset Unit) (fun _ => U) (by simpa using hU) ρ
  simpa using this

/-- any operation (unitary or not) keeps the state positive semidefinite and Hermitian -/
theorem operation_posSemidef (O : Matrix a a ℂ) (ρ : Matrix (a × b) (a × b) ℂ) (hρ : ρ.PosSemidef) :
    (emb O * ρ * (emb O)ᴴ).PosSemidef := hρ.mul_mul_conjTranspose_same (emb O)

/-- POVM weights of a complete set sum to the trace: `Σᵢ Tr((Mᵢ⊗1)ρ(Mᵢ⊗1)†) = Tr ρ` -/
theorem povm_weights_sum (s : Finset ι) (M : ι → Matrix a a ℂ) (hM : ∑ i ∈ s, (M i)ᴴ * M i = 1)
    (ρ : Matrix (a × b) (a × b) ℂ) :
    ∑ i ∈ s, trace (emb (M i) * ρ * (emb (M i))ᴴ) = trace ρ := by
  rw [← trace_sum]; exact kraus_trace_preserving s M hM ρ

/-- each POVM weight of a state is a non-negative real number -/
theorem povm_weight_nonneg (M : Matrix a a ℂ) (ρ : Matrix (a × b) (a × b) ℂ) (hρ : ρ.PosSemidef) :
    0 ≤ trace (emb (b := b) M * ρ * (emb M)ᴴ) :=
  (operation_posSemidef M ρ hρ).trace_nonneg

end PW.Channels
