import PW.Proofs.NoSignalN
/-!
# Creating a subsystem does not disturb the others

`tensorVec dims v ρ` appends a new subsystem in the pure state `v` as the last factor.  The reduced state
of the old subsystems is `(Σ_i v_i conj v_i) · ρ` — for a normalised `v`, exactly `ρ`.
-/
namespace PW
namespace Spec
variable {R : Type} [CommRing R] [StarRing R]

theorem scatter_range_append (n : Nat) (r : List Nat) (hr : r.length = n) (e : Env) :
    scatter (n + 1) (List.range n) r e = r ++ [e n] := by
  apply List.ext_getElem?
  intro x
  unfold scatter
  by_cases hx : x < n + 1
  · rw [List.getElem?_map, List.getElem?_range hx]
    simp only [Option.map_some]
    by_cases hxn : x < n
    · have hm : x ∈ List.range n := List.mem_range.mpr hxn
      rw [if_pos hm, List.getElem?_append_left (by omega)]
      have hidx : (List.range n).idxOf x = x := by
        have := (List.nodup_range (n := n)).idxOf_getElem x (by simpa using hxn)
        simpa using this
      rw [hidx, List.getD_eq_getElem?_getD, List.getElem?_eq_getElem (by omega)]
      simp
    · have hxe : x = n := by omega
      subst hxe
      have hm : x ∉ List.range x := by simp
      rw [if_neg hm, List.getElem?_append_right (by omega)]
      simp [hr]
  · rw [List.getElem?_eq_none (by simp; omega), List.getElem?_eq_none (by simp; omega)]

/-- **a new subsystem leaves the reduced state of the old ones as it was** (up to the norm of `v`) -/
theorem reduceTo_tensorVec (dims : List Nat) (d : Nat) (v ρ : Tensor R) (r c : List Nat)
    (hr : r.length = dims.length) (hc : c.length = dims.length) :
    reduceTo (dims ++ [d]) (List.range dims.length) (tensorVec dims v ρ) (r ++ c)
      = (∑ i ∈ Finset.range d, v [i] * conj (v [i])) * ρ (r ++ c) := by
  unfold reduceTo
  dsimp only
  set n := dims.length with hn
  have hlen : (dims ++ [d]).length = n + 1 := by simp [hn]
  rw [hlen, List.length_range, List.take_left' hr, List.drop_left' hr]
  have hrest : ((List.range (n + 1)).filter fun p => decide (p ∉ List.range n)) = [n] := by
    rw [List.range_succ, List.filter_append]
    have h1 : ((List.range n).filter fun p => decide (p ∉ List.range n)) = [] := by
      rw [List.filter_eq_nil_iff]; intro a ha; simp [ha]
    rw [h1]; simp
  rw [hrest, sumLabels_cons_finset]
  have hD : dimOf2 (dims ++ [d]) n = d := by
    unfold dimOf2
    rw [hlen, if_pos (by omega)]
    simp [hn]
  rw [hD, Finset.sum_mul]
  apply Finset.sum_congr rfl
  intro i _
  simp only [sumLabels]
  rw [scatter_range_append n r hr, scatter_range_append n c hc]
  unfold tensorVec
  dsimp only
  have hl : (r ++ [upd (fun _ => 0) n i n]).length = n + 1 := by simp [hr]
  rw [← hn, List.take_left' hl, List.drop_left' hl]
  have h1 : (r ++ [upd (fun _ => 0) n i n]).take n = r := List.take_left' hr
  have h2 : (c ++ [upd (fun _ => 0) n i n]).take n = c := List.take_left' hc
  have h3 : (r ++ [upd (fun _ => 0) n i n]).getD n 0 = i := by
    rw [List.getD_eq_getElem?_getD, List.getElem?_append_right (by omega)]; simp [hr, upd]
  have h4 : (c ++ [upd (fun _ => 0) n i n]).getD n 0 = i := by
    rw [List.getD_eq_getElem?_getD, List.getElem?_append_right (by omega)]; simp [hc, upd]
  rw [h1, h2, h3, h4]
  ring

end Spec
end PW
