import PW.Props.C11
/-!
# The automatically chosen cutoffs are exact

*Beam splitter.*  Let `d ≤ d'`.  On states of the two-mode space at cutoff `d` whose total photon number
is below `d` (all the population of a state with `q₁ + q₂ < d`), the splitter `exp(iηG)` computed at
cutoff `d` and then embedded into cutoff `d'` is the splitter computed at cutoff `d'`: nothing is lost by
working at `d = q₁ + q₂ + 1`, and the result is the one of every larger cutoff ("infinite-dimensional").

*Ladder operators.*  `a†` at a cutoff `d ≥ q + 2` applied to a vector supported on levels `≤ q` has the
entries of `a†` at any larger cutoff, and zeros beyond `d`.
-/
open Matrix NormedSpace

namespace PW.Truncation
open PW.Props.C11

variable (d d' : ℕ)

/-- embedding of the two-mode space at cutoff `d` into the one at cutoff `d'` -/
def embed : Matrix (Fin d' × Fin d') (Fin d × Fin d) ℂ :=
  fun x y => if (x.1 : ℕ) = y.1 ∧ (x.2 : ℕ) = y.2 then 1 else 0

/-- projector on total photon number below `d` (a diagonal function of the total number) -/
noncomputable def low : Matrix (Fin d × Fin d) (Fin d × Fin d) ℂ :=
  totalFn d d fun N => if N < d then 1 else 0

/-- the generator's entries depend only on the photon numbers, not on the cutoff -/
noncomputable def genN (x1 x2 y1 y2 : ℕ) : ℂ :=
  (if y1 = x1 + 1 then (Real.sqrt y1 : ℂ) else 0) * (if x2 = y2 + 1 then (Real.sqrt x2 : ℂ) else 0) +
  (if x1 = y1 + 1 then (Real.sqrt x1 : ℂ) else 0) * (if y2 = x2 + 1 then (Real.sqrt y2 : ℂ) else 0)

theorem bsGen_eq_genN (n : ℕ) (x y : Fin n × Fin n) : bsGen n n x y = genN x.1 x.2 y.1 y.2 := by
  unfold bsGen genN cre ann
  rfl

theorem genN_support (x1 x2 y1 y2 : ℕ) (h : genN x1 x2 y1 y2 ≠ 0) : x1 + x2 = y1 + y2 := by
  by_contra hne
  apply h
  unfold genN
  have hA : (if y1 = x1 + 1 then (Real.sqrt y1 : ℂ) else 0) * (if x2 = y2 + 1 then (Real.sqrt x2 : ℂ) else 0) = 0 := by
    by_cases a1 : y1 = x1 + 1
    · by_cases a2 : x2 = y2 + 1
      · omega
      · simp [a2]
    · simp [a1]
  have hB : (if x1 = y1 + 1 then (Real.sqrt x1 : ℂ) else 0) * (if y2 = x2 + 1 then (Real.sqrt y2 : ℂ) else 0) = 0 := by
    by_cases a1 : x1 = y1 + 1
    · by_cases a2 : y2 = x2 + 1
      · omega
      · simp [a2]
    · simp [a1]
  rw [hA, hB, add_zero]

variable {d d'}

/-- the generator at the larger cutoff, restricted to low total number, is the embedded generator -/
theorem gen_embed_low (hdd : d ≤ d') :
    bsGen d' d' * (embed d d' * low d) = embed d d' * (bsGen d d * low d) := by
  ext x y
  unfold low totalFn
  rw [← Matrix.mul_assoc, ← Matrix.mul_assoc, Matrix.mul_diagonal, Matrix.mul_diagonal]
  by_cases hy : (y.1 : ℕ) + y.2 < d
  · simp only [hy, if_true, mul_one]
    -- left: G_{d'}[x, ↑y]; right: [x < d] G_d[x↓, y]
    have hy1 : (y.1 : ℕ) < d' := lt_of_lt_of_le y.1.isLt hdd
    have hy2 : (y.2 : ℕ) < d' := lt_of_lt_of_le y.2.isLt hdd
    have hL : (bsGen d' d' * embed d d') x y = genN x.1 x.2 y.1 y.2 := by
      rw [Matrix.mul_apply, Finset.sum_eq_single ((⟨y.1, hy1⟩ : Fin d'), (⟨y.2, hy2⟩ : Fin d'))]
      · simp [embed, bsGen_eq_genN]
      · intro z _ hz
        have : ¬ ((z.1 : ℕ) = y.1 ∧ (z.2 : ℕ) = y.2) := by
          rintro ⟨h1, h2⟩
          exact hz (Prod.ext (Fin.ext h1) (Fin.ext h2))
        simp [embed, this]
      · simp
    rw [hL, Matrix.mul_apply]
    by_cases hx : (x.1 : ℕ) < d ∧ (x.2 : ℕ) < d
    · rw [Finset.sum_eq_single ((⟨x.1, hx.1⟩ : Fin d), (⟨x.2, hx.2⟩ : Fin d))]
      · simp [embed, bsGen_eq_genN]
      · intro z _ hz
        have : ¬ ((x.1 : ℕ) = z.1 ∧ (x.2 : ℕ) = z.2) := by
          rintro ⟨h1, h2⟩
          exact hz (Prod.ext (Fin.ext h1.symm) (Fin.ext h2.symm))
        simp [embed, this]
      · simp
    · have hz : genN x.1 x.2 y.1 y.2 = 0 := by
        by_contra hne
        have := genN_support _ _ _ _ hne
        exact hx ⟨by omega, by omega⟩
      rw [hz]
      symm
      apply Finset.sum_eq_zero
      intro z _
      have : ¬ ((x.1 : ℕ) = z.1 ∧ (x.2 : ℕ) = z.2) := by
        rintro ⟨h1, h2⟩
        exact hx ⟨h1 ▸ z.1.isLt, h2 ▸ z.2.isLt⟩
      simp [embed, this]
  · simp [hy]

/-- **the beam splitter at cutoff `q₁ + q₂ + 1` is exact**: for `d ≤ d'`, on the states of total photon
number below `d` the splitter computed at cutoff `d` and embedded is the splitter at cutoff `d'` -/
theorem bs_truncation_exact (hdd : d ≤ d') (η : ℝ) :
    bsU d' d' η * (embed d d' * low d) = embed d d' * (bsU d d η * low d) := by
  have hc : Commute (bsGen d d) (low d) := bsGen_commutes_total d d _
  have hcU : Commute (bsU d d η) (low d) := by
    unfold bsU
    apply exp_commute
    exact hc.smul_left _
  have hI : ((Complex.I * (η : ℂ)) • bsGen d' d') * (embed d d' * low d)
      = (embed d d' * low d) * ((Complex.I * (η : ℂ)) • bsGen d d) := by
    rw [Matrix.smul_mul, gen_embed_low hdd, Matrix.mul_smul, hc.eq, Matrix.mul_assoc]
  unfold bsU at hcU ⊢
  rw [PW.MZI.exp_intertwine _ _ _ hI, Matrix.mul_assoc, ← hcU.eq]


/-! ### ladder operators -/

theorem cre_mulVec (n : ℕ) (ψ : ℕ → ℂ) (r : Fin n) :
    (cre n).mulVec (fun c => ψ c) r = if (r : ℕ) = 0 then 0 else (Real.sqrt (r : ℕ) : ℂ) * ψ ((r : ℕ) - 1) := by
  unfold Matrix.mulVec dotProduct cre ann
  by_cases h0 : (r : ℕ) = 0
  · rw [if_pos h0]
    apply Finset.sum_eq_zero
    intro c _
    dsimp only
    rw [if_neg (by omega), zero_mul]
  · rw [if_neg h0, Finset.sum_eq_single (⟨(r : ℕ) - 1, by have := r.isLt; omega⟩ : Fin n)]
    · dsimp only
      rw [if_pos (by omega)]
    · intro c _ hc
      dsimp only
      rw [if_neg, zero_mul]
      intro h
      apply hc
      ext
      simp only
      omega
    · simp

theorem ann_mulVec (n : ℕ) (ψ : ℕ → ℂ) (r : Fin n) :
    (ann n).mulVec (fun c => ψ c) r = if (r : ℕ) + 1 < n then (Real.sqrt ((r : ℕ) + 1 : ℕ) : ℂ) * ψ ((r : ℕ) + 1) else 0 := by
  unfold Matrix.mulVec dotProduct ann
  by_cases h1 : (r : ℕ) + 1 < n
  · rw [if_pos h1, Finset.sum_eq_single (⟨(r : ℕ) + 1, h1⟩ : Fin n)]
    · simp
    · intro c _ hc
      dsimp only
      rw [if_neg, zero_mul]
      intro h
      apply hc
      ext
      simpa using h
    · simp
  · rw [if_neg h1]
    apply Finset.sum_eq_zero
    intro c _
    dsimp only
    rw [if_neg, zero_mul]
    intro h
    have := c.isLt
    omega

/-- **creation at cutoff `q + 2` is exact**: for a vector supported on levels `≤ q` and cutoffs
`q + 2 ≤ d ≤ d'`, `a†` at cutoff `d'` has the entries of `a†` at cutoff `d` and zeros beyond -/
theorem creation_truncation_exact (q : ℕ) (hd : q + 2 ≤ d) (_hdd : d ≤ d') (ψ : ℕ → ℂ)
    (hψ : ∀ n, q < n → ψ n = 0) (r : Fin d') :
    (cre d').mulVec (fun c => ψ c) r
      = if h : (r : ℕ) < d then (cre d).mulVec (fun c => ψ c) ⟨r, h⟩ else 0 := by
  rw [cre_mulVec]
  by_cases h : (r : ℕ) < d
  · rw [dif_pos h, cre_mulVec]
  · rw [dif_neg h, if_neg (by omega), hψ _ (by omega), mul_zero]

/-- **annihilation is exact at every cutoff above the support** -/
theorem annihilation_truncation_exact (q : ℕ) (hd : q + 1 ≤ d) (hdd : d ≤ d') (ψ : ℕ → ℂ)
    (hψ : ∀ n, q < n → ψ n = 0) (r : Fin d') :
    (ann d').mulVec (fun c => ψ c) r
      = if h : (r : ℕ) < d then (ann d).mulVec (fun c => ψ c) ⟨r, h⟩ else 0 := by
  rw [ann_mulVec]
  by_cases h : (r : ℕ) < d
  · rw [dif_pos h, ann_mulVec]
    by_cases h1 : (r : ℕ) + 1 < d
    · rw [if_pos (by omega), if_pos h1]
    · rw [if_neg h1]
      split
      · rw [hψ _ (by omega), mul_zero]
      · rfl
  · rw [dif_neg h]
    split
    · rw [hψ _ (by omega), mul_zero]
    · rfl

/-- the phase shifter `exp(iφ n)` at cutoff `n` -/
noncomputable def phaseOp (n : ℕ) (φ : ℝ) : Matrix (Fin n) (Fin n) ℂ :=
  Matrix.diagonal fun k => Complex.exp (Complex.I * φ * ((k : ℕ) : ℂ))

/-- **the phase shifter is exact at every cutoff above the occupied levels** (cutoff `q + 1`) -/
theorem phase_truncation_exact (q : ℕ) (hd : q + 1 ≤ d) (_hdd : d ≤ d') (φ : ℝ) (ψ : ℕ → ℂ)
    (hψ : ∀ n, q < n → ψ n = 0) (r : Fin d') :
    (phaseOp d' φ).mulVec (fun c => ψ c) r
      = if h : (r : ℕ) < d then (phaseOp d φ).mulVec (fun c => ψ c) ⟨r, h⟩ else 0 := by
  unfold phaseOp
  rw [Matrix.mulVec_diagonal]
  by_cases h : (r : ℕ) < d
  · rw [dif_pos h, Matrix.mulVec_diagonal]
  · rw [dif_neg h, hψ _ (by omega), mul_zero]

end PW.Truncation
