import PW.Proofs.SumLabels
import PW.Spec
/-! Vector level and matrix level agree: `(O⊗I)|ψ⟩⟨ψ|(O⊗I)† = |(O⊗I)ψ⟩⟨(O⊗I)ψ|`. -/
namespace PW.Spec
variable {R : Type} [CommRing R] [StarRing R]

theorem dimOf2_shift (dims : List Nat) (t : Nat) (ht : t < dims.length) :
    dimOf2 dims (dims.length + t) = dimOf2 dims t := by
  unfold dimOf2
  have h1 : ¬ dims.length + t < dims.length := by omega
  simp [h1, ht]

theorem subst_length (n : Nat) (T idx : List Nat) (f : Nat → Nat) : (subst n T idx f).length = n := by
  simp [subst]

theorem subst_congr (n : Nat) (T idx : List Nat) (f g : Nat → Nat) (h : ∀ p ∈ T, f p = g p) :
    subst n T idx f = subst n T idx g := by
  unfold subst
  apply List.map_congr_left
  intro p _
  by_cases hp : p ∈ T
  · simp [hp, h p hp]
  · simp [hp]

/-- **Level independence.** For every number of subsystems, every dimension list, every ordered
operand list and every operator: applying `O` to the density matrix `|ψ⟩⟨ψ|` gives the density
matrix of the vector `(O_T ⊗ I)ψ`. -/
theorem applyOn_outer (dims : List Nat) (T : List Nat) (hlt : ∀ p ∈ T, p < dims.length)
    (O ψ : Tensor R) (r c : List Nat) (hr : r.length = dims.length) (hc : c.length = dims.length) :
    applyOn dims T O (outer dims.length ψ) (r ++ c)
      = applyVec dims T O ψ r * conj (applyVec dims T O ψ c) := by
  set n := dims.length with hn
  set d := dimOf2 dims with hd
  -- the two factors
  let A : Env → R := fun e => O (T.map (fun p => r.getD p 0) ++ T.map e) * ψ (subst n T r e)
  let B : Env → R := fun e => O (T.map (fun p => c.getD p 0) ++ T.map e) * ψ (subst n T c e)
  have hbody : ∀ e : Env,
      O (T.map (fun p => r.getD p 0) ++ T.map e) *
        outer n ψ (subst n T r e ++ subst n T c (fun p => e (n + p))) *
        conj (O (T.map (fun p => c.getD p 0) ++ T.map (fun p => e (n + p))))
      = A e * star (B (fun p => e (n + p))) := by
    intro e
    simp only [A, B, outer, List.take_left' (subst_length n T r e), List.drop_left' (subst_length n T r e),
      conj_eq_star, star_mul']
    ring
  have hvecr : applyVec dims T O ψ r = sumLabels d T A (fun _ => 0) := rfl
  have hvecc : applyVec dims T O ψ c = sumLabels d T B (fun _ => 0) := rfl
  unfold applyOn
  simp only [← hn, List.take_left' hr, List.drop_left' hr]
  rw [sumLabels_congr d _ _ (fun e => A e * star (B (fun p => e (n + p)))) _ hbody]
  rw [sumLabels_append]
  -- labels of T and of the shifted copy are disjoint
  have hdisj : ∀ p ∈ T, p ∉ T.map (n + ·) := by
    intro p hp hm
    simp only [List.mem_map] at hm
    obtain ⟨q, hq, h⟩ := hm
    have := hlt p hp
    omega
  -- inner sum: pull `A` out
  have hinner : ∀ e1 : Env,
      sumLabels d (T.map (n + ·)) (fun e => A e * star (B (fun p => e (n + p)))) e1
        = A e1 * sumLabels d (T.map (n + ·)) (fun e => star (B (fun p => e (n + p)))) (fun _ => 0) := by
    intro e1
    rw [sumLabels_mul_left d (T.map (n + ·)) A (fun e => star (B (fun p => e (n + p)))) e1]
    · congr 1
      apply sumLabels_base_irrelevant
      intro ea eb hag _ _
      have : (T.map fun p => ea (n + p)) = T.map fun p => eb (n + p) := by
        apply List.map_congr_left
        intro p hp
        exact hag _ (List.mem_map.mpr ⟨p, hp, rfl⟩)
      simp only [B]
      rw [this, subst_congr n T c (fun p => ea (n + p)) (fun p => eb (n + p))
        (fun p hp => hag _ (List.mem_map.mpr ⟨p, hp, rfl⟩))]
    · intro ea hea
      simp only [A]
      have h1 : T.map ea = T.map e1 := by
        apply List.map_congr_left
        intro p hp; exact hea p (hdisj p hp)
      rw [h1, subst_congr n T r ea e1 (fun p hp => hea p (hdisj p hp))]
  rw [sumLabels_congr d T _ _ _ hinner]
  rw [sumLabels_mul_right d T A (fun _ => sumLabels d (T.map (n + ·)) (fun e => star (B (fun p => e (n + p)))) (fun _ => 0))
    (fun _ => 0) (fun _ _ => rfl)]
  rw [hvecr, hvecc, conj_eq_star, sumLabels_star]
  congr 1
  rw [sumLabels_shift d n T (fun e => star (B e)) (fun _ => 0)
    (fun t ht => by rw [hd, hn]; exact dimOf2_shift dims t (hlt t ht))]

end PW.Spec
