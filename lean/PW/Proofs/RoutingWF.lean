import PW.Proofs.ReorderWF
import PW.Proofs.RoutingLemmas2
/-! The partition invariant along routed calls. -/
namespace PW.Routing
open PW.Layout

theorem WF_foldl_reorder (fronts : List Nat) (l : Layout) (c : Nat) (h : WF l) :
    WF (fronts.foldl (fun acc f => reorder acc c [f]) l) := by
  induction fronts generalizing l with
  | nil => exact h
  | cons f fs ih => exact ih _ (WF_reorder l c [f] (List.nodup_singleton f) h)

theorem block_nodup {l : Layout} (h : WF l) (b : Block) (hb : b ∈ l) : b.members.Nodup := by
  have hs : b.members.Sublist (allMembers l) := by
    unfold allMembers
    exact List.sublist_flatten_of_mem (List.mem_map.mpr ⟨b, hb, rfl⟩)
  exact h.1.sublist hs

theorem front_perm (T members : List Nat) (hT : T.Nodup) (hm : members.Nodup) (hsub : ∀ t ∈ T, t ∈ members) :
    (T ++ members.filter (· ∉ T)).Perm members := by
  apply (List.perm_ext_iff_of_nodup ?_ hm).mpr
  · intro a
    simp only [List.mem_append, List.mem_filter, decide_eq_true_eq]
    constructor
    · rintro (h | ⟨h, _⟩)
      · exact hsub a h
      · exact h
    · intro h
      by_cases ha : a ∈ T
      · exact Or.inl ha
      · exact Or.inr ⟨h, ha⟩
  · rw [List.nodup_append]
    refine ⟨hT, hm.filter _, ?_⟩
    intro x hx y hy hxy
    subst hxy
    simp only [List.mem_filter, decide_eq_true_eq] at hy
    exact hy.2 hx

/-- `Envelope.reorder` keeps the invariant -/
theorem WF_envOrder (l : Layout) (T : List Nat) (hT : T.Nodup) (h : WF l) : WF (envOrder l T) := by
  unfold envOrder
  have hperm : ∀ b ∈ l,
      (if b.kind == Kind.env && T.all (· ∈ b.members) then { b with members := T ++ b.members.filter (· ∉ T) } else b).members.Perm b.members := by
    intro b hb
    split
    · rename_i hcond
      simp only [Bool.and_eq_true, List.all_eq_true, decide_eq_true_eq] at hcond
      exact front_perm T b.members hT (block_nodup h b hb) hcond.2
    · exact List.Perm.refl _
  refine ⟨(allMembers_map_perm _ _ hperm).nodup_iff.mpr h.1, ?_⟩
  intro b hb
  rw [List.mem_map] at hb
  obtain ⟨b0, hb0, rfl⟩ := hb
  intro hnil
  have := (hperm b0 hb0).length_eq
  rw [hnil] at this
  exact h.2 b0 hb0 (List.length_eq_zero_iff.mp this.symm)

theorem WF_memberFront (l : Layout) (t : Nat) (r : Bool) (h : WF l) : WF (memberFront l t r) := by
  unfold memberFront
  split
  · exact WF_envOrder l [t] (List.nodup_singleton t) h
  · split
    · exact WF_reorder l _ [t] (List.nodup_singleton t) h
    · exact h
  · exact h

/-- **Operations keep the bookkeeping invariant**, whatever is joined and moved to the front. -/
theorem WF_actOp (l : Layout) (c : Nat) (T fronts : List Nat) (h : WF l) : WF (actOp l c T fronts) := by
  unfold actOp
  split
  · exact WF_memberFront l _ _ h
  · dsimp only
    apply WF_foldl_reorder
    split
    · exact h
    · exact WF_combine l c _ h

theorem WF_actResize (l : Layout) (f : Nat) (shrink : Bool) (h : WF l) : WF (actResize l f shrink) := by
  unfold actResize
  split
  · exact WF_reorder l _ [f] (List.nodup_singleton f) h
  · split
    · exact WF_envOrder l [f] (List.nodup_singleton f) h
    · exact h

theorem WF_ceTraceOut (l : Layout) (c : Nat) (T : List Nat) (hT : T.Nodup) (h : WF l) : WF (ceTraceOut l c T) := by
  unfold ceTraceOut
  dsimp only
  split
  · exact WF_reorder _ c T hT (WF_combine l c _ h)
  · exact WF_reorder l c T hT h

theorem WF_cePovm (l : Layout) (c : Nat) (T : List Nat) (hT : T.Nodup) (h : WF l) : WF (cePovm l c T) := by
  unfold cePovm
  dsimp only
  apply WF_reorder _ c T hT
  split
  · exact WF_combine l c _ h
  · split
    · exact WF_combine l c T h
    · exact h

end PW.Routing
