import PW.Proofs.Core
import PW.EinsumGen
/-! `apply_operator_matrix`: the generated einsum computes (O ⊗ I) ρ (O ⊗ I)† in index form -/
namespace PW
variable {R : Type} [CommRing R]


theorem outM_length (n ops) : (outM n ops).length = 2 * n := by simp [outM]; omega

theorem outM_getElem_row (n ops p) (hp : p < n) :
    (outM n ops)[p]'(by rw [outM_length]; omega) = rowOut n ops p := by
  unfold outM
  rw [List.getElem_append_left (by simpa using hp)]
  simp

theorem outM_getElem_col (n ops p) (hp : p < n) :
    (outM n ops)[n + p]'(by rw [outM_length]; omega) = colOut n ops p := by
  unfold outM
  rw [List.getElem_append_right (by simp)]
  simp

theorem idxOf_lt (ops : List Nat) (p : Nat) (hp : p ∈ ops) : ops.idxOf p < ops.length :=
  List.idxOf_lt_length_iff.mpr hp

theorem mem_outM (n : Nat) (ops : List Nat) (hlt : ∀ p ∈ ops, p < n) (l : Nat) :
    l ∈ outM n ops ↔ ((l < n ∧ l ∉ ops) ∨ (∃ p ∈ ops, l = 2 * n + ops.idxOf p) ∨
      (∃ q, q < n ∧ q ∉ ops ∧ l = n + q) ∨ (∃ p ∈ ops, l = 2 * n + ops.length + ops.idxOf p)) := by
  unfold outM rowOut colOut
  simp only [List.mem_append, List.mem_map, List.mem_range]
  constructor
  · rintro (⟨p, hp, rfl⟩ | ⟨p, hp, rfl⟩)
    · by_cases hm : p ∈ ops
      · rw [if_pos hm]; exact Or.inr (Or.inl ⟨p, hm, rfl⟩)
      · rw [if_neg hm]; exact Or.inl ⟨hp, hm⟩
    · by_cases hm : p ∈ ops
      · rw [if_pos hm]; exact Or.inr (Or.inr (Or.inr ⟨p, hm, rfl⟩))
      · rw [if_neg hm]; exact Or.inr (Or.inr (Or.inl ⟨p, hp, hm, rfl⟩))
  · rintro (⟨hl, hm⟩ | ⟨p, hp, rfl⟩ | ⟨q, hq, hm, rfl⟩ | ⟨p, hp, rfl⟩)
    · exact Or.inl ⟨l, hl, by rw [if_neg hm]⟩
    · exact Or.inl ⟨p, hlt p hp, by rw [if_pos hp]⟩
    · exact Or.inr ⟨q, hq, by rw [if_neg hm]⟩
    · exact Or.inr ⟨p, hlt p hp, by rw [if_pos hp]⟩

theorem idxOf_inj (ops : List Nat) (a b : Nat) (ha : a ∈ ops) (hb : b ∈ ops)
    (h : ops.idxOf a = ops.idxOf b) : a = b := by
  have := congrArg (fun k => ops[k]?) h
  simp only [List.getElem?_idxOf ha, List.getElem?_idxOf hb] at this
  exact Option.some.inj this

theorem outM_nodup (n : Nat) (ops : List Nat) (hlt : ∀ p ∈ ops, p < n) : (outM n ops).Nodup := by
  unfold outM
  rw [List.nodup_append]
  refine ⟨?_, ?_, ?_⟩
  · apply (List.nodup_range).map_on
    intro a ha b hb h
    have ha' := List.mem_range.mp ha; have hb' := List.mem_range.mp hb
    unfold rowOut at h
    by_cases hao : a ∈ ops <;> by_cases hbo : b ∈ ops
    · rw [if_pos hao, if_pos hbo] at h; exact idxOf_inj ops a b hao hbo (by omega)
    · rw [if_pos hao, if_neg hbo] at h; omega
    · rw [if_neg hao, if_pos hbo] at h; omega
    · rw [if_neg hao, if_neg hbo] at h; exact h
  · apply (List.nodup_range).map_on
    intro a ha b hb h
    have ha' := List.mem_range.mp ha; have hb' := List.mem_range.mp hb
    unfold colOut at h
    by_cases hao : a ∈ ops <;> by_cases hbo : b ∈ ops
    · rw [if_pos hao, if_pos hbo] at h; exact idxOf_inj ops a b hao hbo (by omega)
    · rw [if_pos hao, if_neg hbo] at h; omega
    · rw [if_neg hao, if_pos hbo] at h; omega
    · rw [if_neg hao, if_neg hbo] at h; omega
  · intro x hx y hy hxy
    simp only [List.mem_map, List.mem_range] at hx hy
    obtain ⟨a, ha, rfl⟩ := hx
    obtain ⟨b, hb, rfl⟩ := hy
    unfold rowOut colOut at hxy
    have hia : a ∈ ops → ops.idxOf a < ops.length := idxOf_lt ops a
    by_cases hao : a ∈ ops <;> by_cases hbo : b ∈ ops
    · rw [if_pos hao, if_pos hbo] at hxy; have := hia hao; omega
    · rw [if_pos hao, if_neg hbo] at hxy; omega
    · rw [if_neg hao, if_pos hbo] at hxy; omega
    · rw [if_neg hao, if_neg hbo] at hxy; omega

def targetM (n : Nat) (ops : List Nat) : List Nat := ops ++ ops.map (n + ·)

theorem targetM_nodup (n : Nat) (ops : List Nat) (hnd : ops.Nodup) (hlt : ∀ p ∈ ops, p < n) :
    (targetM n ops).Nodup := by
  unfold targetM
  rw [List.nodup_append]
  refine ⟨hnd, ?_, ?_⟩
  · exact hnd.map (fun a b h => by omega)
  · intro x hx y hy hxy
    simp only [List.mem_map] at hy
    obtain ⟨q, hq, rfl⟩ := hy
    have := hlt x hx
    omega

theorem mem_targetM (n ops x) : x ∈ targetM n ops ↔ (x ∈ ops ∨ ∃ p ∈ ops, x = n + p) := by
  unfold targetM
  simp only [List.mem_append, List.mem_map]
  constructor
  · rintro (h | ⟨p, hp, rfl⟩); exact Or.inl h; exact Or.inr ⟨p, hp, rfl⟩
  · rintro (h | ⟨p, hp, rfl⟩); exact Or.inl h; exact Or.inr ⟨p, hp, rfl⟩

theorem summed_applyOperatorMatrix (n : Nat) (ops : List Nat) (hnd : ops.Nodup)
    (hlt : ∀ p ∈ ops, p < n) :
    (summedLabels (applyOperatorMatrix n ops).1 (applyOperatorMatrix n ops).2).Perm (targetM n ops) := by
  apply summedLabels_perm _ _ _ (targetM_nodup n ops hnd hlt)
  intro x
  show x ∈ targetM n ops ↔ (x ∈ [opL1 n ops, List.range (2 * n), opL2 n ops].flatten ∧ x ∉ outM n ops)
  rw [mem_targetM, mem_outM n ops hlt]
  simp only [List.flatten_cons, List.flatten_nil, List.append_nil, List.mem_append, opL1, opL2,
    List.mem_map, List.mem_range]
  constructor
  · rintro (hx | ⟨p, hp, rfl⟩)
    · have := hlt x hx
      refine ⟨Or.inl (Or.inr hx), ?_⟩
      rintro (⟨_, hm⟩ | ⟨p, _, rfl⟩ | ⟨q, _, _, rfl⟩ | ⟨p, _, rfl⟩)
      · exact hm hx
      · omega
      · omega
      · omega
    · have := hlt p hp
      refine ⟨Or.inr (Or.inr (Or.inr ⟨p, hp, rfl⟩)), ?_⟩
      rintro (⟨h1, _⟩ | ⟨p', _, h⟩ | ⟨q, _, hm, h⟩ | ⟨p', _, h⟩)
      · omega
      · omega
      · have : q = p := by omega
        subst this; exact hm hp
      · omega
  · rintro ⟨hfl, hno⟩
    rcases hfl with (⟨k, hk, rfl⟩ | hx) | hx | ⟨k, hk, rfl⟩ | ⟨p, hp, rfl⟩
    · exfalso; apply hno
      refine Or.inr (Or.inl ⟨ops[k], List.getElem_mem hk, ?_⟩)
      rw [List.Nodup.idxOf_getElem hnd]; omega
    · exact Or.inl hx
    · by_cases hxn : x < n
      · by_cases hm : x ∈ ops
        · exact Or.inl hm
        · exfalso; exact hno (Or.inl ⟨hxn, hm⟩)
      · by_cases hm : x - n ∈ ops
        · exact Or.inr ⟨x - n, hm, by omega⟩
        · exfalso; exact hno (Or.inr (Or.inr (Or.inl ⟨x - n, by omega, hm, by omega⟩)))
    · exfalso; apply hno
      refine Or.inr (Or.inr (Or.inr ⟨ops[k], List.getElem_mem hk, ?_⟩))
      rw [List.Nodup.idxOf_getElem hnd]; omega
    · exact Or.inr ⟨p, hp, rfl⟩

end PW
