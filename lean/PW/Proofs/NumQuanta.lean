import Mathlib.Tactic.Linarith
import PW.Decide
namespace PW.Decide

theorem lastNonzero_spec {α : Type} (nz : α → Bool) (v : List α) (q : Nat) (h : lastNonzero nz v = some q) :
    (∃ x, v[q]? = some x ∧ nz x = true) ∧ ∀ i x, q < i → v[i]? = some x → nz x = false := by
  unfold lastNonzero at h
  have hmem := List.mem_of_find?_eq_some h
  have hp := List.find?_some h
  constructor
  · cases hq : v[q]? with
    | none => rw [hq] at hp; simp at hp
    | some x => rw [hq] at hp; exact ⟨x, rfl, by simpa using hp⟩
  · intro i x hqi hix
    by_contra hnz
    have hnz' : nz x = true := by simpa using hnz
    have hi : i < v.length := by
      by_contra hlt
      rw [List.getElem?_eq_none (by omega)] at hix
      exact absurd hix (by simp)
    -- `i` comes before `q` in the reversed range and passes the test: `find?` would have returned it
    rw [List.find?_eq_some_iff_append] at h
    obtain ⟨_, as, bs, hsplit, hall⟩ := h
    have hiin : i ∈ (List.range v.length).reverse := by simp [hi]
    rw [hsplit] at hiin
    rcases List.mem_append.mp hiin with hia | hib
    · have := hall i hia
      simp [hix, hnz'] at this
    · rcases List.mem_cons.mp hib with rfl | hib'
      · omega
      · -- elements after `q` in the reversed range are smaller than `q`
        have hsorted : ((List.range v.length).reverse).Pairwise (· > ·) := by
          rw [List.pairwise_reverse]
          exact List.pairwise_lt_range.imp (fun h => h)
        rw [hsplit] at hsorted
        have := (List.pairwise_append.mp hsorted).2.1
        have := (List.pairwise_cons.mp this).1 i hib'
        omega

/-- **`num_quanta_vector` is the highest occupied level**: the amplitude there is not zero and every
amplitude above it is exactly zero -/
theorem numQuantaVector_spec {α : Type} (nz : α → Bool) (v : List α) (q : Nat) (h : numQuantaVector nz v = some q) :
    (∃ x, v[q]? = some x ∧ nz x = true) ∧ ∀ i x, q < i → v[i]? = some x → nz x = false :=
  lastNonzero_spec nz v q h

/-- a shrink that the decision rule allows cuts only amplitudes that are exactly zero -/
theorem allowed_shrink_cuts_only_zeros {α : Type} (nz : α → Bool) (v : List α) (q d : Nat)
    (hq : numQuantaVector nz v = some q) (hd : shrinkAllowed q d = true) :
    ∀ i x, d ≤ i → v[i]? = some x → nz x = false := by
  intro i x hdi hix
  have hlt : q < d := by simpa [shrinkAllowed] using hd
  exact (numQuantaVector_spec nz v q hq).2 i x (by omega) hix

example : numQuantaVector (fun (x : Int) => x != 0) [3, 0, -1, 0, 0] = some 2 := by decide
example : numQuantaMatrix (fun (x : Int) => x != 0) [[1, 0, 0], [0, 0, 2], [0, 0, 0]] = some 2 := by decide

end PW.Decide
