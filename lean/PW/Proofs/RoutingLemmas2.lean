import PW.Proofs.RoutingLemmas
/-! Frame lemmas for the remaining routed calls: channels, partial trace, POVM routing, resize,
measurement. -/
namespace PW.Routing
open PW.Layout

theorem envCombine_bystander (l : Layout) (f p : Nat) (b : Block) (hb : b ∈ l)
    (hf : f ∉ b.members) (hp : p ∉ b.members) : b ∈ envCombine l f p := by
  unfold envCombine
  split
  · apply List.mem_append_left
    rw [List.mem_filter]
    refine ⟨hb, ?_⟩
    have h1 : b.members ≠ [f] := fun h => hf (h ▸ List.mem_singleton.mpr rfl)
    have h2 : b.members ≠ [p] := fun h => hp (h ▸ List.mem_singleton.mpr rfl)
    simp [h1, h2]
  · exact hb

theorem meets_false_iff (T : List Nat) (b : Block) : meets T b = false ↔ ∀ t ∈ T, t ∉ b.members := by
  constructor
  · intro h t ht htb
    rw [meets_of_mem T b t ht htb] at h; exact Bool.noConfusion h
  · intro h
    unfold meets
    rw [Bool.eq_false_iff]
    intro hany
    rw [List.any_eq_true] at hany
    obtain ⟨x, hx, hxt⟩ := hany
    exact h x (by simpa using hxt) hx

theorem ceTraceOut_bystander (l : Layout) (c : Nat) (T : List Nat) (b : Block) (hb : b ∈ l)
    (hwf : (allMembers l).Nodup) (hm : meets T b = false) : b ∈ ceTraceOut l c T := by
  unfold ceTraceOut
  dsimp only
  split
  · exact reorder_bystander _ c T b (combine_bystander l c _ b hb (meets_append_members l c T b hb hwf hm)) hm
  · exact reorder_bystander l c T b hb hm

theorem cePovm_bystander (l : Layout) (c : Nat) (T : List Nat) (b : Block) (hb : b ∈ l)
    (hwf : (allMembers l).Nodup) (hm : meets T b = false) : b ∈ cePovm l c T := by
  unfold cePovm
  dsimp only
  apply reorder_bystander _ c T b _ hm
  split
  · exact combine_bystander l c _ b hb (meets_append_members l c T b hb hwf hm)
  · split
    · exact combine_bystander l c T b hb hm
    · exact hb

theorem actResize_bystander (l : Layout) (f : Nat) (shrink : Bool) (b : Block) (hb : b ∈ l) (hf : f ∉ b.members) :
    b ∈ actResize l f shrink := by
  unfold actResize
  split
  · exact reorder_bystander l _ [f] b hb (by rw [meets_singleton]; simpa using hf)
  · split
    · exact envOrder_bystander l [f] b hb (by simp) (by rw [meets_singleton]; simpa using hf)
    · exact hb

theorem actMeasure_bystander (l : Layout) (M surv : List Nat) (b : Block) (hb : b ∈ l)
    (hne : b.members ≠ []) (hm : ∀ x ∈ b.members, x ∉ M) : b ∈ actMeasure l M surv := by
  unfold actMeasure
  exact List.mem_append_left _ (removeMeasured_bystander l M b hb hne hm)

theorem envOrder_envCombine_bystander (l : Layout) (f p : Nat) (T : List Nat) (hT : T ≠ []) (b : Block)
    (hb : b ∈ l) (hf : f ∉ b.members) (hp : p ∉ b.members) (hm : meets T b = false) :
    b ∈ envOrder (envCombine l f p) T :=
  envOrder_bystander _ T b (envCombine_bystander l f p b hb hf hp) hT hm

/-- **Channels**: a block that holds none of the addressed subsystems is untouched by `apply_kraus`
through the composite envelope, whatever has to be joined, combined inside an envelope or reordered. -/
theorem ceKraus_bystander (i : Info) (l : Layout) (c : Nat) (T : List Nat) (b : Block) (hb : b ∈ l)
    (hwf : (allMembers l).Nodup) (hm : meets T b = false) : b ∈ ceKraus i l c T := by
  have hall := (meets_false_iff T b).mp hm
  have hgen : b ∈ reorder (combine l c T) c T :=
    reorder_bystander _ c T b (combine_bystander l c T b hb hm) hm
  unfold ceKraus
  dsimp only
  split
  · exact reorder_bystander _ c T b (combine_bystander l c _ b hb (meets_append_members l c T b hb hwf hm)) hm
  · split
    · rcases T with _ | ⟨t, _ | ⟨u, _ | ⟨v, rest⟩⟩⟩
      · exact hgen
      · exact memberFront_bystander l t true b hb (hall t (by simp))
      · dsimp only
        split
        · apply envOrder_envCombine_bystander _ _ _ _ (by simp) b hb _ _ hm
          · split <;> first | exact hall t (by simp) | exact hall u (by simp)
          · split <;> first | exact hall t (by simp) | exact hall u (by simp)
        · exact hgen
      · exact hgen
    · exact reorder_bystander l c T b hb hm

end PW.Routing
