import Mathlib.Data.List.Basic
import Mathlib.Data.List.Nodup
import PW.Layout
/-! Lemmas about the partition model. -/
namespace PW.Layout

theorem foldl_inv {α β : Type} (P : β → Prop) (f : β → α → β) (xs : List α) (init : β)
    (h0 : P init) (hstep : ∀ acc x, x ∈ xs → P acc → P (f acc x)) : P (xs.foldl f init) := by
  induction xs generalizing init with
  | nil => exact h0
  | cons x xs ih =>
    simp only [List.foldl_cons]
    apply ih
    · exact hstep init x List.mem_cons_self h0
    · intro acc y hy hp; exact hstep acc y (List.mem_cons_of_mem _ hy) hp

theorem meets_of_mem (T : List Nat) (b : Block) (t : Nat) (ht : t ∈ T) (hb : t ∈ b.members) :
    meets T b = true := by
  unfold meets
  rw [List.any_eq_true]
  exact ⟨t, hb, by simpa using ht⟩

/-- every collected block is a block of the layout and holds an addressed subsystem -/
theorem collected_sound (l : Layout) (c : Nat) (T : List Nat) :
    ∀ b ∈ collected l c T, b ∈ l ∧ meets T b = true := by
  unfold collected
  apply foldl_inv (fun acc : List Block => ∀ b ∈ acc, b ∈ l ∧ meets T b = true)
  · apply foldl_inv (fun acc : List Block => ∀ b ∈ acc, b ∈ l ∧ meets T b = true)
    · intro b hb; simp at hb
    · intro acc t ht hacc
      cases hf : l.find? (fun b => b.kind == .ps c && t ∈ b.members) with
      | none => simpa [hf] using hacc
      | some b0 =>
        simp only [hf]
        split
        · exact hacc
        · intro b hb
          rcases List.mem_append.mp hb with h | h
          · exact hacc b h
          · have hb0 : b = b0 := by simpa using h
            subst hb0
            have hm := List.mem_of_find?_eq_some hf
            have hp := List.find?_some hf
            simp only [Bool.and_eq_true, decide_eq_true_eq] at hp
            exact ⟨hm, meets_of_mem T b t ht hp.2⟩
  · intro acc t ht hacc
    split
    · exact hacc
    · cases hf : l.find? (fun b => t ∈ b.members) with
      | none => simpa [hf] using hacc
      | some b0 =>
        simp only [hf]
        intro b hb
        rcases List.mem_append.mp hb with h | h
        · exact hacc b h
        · have hb0 : b = b0 := by simpa using h
          subst hb0
          have hm := List.mem_of_find?_eq_some hf
          have hp := List.find?_some hf
          simp only [decide_eq_true_eq] at hp
          exact ⟨hm, meets_of_mem T b t ht hp⟩

/-- **Bystander blocks are untouched by a combine**: a block holding none of the addressed
subsystems is, as the same record (kind, members, order), a block of the new layout. -/
theorem combine_bystander (l : Layout) (c : Nat) (T : List Nat) (b : Block) (hb : b ∈ l)
    (hm : meets T b = false) : b ∈ combine l c T := by
  unfold combine
  split
  · exact hb
  · dsimp only
    split
    · exact hb
    · apply List.mem_append_left
      rw [List.mem_filter]
      refine ⟨hb, ?_⟩
      simp only [decide_eq_true_eq]
      intro hcol
      have := (collected_sound l c T b hcol).2
      rw [hm] at this; exact Bool.noConfusion this

/-- the only new block of a combine is made of collected blocks, i.e. of blocks that hold an
addressed subsystem: nothing else is ever joined -/
theorem combine_new_block (l : Layout) (c : Nat) (T : List Nat) (b : Block) (hb : b ∈ combine l c T) :
    b ∈ l ∨ (b.kind = .ps c ∧ ∀ x ∈ b.members, ∃ b0 ∈ l, meets T b0 = true ∧ x ∈ b0.members) := by
  unfold combine at hb
  split at hb
  · exact Or.inl hb
  · dsimp only at hb
    split at hb
    · exact Or.inl hb
    · rcases List.mem_append.mp hb with h | h
      · exact Or.inl (List.mem_filter.mp h).1
      · right
        have hbe : b = ⟨.ps c, ((collected l c T).map (·.members)).flatten⟩ := by simpa using h
        subst hbe
        refine ⟨rfl, ?_⟩
        intro x hx
        simp only [List.mem_flatten, List.mem_map] at hx
        obtain ⟨ms, ⟨b0, hb0, rfl⟩, hx⟩ := hx
        exact ⟨b0, (collected_sound l c T b0 hb0).1, (collected_sound l c T b0 hb0).2, hx⟩

/-- an action on a single subsystem that is not in a product space changes no block -/
theorem route_single_outside (l : Layout) (c t : Nat)
    (h : l.any (fun b => (match b.kind with | .ps _ => true | _ => false) && t ∈ b.members) = false) :
    route l c [t] = l := by
  show (if l.any (fun b => (match b.kind with | .ps _ => true | _ => false) && t ∈ b.members) = true
    then combine l c [t] else l) = l
  rw [h]; simp

/-- bystanders of any routed action are untouched -/
theorem route_bystander (l : Layout) (c : Nat) (T : List Nat) (b : Block) (hb : b ∈ l)
    (hm : meets T b = false) : b ∈ route l c T := by
  unfold route
  split
  · split
    · exact combine_bystander l c _ b hb hm
    · exact hb
  · exact combine_bystander l c T b hb hm

/-- measured subsystems leave their block and nothing else changes inside it -/
theorem removeMeasured_members (l : Layout) (M : List Nat) (b : Block) (hb : b ∈ removeMeasured l M) :
    ∃ b0 ∈ l, b.kind = b0.kind ∧ b.members = b0.members.filter (· ∉ M) ∧ b.members ≠ [] := by
  unfold removeMeasured at hb
  rw [List.mem_filter, List.mem_map] at hb
  obtain ⟨⟨b0, hb0, rfl⟩, hne⟩ := hb
  refine ⟨b0, hb0, rfl, rfl, ?_⟩
  simpa using hne

theorem removeMeasured_no_measured (l : Layout) (M : List Nat) (b : Block) (hb : b ∈ removeMeasured l M)
    (x : Nat) (hx : x ∈ b.members) : x ∉ M := by
  obtain ⟨b0, _, _, hmem, _⟩ := removeMeasured_members l M b hb
  rw [hmem, List.mem_filter] at hx
  simpa using hx.2

/-- a block without measured members survives a measurement unchanged -/
theorem removeMeasured_bystander (l : Layout) (M : List Nat) (b : Block) (hb : b ∈ l)
    (hne : b.members ≠ []) (hm : ∀ x ∈ b.members, x ∉ M) : b ∈ removeMeasured l M := by
  unfold removeMeasured
  rw [List.mem_filter, List.mem_map]
  have hf : b.members.filter (· ∉ M) = b.members := by
    rw [List.filter_eq_self]; intro x hx; simpa using hm x hx
  refine ⟨⟨b, hb, ?_⟩, ?_⟩
  · cases b; simp_all
  · simpa using hne

end PW.Layout
