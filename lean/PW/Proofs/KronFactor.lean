import Mathlib.Tactic.Ring
import Mathlib.Algebra.Star.Basic
import PW.Proofs.SumLabels
import PW.Proofs.Core
import PW.Spec
/-!
# Product operators factorise: `(A ⊗ B)` on `[p, q]` is `A` on `p` after `B` on `q`

This is the semantic content of "operator factor k acts on the k-th listed operand": for a product
operator the action on the ordered operand list `[p, q]` equals the two single-subsystem actions, the
first factor on `p` and the second on `q` — whatever the positions of `p` and `q` in the space.
-/
namespace PW
namespace Spec
variable {R : Type} [CommRing R] [StarRing R]

/-- `A ⊗ B` as an operator tensor with axes (row₁, row₂, col₁, col₂) -/
def kronOp (A B : Tensor R) : Tensor R := fun idx =>
  A [idx.getD 0 0, idx.getD 2 0] * B [idx.getD 1 0, idx.getD 3 0]

theorem subst_length (n : Nat) (T idx : List Nat) (f : Nat → Nat) : (subst n T idx f).length = n := by
  simp [subst]

theorem subst_getD (n : Nat) (T idx : List Nat) (f : Nat → Nat) (x : Nat) (hx : x < n) :
    (subst n T idx f).getD x 0 = if x ∈ T then f x else idx.getD x 0 := by
  unfold subst
  rw [List.getD_eq_getElem?_getD, List.getElem?_eq_getElem (by simpa using hx)]
  simp

theorem subst_subst (n p q : Nat) (idx : List Nat) (f g h : Nat → Nat) (hne : p ≠ q)
    (hp : h p = f p) (hq : h q = g q) :
    subst n [q] (subst n [p] idx f) g = subst n [p, q] idx h := by
  have hI : ∀ x, x < n → (subst n [p] idx f).getD x 0 = if x ∈ [p] then f x else idx.getD x 0 :=
    fun x hx => subst_getD n [p] idx f x hx
  generalize subst n [p] idx f = I at hI
  unfold subst
  apply List.map_congr_left
  intro x hx
  have hxn : x < n := List.mem_range.mp hx
  rw [hI x hxn]
  by_cases hxq : x = q
  · subst hxq; simp [hq]
  · by_cases hxp : x = p
    · subst hxp; simp [hxq, hp]
    · simp [hxq, hxp]

theorem applyOn_kron (dims : List Nat) (p q : Nat) (hp : p < dims.length) (hq : q < dims.length) (hne : p ≠ q)
    (A B ρ : Tensor R) (r c : List Nat) (hr : r.length = dims.length) (hc : c.length = dims.length) :
    applyOn dims [p, q] (kronOp A B) ρ (r ++ c) = applyOn dims [p] A (applyOn dims [q] B ρ) (r ++ c) := by
  have hlabels : ([p, q] ++ [p, q].map (dims.length + ·)).Perm ([p, dims.length + p] ++ [q, dims.length + q]) := by
    simp only [List.map_cons, List.map_nil, List.cons_append, List.nil_append]
    exact List.Perm.cons _ (List.Perm.swap _ _ _)
  have hnd : ([p, q] ++ [p, q].map (dims.length + ·)).Nodup := by
    simp only [List.map_cons, List.map_nil, List.cons_append, List.nil_append, List.nodup_cons, List.mem_cons,
      List.not_mem_nil, or_false, not_or, List.nodup_nil, and_true]
    refine ⟨⟨hne, by omega, by omega⟩, ⟨by omega, by omega⟩, by omega, not_false⟩
  unfold applyOn
  simp only [List.take_left' hr, List.drop_left' hr]
  rw [sumLabels_perm _ hlabels hnd, sumLabels_append]
  simp only [List.map_cons, List.map_nil, List.cons_append, List.nil_append]
  apply sumLabels_congr
  intro e
  have hr' : (subst dims.length [p] r e).length = dims.length := subst_length _ _ _ _
  rw [List.take_left' hr', List.drop_left' hr']
  have hrq : (subst dims.length [p] r e).getD q 0 = r.getD q 0 := by
    rw [subst_getD dims.length [p] r e q hq]; simp [Ne.symm hne]
  have hcq : (subst dims.length [p] c fun x => e (dims.length + x)).getD q 0 = c.getD q 0 := by
    rw [subst_getD dims.length [p] c _ q hq]; simp [Ne.symm hne]
  rw [hrq, hcq]
  have hA1 : ∀ ea : Env, (∀ l, l ∉ [q, dims.length + q] → ea l = e l) → A [r.getD p 0, ea p] = A [r.getD p 0, e p] := by
    intro ea h; rw [h p (by simp only [List.mem_cons, List.not_mem_nil, or_false, not_or]; omega)]
  have hA2 : ∀ ea : Env, (∀ l, l ∉ [q, dims.length + q] → ea l = e l) →
      star (A [c.getD p 0, ea (dims.length + p)]) = star (A [c.getD p 0, e (dims.length + p)]) := by
    intro ea h; rw [h (dims.length + p) (by simp only [List.mem_cons, List.not_mem_nil, or_false, not_or]; omega)]
  have hsplit : ∀ x : Env,
      kronOp A B [r.getD p 0, r.getD q 0, x p, x q] *
        ρ (subst dims.length [p, q] r x ++ subst dims.length [p, q] c fun y => x (dims.length + y)) *
        conj (kronOp A B [c.getD p 0, c.getD q 0, x (dims.length + p), x (dims.length + q)])
      = A [r.getD p 0, x p] * ((B [r.getD q 0, x q] *
          ρ (subst dims.length [p, q] r x ++ subst dims.length [p, q] c fun y => x (dims.length + y)) *
          star (B [c.getD q 0, x (dims.length + q)])) * star (A [c.getD p 0, x (dims.length + p)])) := by
    intro x
    simp only [kronOp, List.getD_cons_zero, List.getD_cons_succ, conj_eq_star, star_mul']
    ring
  rw [sumLabels_congr _ _ _ _ _ hsplit]
  rw [sumLabels_mul_left _ _ (fun x => A [r.getD p 0, x p]) _ e hA1]
  rw [sumLabels_mul_right _ _ _ (fun x => star (A [c.getD p 0, x (dims.length + p)])) e hA2]
  simp only [conj_eq_star]
  rw [mul_assoc]
  congr 2
  apply sumLabels_rel
  intro ea eb hab ha hb
  have e1 : ea q = eb q := hab q (by simp)
  have e2 : ea (dims.length + q) = eb (dims.length + q) := hab (dims.length + q) (by simp)
  have e3 : ea p = e p := ha p (by simp only [List.mem_cons, List.not_mem_nil, or_false, not_or]; omega)
  have e4 : ea (dims.length + p) = e (dims.length + p) :=
    ha (dims.length + p) (by simp only [List.mem_cons, List.not_mem_nil, or_false, not_or]; omega)
  rw [subst_subst dims.length p q r e eb ea hne e3 e1,
    subst_subst dims.length p q c (fun x => e (dims.length + x)) (fun x => eb (dims.length + x)) (fun y => ea (dims.length + y)) hne e4 e2, e1, e2]


/-- the operator with its two operand axes exchanged -/
def swapOp (O : Tensor R) : Tensor R := fun idx => O [idx.getD 1 0, idx.getD 0 0, idx.getD 3 0, idx.getD 2 0]

theorem subst_swap (n p q : Nat) (idx : List Nat) (f : Nat → Nat) : subst n [q, p] idx f = subst n [p, q] idx f := by
  unfold subst
  apply List.map_congr_left
  intro x _
  by_cases h1 : x = p <;> by_cases h2 : x = q <;> simp [h1, h2]

/-- **operand order and operator axes go together**: listing the operands in the other order with
the operator's axes exchanged is the same action -/
theorem applyOn_swap (dims : List Nat) (p q : Nat) (hp : p < dims.length) (hq : q < dims.length) (hne : p ≠ q)
    (O ρ : Tensor R) (rc : List Nat) :
    applyOn dims [q, p] (swapOp O) ρ rc = applyOn dims [p, q] O ρ rc := by
  have hlabels : ([q, p] ++ [q, p].map (dims.length + ·)).Perm ([p, q] ++ [p, q].map (dims.length + ·)) := by
    simp only [List.map_cons, List.map_nil, List.cons_append, List.nil_append]
    exact (List.Perm.swap _ _ _).trans (List.Perm.cons _ (List.Perm.cons _ (List.Perm.swap _ _ _)))
  have hnd : ([q, p] ++ [q, p].map (dims.length + ·)).Nodup := by
    simp only [List.map_cons, List.map_nil, List.cons_append, List.nil_append, List.nodup_cons, List.mem_cons,
      List.not_mem_nil, or_false, not_or, List.nodup_nil, and_true]
    refine ⟨⟨Ne.symm hne, by omega, by omega⟩, ⟨by omega, by omega⟩, by omega, not_false⟩
  unfold applyOn
  dsimp only
  rw [sumLabels_perm _ hlabels hnd]
  apply sumLabels_congr
  intro e
  rw [subst_swap dims.length p q, subst_swap dims.length p q]
  simp [swapOp]

omit [StarRing R] in
theorem swapOp_kronOp (A B : Tensor R) : swapOp (kronOp A B) = kronOp B A := by
  funext idx
  simp only [swapOp, kronOp, List.getD_cons_zero, List.getD_cons_succ]
  ring

/-- **operations on different subsystems commute** -/
theorem applyOn_comm (dims : List Nat) (p q : Nat) (hp : p < dims.length) (hq : q < dims.length) (hne : p ≠ q)
    (A B ρ : Tensor R) (r c : List Nat) (hr : r.length = dims.length) (hc : c.length = dims.length) :
    applyOn dims [p] A (applyOn dims [q] B ρ) (r ++ c) = applyOn dims [q] B (applyOn dims [p] A ρ) (r ++ c) := by
  rw [← applyOn_kron dims p q hp hq hne A B ρ r c hr hc, ← applyOn_kron dims q p hq hp (Ne.symm hne) B A ρ r c hr hc,
    ← swapOp_kronOp A B, applyOn_swap dims p q hp hq hne]

end Spec
end PW
