import Mathlib.Tactic.Ring
import Mathlib.Algebra.BigOperators.Group.List.Basic
import PW.Proofs.Grid
import PW.Proofs.SumLabels
/-!
# Sequential measurements: the joint distribution does not depend on the order

`prob dims p₂ (projectOn dims p₁ o₁ ρ) o₂` — the (unnormalised) weight of "subsystem p₁ gave o₁, then
subsystem p₂ gave o₂" — equals the sum of the joint diagonal over all other coordinates with p₁, p₂
pinned to o₁, o₂.  That expression is symmetric, so measuring in the other order gives the same
joint weights.
-/
namespace PW
namespace Spec
variable {R : Type} [CommRing R]

/-- summing an indicator on a label not among the summed ones -/
theorem sumLabels_indicator (dimOf) (ls : List Nat) (a o : Nat) (ha : a ∉ ls) (F : Env → R) (e : Env) :
    sumLabels dimOf ls (fun e' => if e' a = o then F e' else 0) e
      = if e a = o then sumLabels dimOf ls F e else 0 := by
  induction ls generalizing e with
  | nil => rfl
  | cons b ls ih =>
    have hab : a ≠ b := fun h => ha (h ▸ List.mem_cons_self)
    have ha' : a ∉ ls := fun h => ha (List.mem_cons_of_mem _ h)
    simp only [sumLabels]
    have : ∀ i, (upd e b i) a = e a := fun i => by simp [upd, hab]
    by_cases h : e a = o
    · simp only [h, if_true]
      congr 1
      apply List.map_congr_left
      intro i _
      rw [ih ha', this, if_pos h]
    · simp only [h, if_false]
      have : ∀ i ∈ List.range (dimOf b), sumLabels dimOf ls (fun e' => if e' a = o then F e' else 0) (upd e b i) = 0 := by
        intro i _
        rw [ih ha', this, if_neg h]
      rw [List.map_congr_left this]
      simp

theorem sum_range_indicator (d o : Nat) (ho : o < d) (g : Nat → R) :
    ((List.range d).map fun i => if i = o then g i else 0).sum = g o := by
  induction d with
  | zero => omega
  | succ d ih =>
    rw [List.range_succ, List.map_append, List.sum_append]
    by_cases h : o = d
    · subst h
      have : ∀ i ∈ List.range o, (if i = o then g i else 0) = (0 : R) := by
        intro i hi; rw [if_neg]; have := List.mem_range.mp hi; omega
      rw [List.map_congr_left this]
      simp
    · rw [ih (by omega)]
      simp [Ne.symm h]

/-- pinning a summed label by an indicator -/
theorem sumLabels_pin (dimOf) (ls : List Nat) (a o : Nat) (ha : a ∉ ls) (ho : o < dimOf a) (F : Env → R) (e : Env) :
    sumLabels dimOf (a :: ls) (fun e' => if e' a = o then F e' else 0) e = sumLabels dimOf ls F (upd e a o) := by
  simp only [sumLabels]
  have : ∀ i, sumLabels dimOf ls (fun e' => if e' a = o then F e' else 0) (upd e a i)
      = if i = o then sumLabels dimOf ls F (upd e a i) else 0 := by
    intro i
    rw [sumLabels_indicator dimOf ls a o ha]
    simp [upd]
  rw [List.map_congr_left (fun i _ => this i)]
  exact sum_range_indicator (dimOf a) o ho (fun i => sumLabels dimOf ls F (upd e a i))

/-- the list of positions other than `p₂` is `p₁` followed by the positions other than both -/
theorem rest_perm (n p₁ p₂ : Nat) (h1 : p₁ < n) (hne : p₁ ≠ p₂) :
    ((List.range n).filter fun p => decide (p ∉ [p₂])).Perm
      (p₁ :: (List.range n).filter fun p => decide (p ∉ [p₁, p₂])) := by
  have hnd : ((List.range n).filter fun p => decide (p ∉ [p₂])).Nodup := List.Nodup.filter _ List.nodup_range
  have hmem : p₁ ∈ (List.range n).filter fun p => decide (p ∉ [p₂]) := by
    simp [List.mem_filter, h1, hne]
  refine (List.perm_cons_erase hmem).trans ?_
  apply List.Perm.cons
  rw [hnd.erase_eq_filter, List.filter_filter]
  apply List.Perm.of_eq
  apply List.filter_congr
  intro x _
  by_cases hx1 : x = p₁ <;> by_cases hx2 : x = p₂ <;> simp [hx1, hx2, hne]

/-- the joint weight of outcomes `o₁, o₂` at positions `p₁, p₂` -/
def jointWeight (dims : List Nat) (p₁ p₂ o₁ o₂ : Nat) (ρ : Tensor R) : R :=
  let n := dims.length
  sumLabels (dimOf2 dims) ((List.range n).filter fun p => decide (p ∉ [p₁, p₂]))
    (fun e => ρ ((List.range n).map (fun p => if p = p₁ then o₁ else if p = p₂ then o₂ else e p) ++
                 (List.range n).map (fun p => if p = p₁ then o₁ else if p = p₂ then o₂ else e p))) (fun _ => 0)

theorem scatter_single_eq (n p o : Nat) (a : List Nat) (ha : a.head? = some o) (e : Env) :
    scatter n [p] a e = (List.range n).map fun q => if q = p then o else e q := by
  unfold scatter
  apply List.map_congr_left
  intro q _
  by_cases h : q = p
  · subst h
    cases a with
    | nil => simp at ha
    | cons x xs => simp at ha; simp [ha]
  · simp [h]

theorem prob_after_projectOn (dims : List Nat) (p₁ p₂ o₁ o₂ : Nat) (h1 : p₁ < dims.length) (h2 : p₂ < dims.length)
    (hne : p₁ ≠ p₂) (ho₁ : o₁ < dims.getD p₁ 0) (ρ : Tensor R) :
    prob dims p₂ (projectOn dims p₁ o₁ ρ) o₂ = jointWeight dims p₁ p₂ o₁ o₂ ρ := by
  unfold prob reduceTo jointWeight
  dsimp only
  have hbody : ∀ e : Env, projectOn dims p₁ o₁ ρ
      (scatter dims.length [p₂] (List.take [p₂].length [o₂, o₂]) e ++ scatter dims.length [p₂] (List.drop [p₂].length [o₂, o₂]) e)
      = if e p₁ = o₁ then ρ ((List.range dims.length).map (fun q => if q = p₂ then o₂ else e q) ++
                             (List.range dims.length).map (fun q => if q = p₂ then o₂ else e q)) else 0 := by
    intro e
    rw [scatter_single_eq dims.length p₂ o₂ _ (by rfl) e, scatter_single_eq dims.length p₂ o₂ _ (by rfl) e]
    unfold projectOn
    dsimp only
    have hl : ((List.range dims.length).map fun q => if q = p₂ then o₂ else e q).length = dims.length := by simp
    rw [List.take_left' hl, List.drop_left' hl]
    have hg : ((List.range dims.length).map fun q => if q = p₂ then o₂ else e q).getD p₁ 0 = e p₁ := by
      rw [List.getD_eq_getElem?_getD, List.getElem?_eq_getElem (by simpa using h1)]
      simp [hne]
    rw [hg]
    simp
  rw [sumLabels_congr _ _ _ _ _ hbody]
  have hnd : ((List.range dims.length).filter fun p => decide (p ∉ [p₂])).Nodup := List.Nodup.filter _ List.nodup_range
  rw [sumLabels_perm _ (rest_perm dims.length p₁ p₂ h1 hne) hnd]
  have hnot : p₁ ∉ (List.range dims.length).filter fun p => decide (p ∉ [p₁, p₂]) := by simp [List.mem_filter]
  have hdim : o₁ < dimOf2 dims p₁ := by unfold dimOf2; rw [if_pos h1]; exact ho₁
  rw [sumLabels_pin _ _ p₁ o₁ hnot hdim]
  apply sumLabels_rel
  intro ea eb hab ha hb
  have hlist : ((List.range dims.length).map fun q => if q = p₂ then o₂ else ea q)
      = (List.range dims.length).map fun p => if p = p₁ then o₁ else if p = p₂ then o₂ else eb p := by
    apply List.map_congr_left
    intro q hq
    by_cases hq2 : q = p₂
    · subst hq2; simp [Ne.symm hne]
    · by_cases hq1 : q = p₁
      · subst hq1
        have := ha q hnot
        simp [hq2, this, upd]
      · have hqm : q ∈ (List.range dims.length).filter fun p => decide (p ∉ [p₁, p₂]) := by
          simp [List.mem_filter, List.mem_range.mp hq, hq1, hq2]
        simp [hq1, hq2, hab q hqm]
  rw [hlist]

theorem jointWeight_symm (dims : List Nat) (p₁ p₂ o₁ o₂ : Nat) (hne : p₁ ≠ p₂) (ρ : Tensor R) :
    jointWeight dims p₁ p₂ o₁ o₂ ρ = jointWeight dims p₂ p₁ o₂ o₁ ρ := by
  unfold jointWeight
  dsimp only
  have hf : ((List.range dims.length).filter fun p => decide (p ∉ [p₁, p₂]))
      = (List.range dims.length).filter fun p => decide (p ∉ [p₂, p₁]) := by
    apply List.filter_congr
    intro x _
    by_cases hx1 : x = p₁ <;> by_cases hx2 : x = p₂ <;> simp [hx1, hx2]
  rw [hf]
  apply sumLabels_congr
  intro e
  have : ((List.range dims.length).map fun p => if p = p₁ then o₁ else if p = p₂ then o₂ else e p)
      = (List.range dims.length).map fun p => if p = p₂ then o₂ else if p = p₁ then o₁ else e p := by
    apply List.map_congr_left
    intro q _
    by_cases hq1 : q = p₁ <;> by_cases hq2 : q = p₂
    · exact absurd (hq1.symm.trans hq2) hne
    · subst hq1; simp [hne]
    · subst hq2; simp [Ne.symm hne]
    · simp [hq1, hq2]
  rw [this]

/-- **order of measurement is irrelevant for the joint distribution** -/
theorem measurement_order_irrelevant (dims : List Nat) (p₁ p₂ o₁ o₂ : Nat) (h1 : p₁ < dims.length) (h2 : p₂ < dims.length)
    (hne : p₁ ≠ p₂) (ho₁ : o₁ < dims.getD p₁ 0) (ho₂ : o₂ < dims.getD p₂ 0) (ρ : Tensor R) :
    prob dims p₂ (projectOn dims p₁ o₁ ρ) o₂ = prob dims p₁ (projectOn dims p₂ o₂ ρ) o₁ := by
  rw [prob_after_projectOn dims p₁ p₂ o₁ o₂ h1 h2 hne ho₁, prob_after_projectOn dims p₂ p₁ o₂ o₁ h2 h1 (Ne.symm hne) ho₂,
    jointWeight_symm dims p₁ p₂ o₁ o₂ hne]

/-- a grid sum is a label sum over consecutive labels -/
theorem sumGrid_eq_sumLabels_aux (ds : List Nat) (k : Nat) (D : Nat → Nat)
    (hD : ∀ j, j < ds.length → D (k + j) = ds.getD j 0) (g : List Nat → R) (e : Env) :
    sumGrid ds g = sumLabels D (List.range' k ds.length) (fun e' => g ((List.range' k ds.length).map e')) e := by
  induction ds generalizing k g e with
  | nil => simp [sumGrid, sumLabels]
  | cons d ds ih =>
    have hk : D k = d := by simpa using hD 0 (by simp)
    simp only [sumGrid, List.length_cons, List.range'_succ, sumLabels, hk]
    congr 1
    apply List.map_congr_left
    intro i _
    rw [ih (k + 1) (fun j hj => by
      have := hD (j + 1) (by simpa using hj)
      rw [show k + 1 + j = k + (j + 1) by omega, this]; simp) (fun κ => g (i :: κ)) (upd e k i)]
    apply sumLabels_rel
    intro ea eb hab ha _
    have hk' : k ∉ List.range' (k + 1) ds.length := by rw [List.mem_range'_1]; omega
    have h1 : eb k = i := by
      have hb' := ‹∀ l, l ∉ List.range' (k + 1) ds.length → eb l = upd e k i l› k hk'
      simpa [upd] using hb'
    have h2 : (List.range' (k + 1) ds.length).map ea = (List.range' (k + 1) ds.length).map eb :=
      List.map_congr_left (fun l hl => hab l hl)
    simp only [List.map_cons, h1, h2]

theorem trace_eq_sumLabels (dims : List Nat) (ρ : Tensor R) (e : Env) :
    trace dims ρ = sumLabels (dimOf2 dims) (List.range dims.length)
      (fun e' => ρ ((List.range dims.length).map e' ++ (List.range dims.length).map e')) e := by
  unfold trace
  rw [sumGrid_eq_sumLabels_aux dims 0 (dimOf2 dims) (fun j hj => by unfold dimOf2; simp [hj]) _ e]
  simp [List.range_eq_range']

/-- **the Born weights of one subsystem add up to the trace** (so for a unit-trace state they are a
probability distribution) -/
theorem prob_sum_eq_trace (dims : List Nat) (p : Nat) (hp : p < dims.length) (ρ : Tensor R) :
    ((List.range (dims.getD p 0)).map fun o => prob dims p ρ o).sum = trace dims ρ := by
  rw [trace_eq_sumLabels dims ρ (fun _ => 0)]
  have hperm : (p :: (List.range dims.length).filter fun q => decide (q ∉ [p])).Perm (List.range dims.length) := by
    have hmem : p ∈ List.range dims.length := List.mem_range.mpr hp
    refine List.Perm.trans ?_ (List.perm_cons_erase hmem).symm
    apply List.Perm.cons
    rw [List.nodup_range.erase_eq_filter]
    apply List.Perm.of_eq
    apply List.filter_congr
    intro x _
    by_cases hx : x = p <;> simp [hx]
  have hnd : (p :: (List.range dims.length).filter fun q => decide (q ∉ [p])).Nodup := by
    rw [List.nodup_cons]
    exact ⟨by simp [List.mem_filter], List.Nodup.filter _ List.nodup_range⟩
  rw [← sumLabels_perm _ hperm hnd]
  simp only [sumLabels]
  have hd : dimOf2 dims p = dims.getD p 0 := by unfold dimOf2; rw [if_pos hp]
  rw [hd]
  congr 1
  apply List.map_congr_left
  intro o _
  unfold prob reduceTo
  dsimp only
  apply sumLabels_rel
  intro ea eb hab ha hb
  have hnot : p ∉ (List.range dims.length).filter fun q => decide (q ∉ [p]) := by simp [List.mem_filter]
  have hbp : eb p = o := by simpa [upd] using hb p hnot
  have hl : ∀ a : List Nat, a.head? = some o →
      scatter dims.length [p] a ea = (List.range dims.length).map eb := by
    intro a hhead
    unfold scatter
    apply List.map_congr_left
    intro q hq
    by_cases hqp : q = p
    · subst hqp
      cases a with
      | nil => simp at hhead
      | cons x xs => simp at hhead; simp [hhead, hbp]
    · have : q ∈ (List.range dims.length).filter fun q => decide (q ∉ [p]) := by
        simp [List.mem_filter, List.mem_range.mp hq, hqp]
      simp [hqp, hab q this]
  rw [hl _ (by rfl), hl _ (by rfl)]

end Spec
end PW
