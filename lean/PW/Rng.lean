/-!
# The PRNG key discipline of `photon_weave.photon_weave.Config` (Mathlib-free)

`Config.random_key` does `key, self._key = jax.random.split(self._key)` and returns `key`;
`set_seed` resets `_key` to `PRNGKey(seed)`.  Keys are modelled as paths in the binary split
tree.  Assumed of JAX (trusted): keys at distinct paths below one root are distinct and
statistically independent.
-/
namespace PW.Rng

inductive Key where
  | root (seed : Nat)
  | left (k : Key)
  | right (k : Key)
deriving DecidableEq, Repr

/-- the process-wide configuration: only the current key matters here -/
structure Cfg where
  key : Key
deriving DecidableEq, Repr

def setSeed (_ : Cfg) (seed : Nat) : Cfg := ⟨.root seed⟩

/-- one read of `Config.random_key`: returns the key handed to the sampler and the new config -/
def randomKey (c : Cfg) : Key × Cfg := (.left c.key, ⟨.right c.key⟩)

/-- `n` consecutive reads -/
def draws : Nat → Cfg → List Key × Cfg
  | 0, c => ([], c)
  | n + 1, c =>
    let (k, c') := randomKey c
    let (ks, c'') := draws n c'
    (k :: ks, c'')

def iterRight : Nat → Key → Key
  | 0, k => k
  | n + 1, k => iterRight n (.right k)

/-- the key of the `n`-th draw after seeding with `seed` -/
def nthKey (seed n : Nat) : Key := .left (iterRight n (.root seed))

/-- path of a key as a string of L/R from the root (for the driver) -/
def path : Key → String
  | .root _ => ""
  | .left k => path k ++ "L"
  | .right k => path k ++ "R"

def depth : Key → Nat
  | .root _ => 0
  | .left k => depth k + 1
  | .right k => depth k + 1

end PW.Rng
