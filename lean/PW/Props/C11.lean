import Mathlib.Analysis.Normed.Algebra.MatrixExponential
import Mathlib.LinearAlgebra.UnitaryGroup
import Mathlib.LinearAlgebra.Matrix.Trace
/-!
# C11 — passive linear optics conserves photon number

Matrices over ℂ on the truncated two-mode space `Fin d₀ × Fin d₁` (any cutoffs).  The beam-splitter
generator `G = a ⊗ b† + a† ⊗ b` (as in `CompositeOperationType.compute_operator`) has non-zero
entries only between basis states of equal total photon number, hence commutes with every
diagonal function `D_f` of the total number — in particular with the projector on total number
`N`.  Therefore `U = exp(iηG)` commutes with `D_f` (`Commute.exp_right`), `U` is unitary (`G` is
Hermitian, `iηG` skew-Hermitian), and `Tr(D_f U ρ U†) = Tr(D_f ρ)` for every state `ρ`, every real
`η` and every `f`: the distribution of the total photon number is unchanged.  The same holds for
the (diagonal) phase shifter.
-/
open Matrix NormedSpace

namespace PW.Props.C11

variable {n : Type} [Fintype n] [DecidableEq n]

/-- exp of a skew-Hermitian complex matrix is unitary -/
theorem exp_skew_unitary (G : Matrix n n ℂ) (hG : Gᴴ = -G) : (exp G)ᴴ * exp G = 1 := by
  rw [← Matrix.exp_conjTranspose, hG, Matrix.exp_neg]
  exact Matrix.nonsing_inv_mul _ ((Matrix.isUnit_iff_isUnit_det _).mp (Matrix.isUnit_exp G))

/-- if `G` commutes with `P` then so does `exp G` -/
theorem exp_commute (G P : Matrix n n ℂ) (h : Commute G P) : Commute (exp G) P := by
  letI : NormedRing (Matrix n n ℂ) := Matrix.linftyOpNormedRing
  letI : NormedAlgebra ℂ (Matrix n n ℂ) := Matrix.linftyOpNormedAlgebra
  exact (h.symm.exp_right).symm

/-- **Conservation.** If the unitary `U` commutes with the observable `P`, the expectation of `P`
is the same before and after: `Tr(P U ρ U†) = Tr(P ρ)`. -/
theorem expectation_conserved (U P ρ : Matrix n n ℂ) (hU : Uᴴ * U = 1) (hc : Commute U P) :
    trace (P * (U * ρ * Uᴴ)) = trace (P * ρ) := by
  have h1 : P * (U * ρ * Uᴴ) = (P * U * ρ) * Uᴴ := by simp only [Matrix.mul_assoc]
  rw [h1, Matrix.trace_mul_comm, ← Matrix.mul_assoc, ← Matrix.mul_assoc]
  have h2 : Uᴴ * P * U = P := by
    rw [Matrix.mul_assoc, ← hc.eq, ← Matrix.mul_assoc, hU, Matrix.one_mul]
  rw [h2]

section beamsplitter
variable (d₀ d₁ : ℕ)

/-- annihilation operator at cutoff `d` : `a[r, c] = √c` if `c = r + 1` -/
noncomputable def ann (d : ℕ) : Matrix (Fin d) (Fin d) ℂ :=
  fun r c => if (c : ℕ) = r + 1 then (Real.sqrt c : ℂ) else 0

/-- creation operator: the transpose -/
noncomputable def cre (d : ℕ) : Matrix (Fin d) (Fin d) ℂ := fun r c => ann d c r

/-- the beam-splitter generator on the two-mode space -/
noncomputable def bsGen : Matrix (Fin d₀ × Fin d₁) (Fin d₀ × Fin d₁) ℂ :=
  fun x y => ann d₀ x.1 y.1 * cre d₁ x.2 y.2 + cre d₀ x.1 y.1 * ann d₁ x.2 y.2

/-- a diagonal function of the total photon number -/
noncomputable def totalFn (f : ℕ → ℂ) : Matrix (Fin d₀ × Fin d₁) (Fin d₀ × Fin d₁) ℂ :=
  Matrix.diagonal fun x => f ((x.1 : ℕ) + (x.2 : ℕ))

theorem star_ann (d : ℕ) (r c : Fin d) : star (ann d r c) = ann d r c := by
  unfold ann; split <;> simp [Complex.conj_ofReal]

/-- the generator only connects states of equal total photon number -/
theorem bsGen_support (x y : Fin d₀ × Fin d₁) (h : bsGen d₀ d₁ x y ≠ 0) :
    (x.1 : ℕ) + x.2 = (y.1 : ℕ) + y.2 := by
  by_contra hne
  apply h
  have hA : ann d₀ x.1 y.1 * cre d₁ x.2 y.2 = 0 := by
    unfold cre ann
    by_cases a1 : (y.1 : ℕ) = x.1 + 1
    · by_cases a2 : (x.2 : ℕ) = y.2 + 1
      · omega
      · simp [a2]
    · simp [a1]
  have hB : cre d₀ x.1 y.1 * ann d₁ x.2 y.2 = 0 := by
    unfold cre ann
    by_cases a1 : (x.1 : ℕ) = y.1 + 1
    · by_cases a2 : (y.2 : ℕ) = x.2 + 1
      · omega
      · simp [a2]
    · simp [a1]
  unfold bsGen
  rw [hA, hB, add_zero]

/-- the generator commutes with every diagonal function of the total photon number -/
theorem bsGen_commutes_total (f : ℕ → ℂ) : Commute (bsGen d₀ d₁) (totalFn d₀ d₁ f) := by
  unfold Commute SemiconjBy totalFn
  ext x y
  rw [Matrix.mul_diagonal, Matrix.diagonal_mul]
  by_cases h : bsGen d₀ d₁ x y = 0
  · simp [h]
  · rw [bsGen_support d₀ d₁ x y h]; ring

/-- the generator is Hermitian (real symmetric) -/
theorem bsGen_hermitian : (bsGen d₀ d₁)ᴴ = bsGen d₀ d₁ := by
  ext x y
  rw [Matrix.conjTranspose_apply]
  unfold bsGen cre
  rw [star_add, star_mul', star_mul', star_ann, star_ann, star_ann, star_ann]
  ring

/-- the beam-splitter unitary `exp(iηG)` -/
noncomputable def bsU (η : ℝ) : Matrix (Fin d₀ × Fin d₁) (Fin d₀ × Fin d₁) ℂ :=
  exp ((Complex.I * (η : ℂ)) • bsGen d₀ d₁)

theorem bsU_unitary (η : ℝ) : (bsU d₀ d₁ η)ᴴ * bsU d₀ d₁ η = 1 := by
  apply exp_skew_unitary
  rw [Matrix.conjTranspose_smul, bsGen_hermitian]
  simp [star_mul', Complex.conj_ofReal]

/-- **Beam splitter.** For every pair of cutoffs, every mixing angle, every state and every function
`f` of the total photon number: the expectation of `f(N₁ + N₂)` is unchanged — the probability
distribution of the total photon number is conserved. -/
theorem beam_splitter_conserves_total_number (η : ℝ) (f : ℕ → ℂ)
    (ρ : Matrix (Fin d₀ × Fin d₁) (Fin d₀ × Fin d₁) ℂ) :
    trace (totalFn d₀ d₁ f * (bsU d₀ d₁ η * ρ * (bsU d₀ d₁ η)ᴴ)) = trace (totalFn d₀ d₁ f * ρ) := by
  apply expectation_conserved _ _ _ (bsU_unitary d₀ d₁ η)
  apply exp_commute
  exact ((bsGen_commutes_total d₀ d₁ f).smul_left _)

end beamsplitter

/-- **Phase shifter.** A diagonal unitary commutes with every diagonal observable, in particular
with every function of the photon number. -/
theorem phase_shifter_conserves_number (d : ℕ) (ph f : Fin d → ℂ) (hu : ∀ k, star (ph k) * ph k = 1)
    (ρ : Matrix (Fin d) (Fin d) ℂ) :
    trace (Matrix.diagonal f * (Matrix.diagonal ph * ρ * (Matrix.diagonal ph)ᴴ)) = trace (Matrix.diagonal f * ρ) := by
  apply expectation_conserved
  · rw [Matrix.diagonal_conjTranspose, Matrix.diagonal_mul_diagonal]
    have : (fun i => star (ph i) * ph i) = fun _ => 1 := by funext k; exact hu k
    rw [show (fun i => star ph i * ph i) = fun i => star (ph i) * ph i from rfl, this]
    exact Matrix.diagonal_one
  · unfold Commute SemiconjBy
    rw [Matrix.diagonal_mul_diagonal, Matrix.diagonal_mul_diagonal]
    congr 1; funext k; ring

end PW.Props.C11

#print axioms PW.Props.C11.exp_skew_unitary
#print axioms PW.Props.C11.exp_commute
#print axioms PW.Props.C11.expectation_conserved
#print axioms PW.Props.C11.bsGen_support
#print axioms PW.Props.C11.bsGen_commutes_total
#print axioms PW.Props.C11.bsGen_hermitian
#print axioms PW.Props.C11.bsU_unitary
#print axioms PW.Props.C11.beam_splitter_conserves_total_number
#print axioms PW.Props.C11.phase_shifter_conserves_number
