import Mathlib.Analysis.Normed.Algebra.MatrixExponential
import Mathlib.LinearAlgebra.UnitaryGroup
import Mathlib.LinearAlgebra.Matrix.Trace
import PW.Proofs.MZI
/-!
# C11 — passive linear optics conserves photon number

Matrices over ℂ on the truncated two-mode space `Fin d₀ × Fin d₁` (any cutoffs).  The beam-splitter
generator `G = a ⊗ b† + a† ⊗ b` (as in `CompositeOperationType.compute_operator`) has non-zero
entries only between basis states of equal total photon number, hence commutes with every
diagonal function `D_f` of the total number — in particular with the projector on total number
`N`.  Therefore `U = exp(iηG)` commutes with `D_f` (`Commute.exp_right`), `U` is unitary (`G` is
Hermitian, `iηG` skew-Hermitian), and `Tr(D_f U ρ U†) = Tr(D_f ρ)` for every state `ρ`, every real
`η` and every `f`: the distribution of the total photon number is unchanged.  The same holds for
the (diagonal) phase shifter.
-/
open Matrix NormedSpace

namespace PW.Props.C11

variable {n : Type} [Fintype n] [DecidableEq n]

/-- exp of a skew-Hermitian complex matrix is unitary -/
theorem exp_skew_unitary (G : Matrix n n ℂ) (hG : Gᴴ = -G) : (exp G)ᴴ * exp G = 1 := by
  rw [← Matrix.exp_conjTranspose, hG, Matrix.exp_neg]
  exact Matrix.nonsing_inv_mul _ ((Matrix.isUnit_iff_isUnit_det _).mp (Matrix.isUnit_exp G))

/-- if `G` commutes with `P` then so does `exp G` -/
theorem exp_commute (G P : Matrix n n ℂ) (h : Commute G P) : Commute (exp G) P := by
  letI : NormedRing (Matrix n n ℂ) := Matrix.linftyOpNormedRing
  letI : NormedAlgebra ℂ (Matrix n n ℂ) := Matrix.linftyOpNormedAlgebra
  exact (h.symm.exp_right).symm

/-- **Conservation.** If the unitary `U` commutes with the observable `P`, the expectation of `P`
is the same before and after: `Tr(P U ρ U†) = Tr(P ρ)`. -/
theorem expectation_conserved (U P ρ : Matrix n n ℂ) (hU : Uᴴ * U = 1) (hc : Commute U P) :
    trace (P * (U * ρ * Uᴴ)) = trace (P * ρ) := by
  have h1 : P * (U * ρ * Uᴴ) = (P * U * ρ) * Uᴴ := by simp only [Matrix.mul_assoc]
  rw [h1, Matrix.trace_mul_comm, ← Matrix.mul_assoc, ← Matrix.mul_assoc]
  have h2 : Uᴴ * P * U = P := by
    rw [Matrix.mul_assoc, ← hc.eq, ← Matrix.mul_assoc, hU, Matrix.one_mul]
  rw [h2]

section beamsplitter
variable (d₀ d₁ : ℕ)

/-- annihilation operator at cutoff `d` : `a[r, c] = √c` if `c = r + 1` -/
noncomputable def ann (d : ℕ) : Matrix (Fin d) (Fin d) ℂ :=
  fun r c => if (c : ℕ) = r + 1 then (Real.sqrt c : ℂ) else 0

/-- creation operator: the transpose -/
noncomputable def cre (d : ℕ) : Matrix (Fin d) (Fin d) ℂ := fun r c => ann d c r

/-- the beam-splitter generator on the two-mode space -/
noncomputable def bsGen : Matrix (Fin d₀ × Fin d₁) (Fin d₀ × Fin d₁) ℂ :=
  fun x y => ann d₀ x.1 y.1 * cre d₁ x.2 y.2 + cre d₀ x.1 y.1 * ann d₁ x.2 y.2

/-- a diagonal function of the total photon number -/
noncomputable def totalFn (f : ℕ → ℂ) : Matrix (Fin d₀ × Fin d₁) (Fin d₀ × Fin d₁) ℂ :=
  Matrix.diagonal fun x => f ((x.1 : ℕ) + (x.2 : ℕ))

theorem star_ann (d : ℕ) (r c : Fin d) : star (ann d r c) = ann d r c := by
  unfold ann; split <;> simp [Complex.conj_ofReal]

/-- the generator only connects states of equal total photon number -/
theorem bsGen_support (x y : Fin d₀ × Fin d₁) (h : bsGen d₀ d₁ x y ≠ 0) :
    (x.1 : ℕ) + x.2 = (y.1 : ℕ) + y.2 := by
  by_contra hne
  apply h
  have hA : ann d₀ x.1 y.1 * cre d₁ x.2 y.2 = 0 := by
    unfold cre ann
    by_cases a1 : (y.1 : ℕ) = x.1 + 1
    · by_cases a2 : (x.2 : ℕ) = y.2 + 1
      · omega
      · simp [a2]
    · simp [a1]
  have hB : cre d₀ x.1 y.1 * ann d₁ x.2 y.2 = 0 := by
    unfold cre ann
    by_cases a1 : (x.1 : ℕ) = y.1 + 1
    · by_cases a2 : (y.2 : ℕ) = x.2 + 1
      · omega
      · simp [a2]
    · simp [a1]
  unfold bsGen
  rw [hA, hB, add_zero]

/-- the generator commutes with every diagonal function of the total photon number -/
theorem bsGen_commutes_total (f : ℕ → ℂ) : Commute (bsGen d₀ d₁) (totalFn d₀ d₁ f) := by
  unfold Commute SemiconjBy totalFn
  ext x y
  rw [Matrix.mul_diagonal, Matrix.diagonal_mul]
  by_cases h : bsGen d₀ d₁ x y = 0
  · simp [h]
  · rw [bsGen_support d₀ d₁ x y h]; ring

/-- the generator is Hermitian (real symmetric) -/
theorem bsGen_hermitian : (bsGen d₀ d₁)ᴴ = bsGen d₀ d₁ := by
  ext x y
  rw [Matrix.conjTranspose_apply]
  unfold bsGen cre
  rw [star_add, star_mul', star_mul', star_ann, star_ann, star_ann, star_ann]
  ring

/-- the beam-splitter unitary `exp(iηG)` -/
noncomputable def bsU (η : ℝ) : Matrix (Fin d₀ × Fin d₁) (Fin d₀ × Fin d₁) ℂ :=
  exp ((Complex.I * (η : ℂ)) • bsGen d₀ d₁)

theorem bsU_unitary (η : ℝ) : (bsU d₀ d₁ η)ᴴ * bsU d₀ d₁ η = 1 := by
  apply exp_skew_unitary
  rw [Matrix.conjTranspose_smul, bsGen_hermitian]
  simp [star_mul', Complex.conj_ofReal]

/-- **Beam splitter.** For every pair of cutoffs, every mixing angle, every state and every function
`f` of the total photon number: the expectation of `f(N₁ + N₂)` is unchanged — the probability
distribution of the total photon number is conserved. -/
theorem beam_splitter_conserves_total_number (η : ℝ) (f : ℕ → ℂ)
    (ρ : Matrix (Fin d₀ × Fin d₁) (Fin d₀ × Fin d₁) ℂ) :
    trace (totalFn d₀ d₁ f * (bsU d₀ d₁ η * ρ * (bsU d₀ d₁ η)ᴴ)) = trace (totalFn d₀ d₁ f * ρ) := by
  apply expectation_conserved _ _ _ (bsU_unitary d₀ d₁ η)
  apply exp_commute
  exact ((bsGen_commutes_total d₀ d₁ f).smul_left _)

end beamsplitter

/-- **Phase shifter.** A diagonal unitary commutes with every diagonal observable, in particular
with every function of the photon number. -/
theorem phase_shifter_conserves_number (d : ℕ) (ph f : Fin d → ℂ) (hu : ∀ k, star (ph k) * ph k = 1)
    (ρ : Matrix (Fin d) (Fin d) ℂ) :
    trace (Matrix.diagonal f * (Matrix.diagonal ph * ρ * (Matrix.diagonal ph)ᴴ)) = trace (Matrix.diagonal f * ρ) := by
  apply expectation_conserved
  · rw [Matrix.diagonal_conjTranspose, Matrix.diagonal_mul_diagonal]
    have : (fun i => star (ph i) * ph i) = fun _ => 1 := by funext k; exact hu k
    rw [show (fun i => star ph i * ph i) = fun i => star (ph i) * ph i from rfl, this]
    exact Matrix.diagonal_one
  · unfold Commute SemiconjBy
    rw [Matrix.diagonal_mul_diagonal, Matrix.diagonal_mul_diagonal]
    congr 1; funext k; ring


section machzehnder
variable (d₀ d₁ : ℕ)

/-- the single-photon sector inside the truncated two-mode space (cutoffs `d₀+2`, `d₁+2` — at least two
levels per mode): column 0 is `|1,0⟩`, column 1 is `|0,1⟩` -/
def sector : Matrix (Fin (d₀ + 2) × Fin (d₁ + 2)) (Fin 2) ℂ :=
  fun x j => if (j = 0 ∧ (x.1 : ℕ) = 1 ∧ (x.2 : ℕ) = 0) ∨ (j = 1 ∧ (x.1 : ℕ) = 0 ∧ (x.2 : ℕ) = 1) then 1 else 0

/-- the phase shifter `exp(iφ n)` on the first mode -/
noncomputable def phaseOn0 (φ : ℝ) : Matrix (Fin (d₀ + 2) × Fin (d₁ + 2)) (Fin (d₀ + 2) × Fin (d₁ + 2)) ℂ :=
  Matrix.diagonal fun x => Complex.exp (Complex.I * φ * ((x.1 : ℕ) : ℂ))

theorem mul_sector_apply (M : Matrix (Fin (d₀ + 2) × Fin (d₁ + 2)) (Fin (d₀ + 2) × Fin (d₁ + 2)) ℂ)
    (x : Fin (d₀ + 2) × Fin (d₁ + 2)) :
    (M * sector d₀ d₁) x 0 = M x (1, 0) ∧ (M * sector d₀ d₁) x 1 = M x (0, 1) := by
  constructor
  · rw [Matrix.mul_apply, Finset.sum_eq_single ((1 : Fin (d₀ + 2)), (0 : Fin (d₁ + 2)))]
    · simp [sector]
    · intro y _ hy
      have hz : sector d₀ d₁ y 0 = 0 := by
        unfold sector
        rw [if_neg]
        rintro (⟨_, h1, h2⟩ | ⟨h0, _⟩)
        · exact hy (Prod.ext (Fin.ext (by simpa using h1)) (Fin.ext (by simpa using h2)))
        · exact absurd h0 (by decide)
      rw [hz, mul_zero]
    · simp
  · rw [Matrix.mul_apply, Finset.sum_eq_single ((0 : Fin (d₀ + 2)), (1 : Fin (d₁ + 2)))]
    · simp [sector]
    · intro y _ hy
      have hz : sector d₀ d₁ y 1 = 0 := by
        unfold sector
        rw [if_neg]
        rintro (⟨h0, _⟩ | ⟨_, h1, h2⟩)
        · exact absurd h0 (by decide)
        · exact hy (Prod.ext (Fin.ext (by simpa using h1)) (Fin.ext (by simpa using h2)))
      rw [hz, mul_zero]
    · simp

theorem sector_mul_apply (N : Matrix (Fin 2) (Fin 2) ℂ) (x : Fin (d₀ + 2) × Fin (d₁ + 2)) (j : Fin 2) :
    (sector d₀ d₁ * N) x j = sector d₀ d₁ x 0 * N 0 j + sector d₀ d₁ x 1 * N 1 j := by
  rw [Matrix.mul_apply, Fin.sum_univ_two]

/-- on the single-photon sector the generator is the exchange matrix -/
theorem bsGen_sector : bsGen (d₀ + 2) (d₁ + 2) * sector d₀ d₁ = sector d₀ d₁ * PW.MZI.sigmaX := by
  ext x j
  rw [sector_mul_apply]
  fin_cases j
  · rw [show ((⟨0, by decide⟩ : Fin 2)) = 0 from rfl, (mul_sector_apply d₀ d₁ _ x).1]
    by_cases h1 : (x.1 : ℕ) = 0 <;> by_cases h2 : (x.2 : ℕ) = 1 <;>
      simp [bsGen, ann, cre, sector, PW.MZI.sigmaX, h1, h2]
  · rw [show ((⟨1, by decide⟩ : Fin 2)) = 1 from rfl, (mul_sector_apply d₀ d₁ _ x).2]
    by_cases h1 : (x.1 : ℕ) = 1 <;> by_cases h2 : (x.2 : ℕ) = 0 <;>
      simp [bsGen, ann, cre, sector, PW.MZI.sigmaX, h1, h2]

/-- **the splitter on the single-photon sector is the SU(2) rotation**: `exp(iηG)` maps `|1,0⟩` to
`cos η |1,0⟩ + i sin η |0,1⟩` and `|0,1⟩` to `i sin η |1,0⟩ + cos η |0,1⟩`, for every cutoff ≥ 2 -/
theorem bsU_sector (η : ℝ) : bsU (d₀ + 2) (d₁ + 2) η * sector d₀ d₁ = sector d₀ d₁ * PW.MZI.B η := by
  unfold bsU
  rw [PW.MZI.exp_intertwine _ ((Complex.I * (η : ℂ)) • PW.MZI.sigmaX) _
    (by rw [Matrix.smul_mul, bsGen_sector, Matrix.mul_smul]), PW.MZI.exp_sigmaX]

/-- the phase shifter on the sector: `e^{iφ}` on `|1,0⟩`, nothing on `|0,1⟩` -/
theorem phase_sector (φ : ℝ) : phaseOn0 d₀ d₁ φ * sector d₀ d₁ = sector d₀ d₁ * PW.MZI.P φ := by
  ext x j
  rw [sector_mul_apply]
  unfold phaseOn0
  rw [Matrix.diagonal_mul]
  fin_cases j
  · by_cases h1 : (x.1 : ℕ) = 1 <;> by_cases h2 : (x.2 : ℕ) = 0 <;> simp [sector, PW.MZI.P, h1, h2]
  · by_cases h1 : (x.1 : ℕ) = 0 <;> by_cases h2 : (x.2 : ℕ) = 1 <;> simp [sector, PW.MZI.P, h1, h2]

/-- the Mach–Zehnder arrangement with the library's operators at cutoffs `d₀+2`, `d₁+2` -/
noncomputable def mziFull (φ : ℝ) : Matrix (Fin (d₀ + 2) × Fin (d₁ + 2)) (Fin (d₀ + 2) × Fin (d₁ + 2)) ℂ :=
  bsU (d₀ + 2) (d₁ + 2) (Real.pi / 4) * phaseOn0 d₀ d₁ φ * bsU (d₀ + 2) (d₁ + 2) (Real.pi / 4)

theorem mziFull_sector (φ : ℝ) : mziFull d₀ d₁ φ * sector d₀ d₁ = sector d₀ d₁ * PW.MZI.mzi φ := by
  unfold mziFull PW.MZI.mzi
  rw [Matrix.mul_assoc, bsU_sector, ← Matrix.mul_assoc, Matrix.mul_assoc _ (phaseOn0 d₀ d₁ φ), phase_sector,
    ← Matrix.mul_assoc, bsU_sector, Matrix.mul_assoc, Matrix.mul_assoc, Matrix.mul_assoc]

/-- **Mach–Zehnder, one photon.** With the library's operators — splitter `exp(i(π/4)G)`, phase shifter
`exp(iφ n)` on the first arm, splitter again — at any cutoffs ≥ 2, a photon entering the first port
(`|1,0⟩`) is found in the first port with probability `sin²(φ/2)` and in the second with `cos²(φ/2)`. -/
theorem mach_zehnder_single_photon (φ : ℝ) :
    Complex.normSq (mziFull d₀ d₁ φ (1, 0) (1, 0)) = Real.sin (φ / 2) ^ 2 ∧
    Complex.normSq (mziFull d₀ d₁ φ (0, 1) (1, 0)) = Real.cos (φ / 2) ^ 2 := by
  have h := mziFull_sector d₀ d₁ φ
  have e0 : mziFull d₀ d₁ φ (1, 0) (1, 0) = PW.MZI.mzi φ 0 0 := by
    rw [← (mul_sector_apply d₀ d₁ (mziFull d₀ d₁ φ) (1, 0)).1, h, sector_mul_apply]
    simp [sector]
  have e1 : mziFull d₀ d₁ φ (0, 1) (1, 0) = PW.MZI.mzi φ 1 0 := by
    rw [← (mul_sector_apply d₀ d₁ (mziFull d₀ d₁ φ) (0, 1)).1, h, sector_mul_apply]
    simp [sector]
  rw [e0, e1]
  exact PW.MZI.mzi_probabilities φ

/-- … and a photon entering the second port (`|0,1⟩`) leaves through the first / second port with
probability `cos²(φ/2)` / `sin²(φ/2)` -/
theorem mach_zehnder_single_photon_second_port (φ : ℝ) :
    Complex.normSq (mziFull d₀ d₁ φ (1, 0) (0, 1)) = Real.cos (φ / 2) ^ 2 ∧
    Complex.normSq (mziFull d₀ d₁ φ (0, 1) (0, 1)) = Real.sin (φ / 2) ^ 2 := by
  have h := mziFull_sector d₀ d₁ φ
  have e0 : mziFull d₀ d₁ φ (1, 0) (0, 1) = PW.MZI.mzi φ 0 1 := by
    rw [← (mul_sector_apply d₀ d₁ (mziFull d₀ d₁ φ) (1, 0)).2, h, sector_mul_apply]
    simp [sector]
  have e1 : mziFull d₀ d₁ φ (0, 1) (0, 1) = PW.MZI.mzi φ 1 1 := by
    rw [← (mul_sector_apply d₀ d₁ (mziFull d₀ d₁ φ) (0, 1)).2, h, sector_mul_apply]
    simp [sector]
  rw [e0, e1]
  exact PW.MZI.mzi_probabilities_second_port φ

end machzehnder

end PW.Props.C11

#print axioms PW.Props.C11.exp_skew_unitary
#print axioms PW.Props.C11.exp_commute
#print axioms PW.Props.C11.expectation_conserved
#print axioms PW.Props.C11.bsGen_support
#print axioms PW.Props.C11.bsGen_commutes_total
#print axioms PW.Props.C11.bsGen_hermitian
#print axioms PW.Props.C11.bsU_unitary
#print axioms PW.Props.C11.beam_splitter_conserves_total_number
#print axioms PW.Props.C11.phase_shifter_conserves_number
#print axioms PW.Props.C11.bsU_sector
#print axioms PW.Props.C11.mach_zehnder_single_photon
#print axioms PW.Props.C11.mach_zehnder_single_photon_second_port
