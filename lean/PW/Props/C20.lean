import PW.Proofs.LayoutLemmas
import PW.Proofs.RoutingLemmas
import PW.Proofs.RoutingLemmas2
import PW.Proofs.KronFactor
import PW.Proofs.NoSignal
import PW.Proofs.Adequacy
import PW.Proofs.MeasureNoSignal
import PW.Proofs.NoSignalN
import PW.Proofs.NewSubsystem
import Mathlib.Tactic.IntervalCases
/-!
# C20 — product spaces are joined only when needed; bystander blocks are untouched

On the partition model (`PW/Layout.lean`, compared with the real object graph after every call):
a block that holds none of the addressed subsystems is afterwards the *same record* (kind, members,
order); the only new block is made of blocks that hold an addressed subsystem; an action on a
single subsystem outside every product space changes no block; measured subsystems leave their
block and nothing else moves.
-/
namespace PW.Props.C20
open scoped Matrix
open PW.Layout

theorem bystander_untouched_by_combine (l : Layout) (c : Nat) (T : List Nat) (b : Block) (hb : b ∈ l)
    (hm : meets T b = false) : b ∈ combine l c T := combine_bystander l c T b hb hm

theorem bystander_untouched_by_action (l : Layout) (c : Nat) (T : List Nat) (b : Block) (hb : b ∈ l)
    (hm : meets T b = false) : b ∈ route l c T := route_bystander l c T b hb hm

theorem only_needed_blocks_joined (l : Layout) (c : Nat) (T : List Nat) (b : Block) (hb : b ∈ combine l c T) :
    b ∈ l ∨ (b.kind = .ps c ∧ ∀ x ∈ b.members, ∃ b0 ∈ l, meets T b0 = true ∧ x ∈ b0.members) :=
  combine_new_block l c T b hb

theorem single_target_never_enlarges (l : Layout) (c t : Nat)
    (h : l.any (fun b => (match b.kind with | .ps _ => true | _ => false) && t ∈ b.members) = false) :
    route l c [t] = l := route_single_outside l c t h

theorem measured_subsystem_leaves (l : Layout) (M : List Nat) (b : Block) (hb : b ∈ removeMeasured l M)
    (x : Nat) (hx : x ∈ b.members) : x ∉ M := removeMeasured_no_measured l M b hb x hx

theorem unmeasured_block_untouched (l : Layout) (M : List Nat) (b : Block) (hb : b ∈ l)
    (hne : b.members ≠ []) (hm : ∀ x ∈ b.members, x ∉ M) : b ∈ removeMeasured l M :=
  removeMeasured_bystander l M b hb hne hm

/-- the full routing of `apply_operation` (join what holds the operands, move resized Focks to the
front): a block that holds none of the operands is afterwards the same record -/
theorem bystander_untouched_by_operation (l : Layout) (c : Nat) (T focks : List Nat) (b : Block)
    (hb : b ∈ l) (hwf : (allMembers l).Nodup) (hm : meets T b = false) (hf : ∀ f ∈ focks, f ∈ T) :
    b ∈ PW.Routing.actOp l c T focks := PW.Routing.actOp_bystander l c T focks b hb hwf hm hf

theorem bystander_untouched_by_reorder (l : Layout) (c : Nat) (T : List Nat) (b : Block) (hb : b ∈ l)
    (hm : meets T b = false) : b ∈ reorder l c T := PW.Routing.reorder_bystander l c T b hb hm

/-- a request on one subsystem (operation, channel, partial trace, resize routed through the member)
leaves every block that does not hold it untouched -/
theorem bystander_untouched_by_member_request (l : Layout) (t : Nat) (r : Bool) (b : Block) (hb : b ∈ l)
    (hm : t ∉ b.members) : b ∈ PW.Routing.memberFront l t r := PW.Routing.memberFront_bystander l t r b hb hm

theorem bystander_untouched_by_channel (i : PW.Routing.Info) (l : Layout) (c : Nat) (T : List Nat) (b : Block)
    (hb : b ∈ l) (hwf : (allMembers l).Nodup) (hm : meets T b = false) : b ∈ PW.Routing.ceKraus i l c T :=
  PW.Routing.ceKraus_bystander i l c T b hb hwf hm
theorem bystander_untouched_by_partial_trace (l : Layout) (c : Nat) (T : List Nat) (b : Block)
    (hb : b ∈ l) (hwf : (allMembers l).Nodup) (hm : meets T b = false) : b ∈ PW.Routing.ceTraceOut l c T :=
  PW.Routing.ceTraceOut_bystander l c T b hb hwf hm
theorem bystander_untouched_by_povm_routing (l : Layout) (c : Nat) (T : List Nat) (b : Block)
    (hb : b ∈ l) (hwf : (allMembers l).Nodup) (hm : meets T b = false) : b ∈ PW.Routing.cePovm l c T :=
  PW.Routing.cePovm_bystander l c T b hb hwf hm
theorem bystander_untouched_by_resize (l : Layout) (f : Nat) (shrink : Bool) (b : Block) (hb : b ∈ l) (hf : f ∉ b.members) :
    b ∈ PW.Routing.actResize l f shrink := PW.Routing.actResize_bystander l f shrink b hb hf
theorem bystander_untouched_by_measurement (l : Layout) (M surv : List Nat) (b : Block) (hb : b ∈ l)
    (hne : b.members ≠ []) (hm : ∀ x ∈ b.members, x ∉ M) : b ∈ PW.Routing.actMeasure l M surv :=
  PW.Routing.actMeasure_bystander l M surv b hb hne hm

/-- non-vacuity: CNOT on subsystems 1 and 3 of [own 0], [env 1 2], [own 3], [ps 4 5] joins exactly
the envelope block and subsystem 3 and leaves the others -/
example : combine [⟨.own, [0]⟩, ⟨.env, [1, 2]⟩, ⟨.own, [3]⟩, ⟨.ps 0, [4, 5]⟩] 0 [1, 3]
    = [⟨.own, [0]⟩, ⟨.ps 0, [4, 5]⟩, ⟨.ps 0, [1, 2, 3]⟩] := by decide

/-- at the level of the physical state: actions on two different subsystems commute, so an action on
one of them can neither depend on nor disturb what is done to the other (every space, all positions) -/
theorem actions_on_different_subsystems_commute {R : Type} [CommRing R] [StarRing R] (dims : List Nat) (p q : Nat)
    (hp : p < dims.length) (hq : q < dims.length) (hne : p ≠ q) (A B ρ : PW.Tensor R) (r c : List Nat)
    (hr : r.length = dims.length) (hc : c.length = dims.length) :
    PW.Spec.applyOn dims [p] A (PW.Spec.applyOn dims [q] B ρ) (r ++ c)
      = PW.Spec.applyOn dims [q] B (PW.Spec.applyOn dims [p] A ρ) (r ++ c) :=
  PW.Spec.applyOn_comm dims p q hp hq hne A B ρ r c hr hc

/-- **no signalling** (Mathlib matrices, addressed part `a`, everything else `b`, any joint state,
entangled or not): a trace-preserving channel on the addressed part — in particular a unitary
operation — leaves the reduced state of everything else unchanged -/
theorem channel_invisible_in_the_rest {a b ι : Type} [Fintype a] [Fintype b] [DecidableEq a] [DecidableEq b]
    (s : Finset ι) (K : ι → Matrix a a ℂ) (hK : ∑ i ∈ s, (K i)ᴴ * K i = 1) (ρ : Matrix (a × b) (a × b) ℂ) :
    PW.Channels.ptrace (∑ i ∈ s, PW.Channels.emb (K i) * ρ * (PW.Channels.emb (K i))ᴴ) = PW.Channels.ptrace ρ :=
  PW.Channels.ptrace_kraus s K hK ρ

/-- the same for the specification's `applyOn` (two factors): a unitary on the first factor does not
change the reduced state of the second -/
theorem spec_operation_invisible_in_the_rest {a b : Nat} (O ρ : PW.Tensor ℂ)
    (hU : (PW.Adequacy.opMatrix (a := a) O)ᴴ * PW.Adequacy.opMatrix (a := a) O = 1) :
    PW.Channels.ptrace (PW.Adequacy.toMatrix (a := a) (b := b) (PW.Spec.applyOn [a, b] [0] O ρ))
      = PW.Channels.ptrace (PW.Adequacy.toMatrix (a := a) (b := b) ρ) := by
  rw [PW.Adequacy.toMatrix_applyOn]
  exact PW.Channels.ptrace_unitary _ hU _

/-- **measuring one part is invisible in the rest**: the collapsed (unnormalised, i.e. Born-weighted)
states of all outcomes of the measured part add up to a state whose reduced state on everything else
is the one before the measurement — whatever the entanglement.  Only the *reported outcome* carries
information to the rest. -/
theorem measurement_invisible_in_the_rest {a b : Nat} (ρ : PW.Tensor ℂ) :
    ∑ o : Fin a, PW.Channels.ptrace (PW.Adequacy.toMatrix (a := a) (b := b) (PW.Spec.projectOn [a, b] 0 o.val ρ))
      = PW.Channels.ptrace (PW.Adequacy.toMatrix (a := a) (b := b) ρ) :=
  PW.Adequacy.ptrace_measurement ρ

/-- **no signalling in a space of any number of subsystems**: a trace-preserving channel on the
subsystem at position `q` (Kraus operators with `Σ_m Σ_i K_m[i,j]·conj K_m[i,k] = δ_jk` below the cutoff)
leaves the reduced state of every list `K` of other subsystems unchanged — every number of subsystems,
every dimension list, every joint state, every entry.  (The bipartite Mathlib form above covers several
addressed subsystems at once; this one is stated directly on the specification's `krausOn` /
`reduceTo`.) -/
theorem channel_invisible_in_any_other_subsystems {R : Type} [CommRing R] [StarRing R]
    (dims K : List Nat) (q : Nat) (hq : q < dims.length) (hqK : q ∉ K) (Ks : List (PW.Tensor R))
    (hK : ∀ j < PW.Spec.dimOf2 dims q, ∀ k < PW.Spec.dimOf2 dims q,
      (Ks.map fun U => ∑ i ∈ Finset.range (PW.Spec.dimOf2 dims q), U [i, j] * PW.conj (U [i, k])).sum
        = if j = k then 1 else 0)
    (ρ : PW.Tensor R) (rc : List Nat) :
    PW.Spec.reduceTo dims K (PW.Spec.krausOn dims [q] Ks ρ) rc = PW.Spec.reduceTo dims K ρ rc :=
  PW.Spec.reduceTo_krausOn_single dims K q hq hqK Ks hK ρ rc

/-- … in particular a unitary operation -/
theorem operation_invisible_in_any_other_subsystems {R : Type} [CommRing R] [StarRing R]
    (dims K : List Nat) (q : Nat) (hq : q < dims.length) (hqK : q ∉ K) (U : PW.Tensor R)
    (hU : ∀ j < PW.Spec.dimOf2 dims q, ∀ k < PW.Spec.dimOf2 dims q,
      ∑ i ∈ Finset.range (PW.Spec.dimOf2 dims q), U [i, j] * PW.conj (U [i, k]) = if j = k then 1 else 0)
    (ρ : PW.Tensor R) (rc : List Nat) :
    PW.Spec.reduceTo dims K (PW.Spec.applyOn dims [q] U ρ) rc = PW.Spec.reduceTo dims K ρ rc :=
  PW.Spec.reduceTo_applyOn_single dims K q hq hqK U hU ρ rc

/-- non-vacuity: the bit flip on the first of three subsystems meets the hypothesis -/
example : let U : PW.Tensor ℂ := fun idx => if idx = [0, 1] ∨ idx = [1, 0] then 1 else 0
    ∀ j < PW.Spec.dimOf2 [2, 3, 2] 0, ∀ k < PW.Spec.dimOf2 [2, 3, 2] 0,
      ∑ i ∈ Finset.range (PW.Spec.dimOf2 [2, 3, 2] 0), U [i, j] * PW.conj (U [i, k]) = if j = k then 1 else 0 := by
  intro U j hj k hk
  have hd : PW.Spec.dimOf2 [2, 3, 2] 0 = 2 := by decide
  rw [hd] at hj hk ⊢
  interval_cases j <;> interval_cases k <;> simp [U, Finset.sum_range_succ, PW.conj_eq_star]

/-- **measuring one subsystem is invisible in all the others, in a space of any number of subsystems**:
summed over the outcomes `o` of the subsystem at position `q`, the collapsed (Born-weighted) states
`projectOn dims q o ρ` have, on every list `K ∌ q` of other subsystems, the reduced state that `ρ` had —
every dimension list, every joint state, every entry. -/
theorem measurement_invisible_in_any_other_subsystems {R : Type} [CommRing R] [StarRing R]
    (dims K : List Nat) (q : Nat) (hq : q < dims.length) (hqK : q ∉ K) (ρ : PW.Tensor R) (rc : List Nat) :
    ((List.range (dims.getD q 0)).map fun o => PW.Spec.reduceTo dims K (PW.Spec.projectOn dims q o ρ) rc).sum
      = PW.Spec.reduceTo dims K ρ rc :=
  PW.Spec.reduceTo_measurement dims K q hq hqK ρ rc

/-- **creating a subsystem does not disturb the others**: appending a new subsystem in the pure state `v`
(how the specification machine registers every `Envelope()` / `CustomState()` a program creates) leaves the
reduced state of all earlier subsystems as it was — `(Σ_i v_i·conj v_i) · ρ`, i.e. `ρ` for a normalised `v`. -/
theorem new_subsystem_leaves_the_others_untouched {R : Type} [CommRing R] [StarRing R] (dims : List Nat) (d : Nat)
    (v ρ : PW.Tensor R) (r c : List Nat) (hr : r.length = dims.length) (hc : c.length = dims.length) :
    PW.Spec.reduceTo (dims ++ [d]) (List.range dims.length) (PW.Spec.tensorVec dims v ρ) (r ++ c)
      = (∑ i ∈ Finset.range d, v [i] * PW.conj (v [i])) * ρ (r ++ c) :=
  PW.Spec.reduceTo_tensorVec dims d v ρ r c hr hc

end PW.Props.C20

#print axioms PW.Props.C20.bystander_untouched_by_combine
#print axioms PW.Props.C20.bystander_untouched_by_action
#print axioms PW.Props.C20.only_needed_blocks_joined
#print axioms PW.Props.C20.single_target_never_enlarges
#print axioms PW.Props.C20.measured_subsystem_leaves
#print axioms PW.Props.C20.unmeasured_block_untouched
#print axioms PW.Props.C20.bystander_untouched_by_operation
#print axioms PW.Props.C20.bystander_untouched_by_reorder
#print axioms PW.Props.C20.bystander_untouched_by_member_request
#print axioms PW.Props.C20.bystander_untouched_by_channel
#print axioms PW.Props.C20.bystander_untouched_by_partial_trace
#print axioms PW.Props.C20.bystander_untouched_by_povm_routing
#print axioms PW.Props.C20.bystander_untouched_by_resize
#print axioms PW.Props.C20.bystander_untouched_by_measurement
#print axioms PW.Props.C20.actions_on_different_subsystems_commute
#print axioms PW.Props.C20.channel_invisible_in_the_rest
#print axioms PW.Props.C20.spec_operation_invisible_in_the_rest
#print axioms PW.Props.C20.measurement_invisible_in_the_rest
#print axioms PW.Props.C20.operation_invisible_in_any_other_subsystems
#print axioms PW.Props.C20.channel_invisible_in_any_other_subsystems
#print axioms PW.Props.C20.measurement_invisible_in_any_other_subsystems
#print axioms PW.Props.C20.new_subsystem_leaves_the_others_untouched
