import PW.Proofs.ApplyMatrixSem
import PW.Proofs.ApplyVector
import PW.Proofs.LevelIndep
import PW.Props.Tables
import PW.Proofs.Adequacy
import PW.Props.Strings
import PW.Proofs.Basic
import PW.Spec
/-!
# C01 — operations act as the stated linear map on exactly the addressed subsystem

Tensor layer: for every number `n` of members of a product space, every duplicate-free ordered
list `T` of addressed positions and every list of dimensions, the einsum string produced by
`apply_operator_matrix` computes `Spec.applyOn`, i.e. `(O_T ⊗ I) ρ (O_T ⊗ I)†`.
-/
namespace PW.Props.C01
open PW

variable {R : Type} [CommRing R] [StarRing R]

/-- **Matrix level.** The generated plan of `apply_operator_matrix`, evaluated by the einsum
semantics on `[O, ρ, conj O]`, is the specification `applyOn` — for all `n`, `T`, dimensions. -/
theorem apply_operator_matrix_is_applyOn (dims : List Nat) (T : List Nat) (hnd : T.Nodup)
    (hlt : ∀ p ∈ T, p < dims.length) (O ρ : Tensor R) (r c : List Nat)
    (hr : r.length = dims.length) (hc : c.length = dims.length) :
    einsum (Spec.dimOf2 dims) (applyOperatorMatrix dims.length T).1 (applyOperatorMatrix dims.length T).2
        [O, ρ, fun idx => conj (O idx)] (r ++ c)
      = Spec.applyOn dims T O ρ (r ++ c) := by
  rw [applyOperatorMatrix_sem dims.length T hnd hlt (Spec.dimOf2 dims) O ρ _ r c hr hc]
  unfold Spec.applyOn Spec.subst targetM
  simp only [List.take_left' hr, List.drop_left' hr]

/-- **Vector level.** The generated plan of `apply_operator_vector` (state stored with a trailing
axis of length 1) is the specification `applyVec` = `(O_T ⊗ I)ψ` — for all `n`, `T`, dimensions. -/
theorem apply_operator_vector_is_applyVec (dims : List Nat) (T : List Nat) (hnd : T.Nodup)
    (hlt : ∀ p ∈ T, p < dims.length) (O ψ : Tensor R) (idx : List Nat) (hidx : idx.length = dims.length) :
    einsum (Spec.dimOf2 dims) (applyOperatorVector dims.length T).1 (applyOperatorVector dims.length T).2
        [O, ψ] (idx ++ [0])
      = Spec.applyVec dims T O (fun i => ψ (i ++ [0])) idx := by
  rw [applyOperatorVector_sem dims.length T hnd hlt (Spec.dimOf2 dims) O ψ idx hidx]
  rfl

/-- **Representation independence.** Whether the data is held as a vector or as the density matrix
of that vector, the operation yields the same physical state:
`(O_T⊗I)|ψ⟩⟨ψ|(O_T⊗I)† = |(O_T⊗I)ψ⟩⟨(O_T⊗I)ψ|`. -/
theorem vector_and_matrix_level_agree (dims : List Nat) (T : List Nat) (hlt : ∀ p ∈ T, p < dims.length)
    (O ψ : Tensor R) (r c : List Nat) (hr : r.length = dims.length) (hc : c.length = dims.length) :
    Spec.applyOn dims T O (Spec.outer dims.length ψ) (r ++ c)
      = Spec.outer dims.length (Spec.applyVec dims T O ψ) (r ++ c) := by
  rw [Spec.applyOn_outer dims T hlt O ψ r c hr hc]
  unfold Spec.outer
  rw [List.take_left' hr, List.drop_left' hr]

/-- **Adequacy of the specification** (two factors: the addressed one and "everything else"):
`Spec.applyOn` is Mathlib's `(O ⊗ₖ 1) * ρ * (O ⊗ₖ 1)ᴴ` -/
theorem applyOn_is_kronecker_conjugation {a b : Nat} (O ρ : Tensor ℂ) :
    PW.Adequacy.toMatrix (a := a) (b := b) (Spec.applyOn [a, b] [0] O ρ)
      = PW.Channels.emb (b := Fin b) (PW.Adequacy.opMatrix (a := a) O) * PW.Adequacy.toMatrix ρ *
          (PW.Channels.emb (b := Fin b) (PW.Adequacy.opMatrix (a := a) O)).conjTranspose :=
  PW.Adequacy.toMatrix_applyOn O ρ

/-- a unitary operation preserves the trace of the joint state -/
theorem unitary_operation_preserves_trace {a b : Nat} (O ρ : Tensor ℂ)
    (hU : (PW.Adequacy.opMatrix (a := a) O).conjTranspose * PW.Adequacy.opMatrix (a := a) O = 1) :
    Spec.trace [a, b] (Spec.applyOn [a, b] [0] O ρ) = Spec.trace [a, b] ρ :=
  PW.Adequacy.spec_unitary_preserves_trace O ρ hU

/-- which operation types renormalise is the source's table (regenerated on every run) -/
theorem renormalise_table : PW.Generated.opTable = PW.TablesSpec.expectedOps :=
  PW.Props.Tables.op_table_as_expected

/-- the hard-coded einsum strings of the five apply bodies are the expected ones -/
theorem hardcoded_strings : PW.Generated.hardcodedEinsum = PW.TablesSpec.expectedHardcoded :=
  PW.Props.Tables.hardcoded_einsum_as_expected

/-- the einsum literals of the own-state and envelope `apply_operation` bodies are the plans that
`einsum_constructor` generates for one / two members (up to relabelling and the `[0,2,1,3]`
transposition): their semantics is covered by the two theorems above -/
theorem hardcoded_apply_strings_are_generated_plans :
    (PW.Props.Strings.plansOf "photon_weave/state/fock.py" "apply_operation").map canon
        = [canon (applyOperatorVector 1 [0]), canon (applyOperatorMatrix 1 [0])] ∧
    canon ((PW.Props.Strings.plansOf "photon_weave/state/envelope.py" "apply_operation").getD 0 ([], []))
        = canon (applyOperatorVector 2 [0]) ∧
    canon ((PW.Props.Strings.plansOf "photon_weave/state/envelope.py" "apply_operation").getD 1 ([], []))
        = canon (PW.Props.Strings.permuteAxes (applyOperatorMatrix 2 [0]) 1 [0, 2, 1, 3]) :=
  ⟨PW.Props.Strings.own_state_vector_string, PW.Props.Strings.envelope_vector_string,
   PW.Props.Strings.envelope_matrix_string⟩

theorem hardcoded_plans_table : PW.Generated.hardcodedPlans = PW.TablesSpec.expectedPlans :=
  PW.Props.Tables.hardcoded_plans_as_expected

end PW.Props.C01

#print axioms PW.Props.C01.apply_operator_matrix_is_applyOn
#print axioms PW.Props.C01.apply_operator_vector_is_applyVec
#print axioms PW.Props.C01.vector_and_matrix_level_agree
#print axioms PW.Props.C01.applyOn_is_kronecker_conjugation
#print axioms PW.Props.C01.unitary_operation_preserves_trace
#print axioms PW.Props.C01.renormalise_table
#print axioms PW.Props.C01.hardcoded_strings
#print axioms PW.Props.C01.hardcoded_apply_strings_are_generated_plans
#print axioms PW.Props.C01.hardcoded_plans_table
