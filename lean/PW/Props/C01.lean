import PW.Proofs.ApplyMatrixSem
import PW.Proofs.Basic
import PW.Spec
/-!
# C01 — operations act as the stated linear map on exactly the addressed subsystem

Tensor layer: for every number `n` of members of a product space, every duplicate-free ordered
list `T` of addressed positions and every list of dimensions, the einsum string produced by
`apply_operator_matrix` computes `Spec.applyOn`, i.e. `(O_T ⊗ I) ρ (O_T ⊗ I)†`.
-/
namespace PW.Props.C01
open PW

variable {R : Type} [CommRing R] [StarRing R]

/-- **Matrix level.** The generated plan of `apply_operator_matrix`, evaluated by the einsum
semantics on `[O, ρ, conj O]`, is the specification `applyOn` — for all `n`, `T`, dimensions. -/
theorem apply_operator_matrix_is_applyOn (dims : List Nat) (T : List Nat) (hnd : T.Nodup)
    (hlt : ∀ p ∈ T, p < dims.length) (O ρ : Tensor R) (r c : List Nat)
    (hr : r.length = dims.length) (hc : c.length = dims.length) :
    einsum (Spec.dimOf2 dims) (applyOperatorMatrix dims.length T).1 (applyOperatorMatrix dims.length T).2
        [O, ρ, fun idx => conj (O idx)] (r ++ c)
      = Spec.applyOn dims T O ρ (r ++ c) := by
  rw [applyOperatorMatrix_sem dims.length T hnd hlt (Spec.dimOf2 dims) O ρ _ r c hr hc]
  unfold Spec.applyOn Spec.subst targetM
  simp only [List.take_left' hr, List.drop_left' hr]

end PW.Props.C01

#print axioms PW.Props.C01.apply_operator_matrix_is_applyOn
