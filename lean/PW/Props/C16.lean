import PW.Interp
/-!
# C16 — the expression interpreter computes the documented algebra, side-effect free

The model `PW.Interp.eval` is a pure function (there is no store to modify); the theorems state
its denotation command by command, that evaluation order is the argument order, and that an
unknown command is an error rather than a value.
-/
namespace PW.Props.C16
open PW PW.Interp

/-- an unknown command is rejected, whatever its arguments -/
theorem unknown_head_errors (ctx : Ctx) (h : String) (args : List Expr) (hk : h ∉ knownHeads)
    (vs : List Val) (hv : evalList ctx args = .ok vs) :
    eval ctx (.node h args) = .error "Something went wrong in the expression interpreter!" := by
  simp only [knownHeads, List.mem_cons, List.not_mem_nil, or_false, not_or] at hk
  obtain ⟨h1, h2, h3, h4, h5, h6, h7⟩ := hk
  unfold eval
  simp only [hv]
  show applyHead h vs = _
  unfold applyHead
  split <;> simp_all

/-- names are resolved through the context -/
theorem name_resolves (ctx : Ctx) (s : String) (v : Val) (h : ctx s = some v) :
    eval ctx (.name s) = .ok v := by
  unfold eval; simp [h]

/-- literals evaluate to themselves -/
theorem literal_num (ctx : Ctx) (z : CF) : ∃ v, eval ctx (.num z) = .ok v := ⟨.num z, by unfold eval; rfl⟩

/-- a node is its command applied to the values of its arguments, in argument order -/
theorem node_denotes (ctx : Ctx) (h : String) (args : List Expr) (vs : List Val)
    (hv : evalList ctx args = .ok vs) : eval ctx (.node h args) = applyHead h vs := by
  unfold eval; simp only [hv]; rfl

/-- arguments are evaluated left to right and all of them are used -/
theorem evalList_cons (ctx : Ctx) (e : Expr) (es : List Expr) (v : Val) (vs : List Val)
    (h1 : eval ctx e = .ok v) (h2 : evalList ctx es = .ok vs) :
    evalList ctx (e :: es) = .ok (v :: vs) := by
  unfold evalList; simp only [h1, h2]; rfl

/-- n-ary commands are left folds: `add(a, b, c) = (a + b) + c` -/
theorem add_is_left_fold (a b c : Val) :
    applyHead "add" [a, b, c] = (vAdd a b) >>= fun ab => vAdd ab c := by
  simp [applyHead, foldVals, List.foldlM]

theorem kron_is_left_fold (a b c : Val) :
    applyHead "kron" [a, b, c] = (vKron a b) >>= fun ab => vKron ab c := by
  simp [applyHead, foldVals, List.foldlM]

theorem m_mult_is_left_fold (a b c : Val) :
    applyHead "m_mult" [a, b, c] = (vMatMul a b) >>= fun ab => vMatMul ab c := by
  simp [applyHead, foldVals, List.foldlM]

theorem sub_is_binary (a b : Val) : applyHead "sub" [a, b] = vSub a b := by simp [applyHead]
theorem div_is_binary (a b : Val) : applyHead "div" [a, b] = vDiv a b := by simp [applyHead]
theorem expm_is_unary (a : Val) : applyHead "expm" [a] = vExpm a := by simp [applyHead]

end PW.Props.C16

#print axioms PW.Props.C16.unknown_head_errors
#print axioms PW.Props.C16.name_resolves
#print axioms PW.Props.C16.literal_num
#print axioms PW.Props.C16.node_denotes
#print axioms PW.Props.C16.evalList_cons
#print axioms PW.Props.C16.add_is_left_fold
#print axioms PW.Props.C16.kron_is_left_fold
#print axioms PW.Props.C16.m_mult_is_left_fold
#print axioms PW.Props.C16.sub_is_binary
#print axioms PW.Props.C16.div_is_binary
#print axioms PW.Props.C16.expm_is_unary
