import PW.Proofs.RemoveAt
import PW.Proofs.Grid
import PW.Proofs.SpecLemmas
import PW.Proofs.LayoutLemmas
/-!
# C05 — measurement collapses the state and retires measured subsystems correctly

State: collapse is `projectOn` (then renormalise, then `removeAt` for a destroyed subsystem).
Projection is idempotent (re-measuring returns the same value: every other outcome has
probability 0), projections on different outcomes annihilate each other.
Bookkeeping: measured subsystems leave their block and only they do; blocks without measured
members are untouched; emptied blocks disappear.
-/
namespace PW.Props.C05
open PW PW.Spec

variable {R : Type} [CommRing R] [StarRing R]

theorem collapse_idempotent (dims : List Nat) (p o : Nat) (ρ : Tensor R) :
    projectOn dims p o (projectOn dims p o ρ) = projectOn dims p o ρ := projectOn_idem dims p o ρ

theorem collapse_exclusive (dims : List Nat) (p o o' : Nat) (h : o ≠ o') (ρ : Tensor R) :
    projectOn dims p o (projectOn dims p o' ρ) = fun _ => 0 := projectOn_orthogonal dims p o o' h ρ

theorem remeasure_same_outcome (dims : List Nat) (p o o' : Nat) (hp : p < dims.length) (h : o ≠ o')
    (ρ : Tensor R) : prob dims p (projectOn dims p o ρ) o' = 0 :=
  prob_after_projectOn_other dims p o o' hp h ρ

theorem collapse_keeps_hermitian (dims : List Nat) (p o : Nat) (ρ : Tensor R)
    (h : Hermitian dims.length ρ) : Hermitian dims.length (projectOn dims p o ρ) :=
  projectOn_hermitian dims p o ρ h

theorem measured_leave_their_block (l : Layout.Layout) (M : List Nat) (b : Layout.Block)
    (hb : b ∈ Layout.removeMeasured l M) (x : Nat) (hx : x ∈ b.members) : x ∉ M :=
  Layout.removeMeasured_no_measured l M b hb x hx

theorem survivors_keep_order (l : Layout.Layout) (M : List Nat) (b : Layout.Block)
    (hb : b ∈ Layout.removeMeasured l M) :
    ∃ b0 ∈ l, b.kind = b0.kind ∧ b.members = b0.members.filter (· ∉ M) ∧ b.members ≠ [] :=
  Layout.removeMeasured_members l M b hb

theorem unmeasured_block_untouched (l : Layout.Layout) (M : List Nat) (b : Layout.Block) (hb : b ∈ l)
    (hne : b.members ≠ []) (hm : ∀ x ∈ b.members, x ∉ M) : b ∈ Layout.removeMeasured l M :=
  Layout.removeMeasured_bystander l M b hb hne hm

/-- **the survivors are left with their reduced state given the outcome**: dropping the coordinate of
a destroyed subsystem from the collapsed state (`removeAt`, what the specification machine does when a
measured subsystem is retired) is the partial trace of the collapsed state over that subsystem — every
space, every position, every outcome below the cutoff, every entry. -/
theorem survivors_hold_the_conditional_reduced_state {R : Type} [CommRing R] (dims : List Nat) (p o : Nat)
    (hp : p < dims.length) (ho : o < dims.getD p 0) (ρ : Tensor R) (r c : List Nat)
    (hr : r.length = dims.length - 1) (hc : c.length = dims.length - 1) :
    removeAt dims p o (projectOn dims p o ρ) (r ++ c)
      = reduceTo dims (survivors dims.length p) (projectOn dims p o ρ) (r ++ c) :=
  removeAt_eq_reduceTo dims p o hp ho ρ r c hr hc

/-- the survivors are all other positions, in their order -/
theorem survivors_are_the_others (n p x : Nat) (hp : p < n) : x ∈ survivors n p ↔ x < n ∧ x ≠ p :=
  mem_survivors n p x hp

example : survivors 4 1 = [0, 2, 3] := by decide

end PW.Props.C05

#print axioms PW.Props.C05.collapse_idempotent
#print axioms PW.Props.C05.collapse_exclusive
#print axioms PW.Props.C05.remeasure_same_outcome
#print axioms PW.Props.C05.collapse_keeps_hermitian
#print axioms PW.Props.C05.measured_leave_their_block
#print axioms PW.Props.C05.survivors_keep_order
#print axioms PW.Props.C05.unmeasured_block_untouched
#print axioms PW.Props.C05.survivors_hold_the_conditional_reduced_state
#print axioms PW.Props.C05.survivors_are_the_others
