import PW.Generated.Tables
import PW.TablesSpec
/-! The tables regenerated from the source equal the tables the model assumes. -/
namespace PW.Props.Tables
open PW

theorem hardcoded_einsum_as_expected : Generated.hardcodedEinsum = TablesSpec.expectedHardcoded := by decide
theorem hardcoded_plans_as_expected : Generated.hardcodedPlans = TablesSpec.expectedPlans := by rfl
theorem gate_tables_as_expected : Generated.gateTables = TablesSpec.expectedGates := by decide
theorem op_table_as_expected : Generated.opTable = TablesSpec.expectedOps := by rfl
theorem contract_sites_as_expected : Generated.contractSites = TablesSpec.expectedContractSites := by rfl
theorem kraus_check_source_as_expected : Generated.krausCheckSource = TablesSpec.expectedKrausCheckSource := by rfl
/-- every `contract` method of the source tests the purity and picks the eigenvalue with the same `tol` -/
theorem contract_sites_consistent : Generated.contractSites.all TablesSpec.siteConsistent = true := by
  rw [contract_sites_as_expected]; decide
theorem guards_as_expected : Generated.guardTable = TablesSpec.expectedGuards := by rfl
/-- every envelope method that takes operands rejects non-members, comparing by identity -/
theorem envelope_membership_guarded : TablesSpec.envelopeMembershipGuarded Generated.guardTable = true := by
  rw [guards_as_expected]; decide +kernel
theorem resize_guards_as_expected : Generated.resizeGuards = TablesSpec.expectedResizeGuards := by rfl
theorem resize_guards_are_the_rule : Generated.resizeGuards.all TablesSpec.shrinkRuleOk = true := by
  rw [resize_guards_as_expected]; decide

end PW.Props.Tables
#print axioms PW.Props.Tables.hardcoded_einsum_as_expected
#print axioms PW.Props.Tables.hardcoded_plans_as_expected
#print axioms PW.Props.Tables.gate_tables_as_expected
#print axioms PW.Props.Tables.op_table_as_expected
#print axioms PW.Props.Tables.contract_sites_as_expected
#print axioms PW.Props.Tables.kraus_check_source_as_expected
#print axioms PW.Props.Tables.contract_sites_consistent
#print axioms PW.Props.Tables.guards_as_expected
#print axioms PW.Props.Tables.envelope_membership_guarded
#print axioms PW.Props.Tables.resize_guards_as_expected
#print axioms PW.Props.Tables.resize_guards_are_the_rule
