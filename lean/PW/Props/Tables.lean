import PW.Generated.Tables
import PW.TablesSpec
/-! The tables regenerated from the source equal the tables the model assumes. -/
namespace PW.Props.Tables
open PW

theorem hardcoded_einsum_as_expected : Generated.hardcodedEinsum = TablesSpec.expectedHardcoded := by decide
theorem hardcoded_plans_as_expected : Generated.hardcodedPlans = TablesSpec.expectedPlans := by rfl
theorem gate_tables_as_expected : Generated.gateTables = TablesSpec.expectedGates := by decide
theorem op_table_as_expected : Generated.opTable = TablesSpec.expectedOps := by rfl

end PW.Props.Tables
#print axioms PW.Props.Tables.hardcoded_einsum_as_expected
#print axioms PW.Props.Tables.hardcoded_plans_as_expected
#print axioms PW.Props.Tables.gate_tables_as_expected
#print axioms PW.Props.Tables.op_table_as_expected
