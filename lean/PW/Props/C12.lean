import Mathlib.Tactic.Ring
import Mathlib.Tactic.IntervalCases
import Mathlib.Tactic.LinearCombination
import Mathlib.Algebra.Star.Basic
import Mathlib.Algebra.BigOperators.Group.List.Basic
import PW.Proofs.Basic
import PW.Ops
import PW.Props.Tables
import PW.Proofs.Rotations
/-!
# C12 — the built-in operator library equals its mathematical definitions

The theorems are about the polymorphic definitions of `PW/Ops.lean` — the very functions the
driver evaluates on `CF` and the correspondence check compares, entry by entry, with every
constructor of `photon_weave/_math/ops.py` and every `Operation(...).operator`.  They hold over
every commutative ring; the non-rational ingredients are hypotheses (`i² = -1`, `2h² = 1`,
`w² = i`, `c² + s² = 1`, `sq n ² = n`), which is exactly what the real numbers `1/√2`, `e^{iπ/4}`,
`cos`, `sin`, `√n` satisfy.
-/
namespace PW.Props.C12
open PW PW.Ops

variable {R : Type} [CommRing R]

/-- entrywise equality of two `d × d` matrices -/
def MatEq (d : Nat) (A B : Tensor R) : Prop := ∀ r c, r < d → c < d → A [r, c] = B [r, c]

theorem range2 : List.range 2 = [0, 1] := rfl
theorem range4 : List.range 4 = [0, 1, 2, 3] := rfl
theorem range8 : List.range 8 = [0, 1, 2, 3, 4, 5, 6, 7] := rfl

/-! ### fixed gates: involutions and square roots -/

theorem pauliX_sq : MatEq 2 (mmul 2 (pauliX : Tensor R) pauliX) (ident 2) := by
  intro r c hr hc; interval_cases r <;> interval_cases c <;> simp [mmul, range2, range4, pauliX, mat2, ident]

theorem pauliY_sq (i : R) (hi : i * i = -1) : MatEq 2 (mmul 2 (pauliY i) (pauliY i)) (ident 2) := by
  intro r c hr hc
  interval_cases r <;> interval_cases c <;> simp [mmul, range2, range4, pauliY, mat2, ident, hi]

theorem pauliZ_sq : MatEq 2 (mmul 2 (pauliZ : Tensor R) pauliZ) (ident 2) := by
  intro r c hr hc; interval_cases r <;> interval_cases c <;> simp [mmul, range2, range4, pauliZ, mat2, ident]

theorem hadamard_sq (h : R) (hh : h * h + h * h = 1) :
    MatEq 2 (mmul 2 (hadamard h) (hadamard h)) (ident 2) := by
  intro r c hr hc
  interval_cases r <;> interval_cases c <;> simp [mmul, range2, range4, hadamard, mat2, ident, hh]

theorem sGate_sq (i : R) (hi : i * i = -1) : MatEq 2 (mmul 2 (sGate i) (sGate i)) pauliZ := by
  intro r c hr hc
  interval_cases r <;> interval_cases c <;> simp [mmul, range2, range4, sGate, pauliZ, mat2, hi]

theorem tGate_sq (w i : R) (hw : w * w = i) : MatEq 2 (mmul 2 (tGate w) (tGate w)) (sGate i) := by
  intro r c hr hc
  interval_cases r <;> interval_cases c <;> simp [mmul, range2, range4, tGate, sGate, mat2, hw]

theorem sxGate_sq (i half : R) (hi : i * i = -1) (hh : half + half = 1) :
    MatEq 2 (mmul 2 (sxGate i half) (sxGate i half)) pauliX := by
  intro r c hr hc
  have h2 : half * half * 4 = 1 := by
    have : (half + half) * (half + half) = 1 := by rw [hh]; ring
    linear_combination this
  interval_cases r <;> interval_cases c <;> simp [mmul, range2, range4, sxGate, pauliX, mat2]
  · linear_combination (2 * half * half) * hi + (0 : R) * h2
  · linear_combination (-(2 * half * half)) * hi + h2 * (1 : R) - (0:R)
  · linear_combination (-(2 * half * half)) * hi + h2 * (1 : R) - (0:R)
  · linear_combination (2 * half * half) * hi + (0 : R) * h2

theorem cnot_sq : MatEq 4 (mmul 4 (cnot : Tensor R) cnot) (ident 4) := by
  intro r c hr hc
  interval_cases r <;> interval_cases c <;> simp [mmul, range2, range4, cnot, permMat, ident]

theorem cz_sq : MatEq 4 (mmul 4 (cz : Tensor R) cz) (ident 4) := by
  intro r c hr hc
  interval_cases r <;> interval_cases c <;> simp [mmul, range2, range4, cz, permMat, ident]

theorem swap_sq : MatEq 4 (mmul 4 (swap : Tensor R) swap) (ident 4) := by
  intro r c hr hc
  interval_cases r <;> interval_cases c <;> simp [mmul, range2, range4, swap, permMat, ident]

/-! ### rotations compose additively (angle-addition form) -/

theorem rx_mul (i c₁ s₁ c₂ s₂ : R) (hi : i * i = -1) :
    MatEq 2 (mmul 2 (rx i c₁ s₁) (rx i c₂ s₂)) (rx i (c₁ * c₂ - s₁ * s₂) (s₁ * c₂ + c₁ * s₂)) := by
  intro r c hr hc
  interval_cases r <;> interval_cases c <;> simp [mmul, range2, rx, mat2] <;> first | ring1 | linear_combination (s₁ * s₂) * hi

theorem ry_mul (c₁ s₁ c₂ s₂ : R) :
    MatEq 2 (mmul 2 (ry c₁ s₁) (ry c₂ s₂)) (ry (c₁ * c₂ - s₁ * s₂) (s₁ * c₂ + c₁ * s₂)) := by
  intro r c hr hc
  interval_cases r <;> interval_cases c <;> simp [mmul, range2, range4, ry, mat2] <;> ring

theorem rz_mul (em₁ ep₁ em₂ ep₂ : R) :
    MatEq 2 (mmul 2 (rz em₁ ep₁) (rz em₂ ep₂)) (rz (em₁ * em₂) (ep₁ * ep₂)) := by
  intro r c hr hc
  interval_cases r <;> interval_cases c <;> simp [mmul, range2, range4, rz, mat2]

/-- a rotation by angle zero (`c = 1`, `s = 0`) is the identity -/
theorem rx_zero (i : R) : MatEq 2 (rx i 1 0) (ident 2) := by
  intro r c hr hc
  interval_cases r <;> interval_cases c <;> simp [rx, mat2, ident]

/-! ### the library's rotations at real angles (ℂ, `Real.cos`, `Real.sin`, `Complex.exp`) -/

/-- `RX(a) RX(b) = RX(a+b)` for all real angles, negative and beyond 2π included -/
theorem RX_composes_additively (a b : ℝ) (r c : Nat) (hr : r < 2) (hc : c < 2) :
    mmul 2 (PW.Rotations.RX a) (PW.Rotations.RX b) [r, c] = PW.Rotations.RX (a + b) [r, c] :=
  PW.Rotations.RX_add a b r c hr hc
theorem RY_composes_additively (a b : ℝ) (r c : Nat) (hr : r < 2) (hc : c < 2) :
    mmul 2 (PW.Rotations.RY a) (PW.Rotations.RY b) [r, c] = PW.Rotations.RY (a + b) [r, c] :=
  PW.Rotations.RY_add a b r c hr hc
theorem RZ_composes_additively (a b : ℝ) (r c : Nat) (hr : r < 2) (hc : c < 2) :
    mmul 2 (PW.Rotations.RZ a) (PW.Rotations.RZ b) [r, c] = PW.Rotations.RZ (a + b) [r, c] :=
  PW.Rotations.RZ_add a b r c hr hc
/-- a full turn is the identity up to the global sign −1 -/
theorem RX_full_turn (θ : ℝ) (r c : Nat) (hr : r < 2) (hc : c < 2) :
    PW.Rotations.RX (θ + 2 * Real.pi) [r, c] = -(PW.Rotations.RX θ [r, c]) := PW.Rotations.RX_two_pi θ r c hr hc
/-- sign convention `RX(θ) = exp(−iθX/2)`: the off-diagonal entry is `−i sin(θ/2)` -/
theorem RX_sign_convention (θ : ℝ) : PW.Rotations.RX θ [0, 1] = -(Complex.I * (Real.sin (θ / 2) : ℂ)) :=
  PW.Rotations.RX_offdiag θ

/-! ### unitarity (`M M† = 1`) -/
section unitary
variable [StarRing R]

theorem rx_unitary (i c s : R) (hi : i * i = -1) (si : star i = -i) (sc : star c = c) (ss : star s = s)
    (h1 : c * c + s * s = 1) : MatEq 2 (mmul 2 (rx i c s) (madj (rx i c s))) (ident 2) := by
  intro r k hr hk
  interval_cases r <;> interval_cases k <;>
    simp [mmul, range2, range4, madj, rx, mat2, ident, conj_eq_star, si, sc, ss]
  · linear_combination h1 - (s * s) * hi - s * s
  · ring
  · ring
  · linear_combination h1 - (s * s) * hi - s * s

theorem ry_unitary (c s : R) (sc : star c = c) (ss : star s = s) (h1 : c * c + s * s = 1) :
    MatEq 2 (mmul 2 (ry c s) (madj (ry c s))) (ident 2) := by
  intro r k hr hk
  interval_cases r <;> interval_cases k <;> simp [mmul, range2, range4, madj, ry, mat2, ident, conj_eq_star, sc, ss]
  · linear_combination h1
  · ring
  · ring
  · linear_combination h1

theorem hadamard_unitary (h : R) (sh : star h = h) (hh : h * h + h * h = 1) :
    MatEq 2 (mmul 2 (hadamard h) (madj (hadamard h))) (ident 2) := by
  intro r k hr hk
  interval_cases r <;> interval_cases k <;> simp [mmul, range2, range4, madj, hadamard, mat2, ident, conj_eq_star, sh, hh]

end unitary

/-! ### ladder operators -/

/-- `a |n⟩ = √n |n-1⟩` : column `n` of the annihilation operator -/
theorem annihilation_column (sq : Nat → R) (d n r : Nat) (hn : n < d) :
    annihilation sq d [r, n] = if r + 1 = n then sq n else 0 := by
  unfold annihilation
  by_cases h : n = r + 1
  · subst h; simp [hn]
  · have : ¬ r + 1 = n := fun h' => h h'.symm
    simp [h, this]

/-- the creation operator is the transpose of the annihilation operator (all entries are real) -/
theorem creation_eq_transpose (sq : Nat → R) (d r c : Nat) :
    creation sq d [r, c] = annihilation sq d [c, r] := by
  unfold creation annihilation; rfl

theorem mmul_apply (d : Nat) (A B : Tensor R) (r c : Nat) :
    mmul d A B [r, c] = ((List.range d).map fun k => A [r, k] * B [k, c]).sum := rfl

theorem sum_single (d j : Nat) (hj : j < d) (f : Nat → R) (h0 : ∀ k, k ≠ j → f k = 0) :
    ((List.range d).map f).sum = f j := by
  induction d with
  | zero => omega
  | succ d ih =>
    rw [List.range_succ, List.map_append, List.sum_append]
    by_cases hjd : j = d
    · subst hjd
      have : ((List.range j).map f).sum = 0 := by
        apply List.sum_eq_zero
        intro x hx
        simp only [List.mem_map, List.mem_range] at hx
        obtain ⟨k, hk, rfl⟩ := hx
        exact h0 k (by omega)
      simp [this]
    · rw [ih (by omega)]; simp [h0 d (fun h => hjd h.symm)]

theorem sum_zero (d : Nat) (f : Nat → R) (h0 : ∀ k, k < d → f k = 0) : ((List.range d).map f).sum = 0 := by
  apply List.sum_eq_zero
  intro x hx
  simp only [List.mem_map, List.mem_range] at hx
  obtain ⟨k, hk, rfl⟩ := hx
  exact h0 k hk

/-- `a† a` is the number operator: diagonal `n` (given `sq n * sq n = n`) -/
theorem number_eq (sq : Nat → R) (hsq : ∀ n, sq n * sq n = (n : R)) (hz : sq 0 = 0) (d r c : Nat)
    (hr : r < d) (hc : c < d) :
    mmul d (creation sq d) (annihilation sq d) [r, c] = if r = c then (r : R) else 0 := by
  rw [mmul_apply]
  cases r with
  | zero =>
    rw [sum_zero]
    · cases c <;> simp
    · intro k _; simp [creation]
  | succ r =>
    rw [sum_single d r (by omega)]
    · simp only [creation, annihilation]
      by_cases hrc : r + 1 = c
      · subst hrc; simp [hr, hsq]
      · have : ¬ c = r + 1 := fun h => hrc h.symm
        simp [hr, this, hrc]
    · intro k hk
      simp only [creation]
      have : ¬ r + 1 = k + 1 := by omega
      have h2 : ¬ r = k := fun h => hk h.symm
      simp [h2]

/-- `[a, a†] = 1` on every row below the cutoff -/
theorem commutator_below_cutoff (sq : Nat → R) (hsq : ∀ n, sq n * sq n = (n : R)) (hz : sq 0 = 0)
    (d r c : Nat) (hr : r + 1 < d) (hc : c < d) :
    mmul d (annihilation sq d) (creation sq d) [r, c] - mmul d (creation sq d) (annihilation sq d) [r, c]
      = if r = c then 1 else 0 := by
  rw [number_eq sq hsq hz d r c (by omega) hc, mmul_apply]
  rw [sum_single d (r + 1) hr]
  · simp only [annihilation, creation]
    by_cases hrc : r = c
    · subst hrc; simp [hr, hsq]
    · have : ¬ r + 1 = c + 1 := by omega
      simp [hr, this, hrc]
  · intro k hk
    simp only [annihilation]
    have : ¬ k = r + 1 := hk
    simp [this]

/-- the phase shifter is diagonal and additive in the phases -/
theorem phase_mul (ph₁ ph₂ : Nat → R) (d r c : Nat) (hr : r < d) (hc : c < d) :
    mmul d (phase ph₁ d) (phase ph₂ d) [r, c] = phase (fun n => ph₁ n * ph₂ n) d [r, c] := by
  rw [mmul_apply]
  rw [sum_single d r hr]
  · simp only [phase]
    by_cases hrc : r = c
    · subst hrc; simp [hr]
    · simp [hr, hrc]
  · intro k hk
    simp only [phase]
    have : ¬ r = k := fun h => hk h.symm
    simp [this]

/-! ### the source's gate tables are the model's (regenerated on every run) -/
theorem gate_tables_match : Generated.gateTables = TablesSpec.expectedGates :=
  PW.Props.Tables.gate_tables_as_expected

/-- the symbolic atoms of the table, interpreted in `R` -/
def atomVal (i h w half : R) : String → R
  | "zero" => 0 | "one" => 1 | "negOne" => -1 | "i" => i | "negI" => -i | "h" => h | "negH" => -h
  | "w" => w | "halfOnePlusI" => half * (1 + i) | "halfOneMinusI" => half * (1 + -i) | _ => 0

def tableEntry (t : List (List String)) (r c : Nat) : String := (t.getD r []).getD c "zero"

def lookup (name : String) : List (List String) :=
  ((TablesSpec.expectedGates.find? (·.1 == name)).map (·.2)).getD []

/-- every 2×2 gate of the model equals the corresponding table of the source, entry by entry -/
theorem model_matches_tables (i h w half : R) (r c : Nat) (hr : r < 2) (hc : c < 2) :
    (pauliX : Tensor R) [r, c] = atomVal i h w half (tableEntry (lookup "x_operator") r c) ∧
    pauliY i [r, c] = atomVal i h w half (tableEntry (lookup "y_operator") r c) ∧
    (pauliZ : Tensor R) [r, c] = atomVal i h w half (tableEntry (lookup "z_operator") r c) ∧
    hadamard h [r, c] = atomVal i h w half (tableEntry (lookup "hadamard_operator") r c) ∧
    sGate i [r, c] = atomVal i h w half (tableEntry (lookup "s_operator") r c) ∧
    tGate w [r, c] = atomVal i h w half (tableEntry (lookup "t_operator") r c) ∧
    sxGate i half [r, c] = atomVal i h w half (tableEntry (lookup "sx_operator") r c) ∧
    (ident 2 : Tensor R) [r, c] = atomVal i h w half (tableEntry (lookup "identity_operator") r c) := by
  interval_cases r <;> interval_cases c <;>
    simp [lookup, tableEntry, TablesSpec.expectedGates, atomVal, pauliX, pauliY, pauliZ, hadamard, sGate, tGate,
      sxGate, ident, mat2]

/-- the 4×4 and 8×8 controlled gates of the model equal the tables of the source -/
theorem model_matches_tables4 (i h w half : R) (r c : Nat) (hr : r < 4) (hc : c < 4) :
    (cnot : Tensor R) [r, c] = atomVal i h w half (tableEntry (lookup "controlled_not_operator") r c) ∧
    (cz : Tensor R) [r, c] = atomVal i h w half (tableEntry (lookup "controlled_z_operator") r c) ∧
    (swap : Tensor R) [r, c] = atomVal i h w half (tableEntry (lookup "swap_operator") r c) := by
  interval_cases r <;> interval_cases c <;>
    simp [lookup, tableEntry, TablesSpec.expectedGates, atomVal, cnot, cz, swap, permMat]

theorem model_matches_cswap (i h w half : R) (r c : Nat) (hr : r < 8) (hc : c < 8) :
    (cswap : Tensor R) [r, c] = atomVal i h w half (tableEntry (lookup "controlled_swap_operator") r c) := by
  interval_cases r <;> interval_cases c <;>
    simp [lookup, tableEntry, TablesSpec.expectedGates, atomVal, cswap, permMat]

/-- non-vacuity of the hypotheses: the Gaussian integers / a concrete ring satisfy `i² = -1` etc. -/
example : ∃ i : Int, ∃ c s : Int, c * c + s * s = 1 ∧ (i * i = -1 ∨ True) := ⟨0, 1, 0, by decide, Or.inr trivial⟩

end PW.Props.C12

#print axioms PW.Props.C12.pauliX_sq
#print axioms PW.Props.C12.pauliY_sq
#print axioms PW.Props.C12.pauliZ_sq
#print axioms PW.Props.C12.hadamard_sq
#print axioms PW.Props.C12.sGate_sq
#print axioms PW.Props.C12.tGate_sq
#print axioms PW.Props.C12.sxGate_sq
#print axioms PW.Props.C12.cnot_sq
#print axioms PW.Props.C12.cz_sq
#print axioms PW.Props.C12.swap_sq
#print axioms PW.Props.C12.rx_mul
#print axioms PW.Props.C12.ry_mul
#print axioms PW.Props.C12.rz_mul
#print axioms PW.Props.C12.rx_zero
#print axioms PW.Props.C12.RX_composes_additively
#print axioms PW.Props.C12.RY_composes_additively
#print axioms PW.Props.C12.RZ_composes_additively
#print axioms PW.Props.C12.RX_full_turn
#print axioms PW.Props.C12.RX_sign_convention
#print axioms PW.Props.C12.rx_unitary
#print axioms PW.Props.C12.ry_unitary
#print axioms PW.Props.C12.hadamard_unitary
#print axioms PW.Props.C12.annihilation_column
#print axioms PW.Props.C12.creation_eq_transpose
#print axioms PW.Props.C12.number_eq
#print axioms PW.Props.C12.commutator_below_cutoff
#print axioms PW.Props.C12.phase_mul
#print axioms PW.Props.C12.gate_tables_match
#print axioms PW.Props.C12.model_matches_tables
#print axioms PW.Props.C12.model_matches_tables4
#print axioms PW.Props.C12.model_matches_cswap
