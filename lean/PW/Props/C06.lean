import PW.Proofs.NoSignalN
import Mathlib.Tactic.IntervalCases
import PW.Props.C01
import PW.Proofs.SpecLemmas
import PW.Proofs.Channels
import PW.Props.Strings
/-!
# C06 — Kraus channels are applied as Σ K ρ K† on the named subsystems

`Spec.krausOn` is the sum over the operator list of `Spec.applyOn`.  Each summand is what the
generated `apply_operator_matrix` einsum computes (C01 theorem, any `n`, any ordered operand list),
hence so is the accumulated sum the implementation forms.
-/
namespace PW.Props.C06
open PW PW.Spec
open scoped ComplexOrder Matrix

variable {R : Type} [CommRing R] [StarRing R]

/-- the accumulated sum of the generated einsums over the operator list is the channel -/
theorem kraus_sum_of_plans (dims : List Nat) (T : List Nat) (hnd : T.Nodup)
    (hlt : ∀ p ∈ T, p < dims.length) (Ks : List (Tensor R)) (ρ : Tensor R) (r c : List Nat)
    (hr : r.length = dims.length) (hc : c.length = dims.length) :
    (Ks.map fun K => einsum (dimOf2 dims) (applyOperatorMatrix dims.length T).1
        (applyOperatorMatrix dims.length T).2 [K, ρ, fun idx => conj (K idx)] (r ++ c)).sum
      = krausOn dims T Ks ρ (r ++ c) := by
  unfold krausOn
  congr 1
  apply List.map_congr_left
  intro K _
  exact PW.Props.C01.apply_operator_matrix_is_applyOn dims T hnd hlt K ρ r c hr hc

theorem kraus_single (dims : List Nat) (T : List Nat) (K ρ : Tensor R) (rc : List Nat) :
    krausOn dims T [K] ρ rc = applyOn dims T K ρ rc := by
  simp [krausOn]

theorem kraus_append (dims : List Nat) (T : List Nat) (Ks Ls : List (Tensor R)) (ρ : Tensor R) (rc : List Nat) :
    krausOn dims T (Ks ++ Ls) ρ rc = krausOn dims T Ks ρ rc + krausOn dims T Ls ρ rc := by
  simp [krausOn, List.map_append, List.sum_append]

/-- the einsum literals of `Envelope.apply_kraus` are generated plans (one member; two members with
interleaved axes) -/
theorem envelope_kraus_strings_are_generated_plans :
    (PW.Props.Strings.plansOf "photon_weave/state/envelope.py" "apply_kraus").map canon
      = [canon (applyOperatorMatrix 1 [0]), canon (PW.Props.Strings.permuteAxes (applyOperatorMatrix 2 [0]) 1 [0, 2, 1, 3])] :=
  PW.Props.Strings.envelope_kraus_strings

/-- **Trace preservation** (Mathlib matrices over ℂ, addressed part `a`, everything else `b`, any
joint state, entangled or not): `Σ Kᵢ†Kᵢ = 1 ⇒ Tr Σ (Kᵢ⊗1)ρ(Kᵢ⊗1)† = Tr ρ`. -/
theorem channel_preserves_trace {a b ι : Type} [Fintype a] [Fintype b] [DecidableEq a] [DecidableEq b]
    (s : Finset ι) (K : ι → Matrix a a ℂ) (hK : ∑ i ∈ s, (K i)ᴴ * K i = 1) (ρ : Matrix (a × b) (a × b) ℂ) :
    Matrix.trace (∑ i ∈ s, PW.Channels.emb (K i) * ρ * (PW.Channels.emb (K i))ᴴ) = Matrix.trace ρ :=
  PW.Channels.kraus_trace_preserving s K hK ρ

/-- **Positivity**: the channel output is positive semidefinite (hence Hermitian) -/
theorem channel_preserves_positivity {a b ι : Type} [Fintype a] [Fintype b] [DecidableEq a] [DecidableEq b]
    (s : Finset ι) (K : ι → Matrix a a ℂ) (ρ : Matrix (a × b) (a × b) ℂ) (hρ : ρ.PosSemidef) :
    (∑ i ∈ s, PW.Channels.emb (K i) * ρ * (PW.Channels.emb (K i))ᴴ).PosSemidef :=
  PW.Channels.kraus_posSemidef s K ρ hρ

/-- **a trace-preserving channel on one subsystem preserves the trace, in a space of any number of
subsystems**, stated directly on the specification's `krausOn` (Kraus operators with
`Σ_m Σ_i K_m[i,j]·conj K_m[i,k] = δ_jk` below the cutoff), every dimension list, every joint state. -/
theorem channel_on_one_subsystem_preserves_trace {R : Type} [CommRing R] [StarRing R]
    (dims : List Nat) (q : Nat) (hq : q < dims.length) (Ks : List (Tensor R))
    (hK : ∀ j < dimOf2 dims q, ∀ k < dimOf2 dims q,
      (Ks.map fun U => ∑ i ∈ Finset.range (dimOf2 dims q), U [i, j] * PW.conj (U [i, k])).sum = if j = k then 1 else 0)
    (ρ : Tensor R) : trace dims (krausOn dims [q] Ks ρ) = trace dims ρ :=
  trace_krausOn_single dims q hq Ks hK ρ

/-- non-vacuity: the two basis projectors of a qubit (the dephasing channel) meet the hypothesis -/
example : let P0 : Tensor ℂ := fun idx => if idx = [0, 0] then 1 else 0
    let P1 : Tensor ℂ := fun idx => if idx = [1, 1] then 1 else 0
    ∀ j < dimOf2 [2, 3] 0, ∀ k < dimOf2 [2, 3] 0,
      ([P0, P1].map fun U => ∑ i ∈ Finset.range (dimOf2 [2, 3] 0), U [i, j] * PW.conj (U [i, k])).sum
        = if j = k then 1 else 0 := by
  intro P0 P1 j hj k hk
  have hd : dimOf2 [2, 3] 0 = 2 := by decide
  rw [hd] at hj hk ⊢
  interval_cases j <;> interval_cases k <;> simp [P0, P1, Finset.sum_range_succ, PW.conj_eq_star]

end PW.Props.C06

#print axioms PW.Props.C06.kraus_sum_of_plans
#print axioms PW.Props.C06.kraus_single
#print axioms PW.Props.C06.kraus_append
#print axioms PW.Props.C06.envelope_kraus_strings_are_generated_plans
#print axioms PW.Props.C06.channel_preserves_trace
#print axioms PW.Props.C06.channel_preserves_positivity
#print axioms PW.Props.C06.channel_on_one_subsystem_preserves_trace
