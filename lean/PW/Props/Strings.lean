import PW.Props.Tables
import PW.EinsumGen
/-!
# The hard-coded einsum literals are instances of the generated plans

`PW/Generated/Tables.lean` lists every einsum literal of the source as label lists (regenerated on
every run).  The literals used by the own-state and envelope bodies of `apply_operation`,
`apply_kraus` and `measure_POVM` are, up to relabelling (and, for the envelope's density-matrix
bodies, up to the `[0, 2, 1, 3]` transposition the code applies before and after), the plans that
`einsum_constructor` would generate for one or two members — whose semantics are the theorems
`applyOperatorVector_sem` / `applyOperatorMatrix_sem` (all `n`).
-/
namespace PW.Props.Strings
open PW

/-- the plans of one (file, function), in source order -/
def plansOf (file fn : String) : List Plan :=
  (TablesSpec.expectedPlans.filter (fun r => r.1 == file && r.2.1 == fn)).map (fun r => (r.2.2.1, r.2.2.2))

/-- apply an axis permutation to the label list of operand `k` and to the output -/
def permuteAxes (p : Plan) (k : Nat) (perm : List Nat) : Plan :=
  (p.1.mapIdx (fun i ls => if i = k then perm.map (fun a => ls.getD a 0) else ls), perm.map (fun a => p.2.getD a 0))

/-- own-state bodies (Fock, Polarization, CustomState): vector and matrix plan of a one-member space -/
theorem own_state_vector_string :
    (plansOf "photon_weave/state/fock.py" "apply_operation").map canon
      = [canon (applyOperatorVector 1 [0]), canon (applyOperatorMatrix 1 [0])] := by decide

theorem own_state_strings_agree :
    plansOf "photon_weave/state/fock.py" "apply_operation" = plansOf "photon_weave/state/polarization.py" "apply_operation" ∧
    plansOf "photon_weave/state/fock.py" "apply_operation" = plansOf "photon_weave/state/custom_state.py" "apply_operation" := by
  decide

/-- `Envelope.apply_operation`, vector level: the generated plan for two members, operator on the first -/
theorem envelope_vector_string :
    canon ((plansOf "photon_weave/state/envelope.py" "apply_operation").getD 0 ([], []))
      = canon (applyOperatorVector 2 [0]) := by decide

/-- `Envelope.apply_operation / apply_kraus / measure_POVM`, density-matrix level, one target: the
generated plan for two members with the state's and the result's axes interleaved `[0, 2, 1, 3]` -/
theorem envelope_matrix_string :
    canon ((plansOf "photon_weave/state/envelope.py" "apply_operation").getD 1 ([], []))
      = canon (permuteAxes (applyOperatorMatrix 2 [0]) 1 [0, 2, 1, 3]) := by decide

theorem envelope_kraus_strings :
    (plansOf "photon_weave/state/envelope.py" "apply_kraus").map canon
      = [canon (applyOperatorMatrix 1 [0]), canon (permuteAxes (applyOperatorMatrix 2 [0]) 1 [0, 2, 1, 3])] := by decide

/-- apply an axis permutation to the label lists of *all* operands and to the output -/
def permuteAll (p : Plan) (perm : List Nat) : Plan :=
  (p.1.map (fun ls => perm.map (fun a => ls.getD a 0)), perm.map (fun a => p.2.getD a 0))

/-- `Envelope.measure_POVM` on both members (probabilities and post-measurement state): the generated
plan for two members and the ordered operand list `[0, 1]`, with the axes of the operator, of the
state and of the result interleaved `[0, 2, 1, 3]` as the code transposes them.  (The literal that
stood here before the repair `1af2029` contracted the operator's *row* axis of the second member and
fails this theorem.) -/
theorem envelope_povm_two_member_string :
    canon ((plansOf "photon_weave/state/envelope.py" "measure_POVM").getD 0 ([], []))
      = canon (permuteAll (applyOperatorMatrix 2 [0, 1]) [0, 2, 1, 3]) := by decide

/-- … and the literal found at the pinned commit (`eacf,abcd,gbhd->egfh`) is *not* that plan -/
theorem envelope_povm_old_literal_is_not_the_plan :
    canon (([[0, 1, 2, 3], [1, 4, 2, 5], [6, 4, 7, 5]], [0, 6, 3, 7]) : Plan)
      ≠ canon (permuteAll (applyOperatorMatrix 2 [0, 1]) [0, 2, 1, 3]) := by decide

/-- permute the axes of operand `k` only -/
def permuteOperand (p : Plan) (k : Nat) (perm : List Nat) : Plan :=
  (p.1.mapIdx (fun i ls => if i = k then perm.map (fun a => ls.getD a 0) else ls), p.2)

/-- the two partial-trace literals of `Envelope.measure_POVM` (reduced state of the first / second
member of the interleaved tensor) are the generated partial-trace plans for two members -/
theorem envelope_povm_trace_strings :
    canon ((plansOf "photon_weave/state/envelope.py" "measure_POVM").getD 2 ([], []))
        = canon (permuteOperand (traceOutMatrix 2 [0]) 0 [0, 2, 1, 3]) ∧
    canon ((plansOf "photon_weave/state/envelope.py" "measure_POVM").getD 3 ([], []))
        = canon (permuteOperand (traceOutMatrix 2 [1]) 0 [0, 2, 1, 3]) := by decide

/-- the one-member literal of `Envelope.measure_POVM` is the same plan as in `apply_kraus` -/
theorem envelope_povm_one_member_string :
    canon ((plansOf "photon_weave/state/envelope.py" "measure_POVM").getD 1 ([], []))
      = canon (permuteAxes (applyOperatorMatrix 2 [0]) 1 [0, 2, 1, 3]) := by decide

end PW.Props.Strings
#print axioms PW.Props.Strings.own_state_vector_string
#print axioms PW.Props.Strings.own_state_strings_agree
#print axioms PW.Props.Strings.envelope_vector_string
#print axioms PW.Props.Strings.envelope_matrix_string
#print axioms PW.Props.Strings.envelope_kraus_strings
#print axioms PW.Props.Strings.envelope_povm_two_member_string
#print axioms PW.Props.Strings.envelope_povm_one_member_string
#print axioms PW.Props.Strings.envelope_povm_old_literal_is_not_the_plan
#print axioms PW.Props.Strings.envelope_povm_trace_strings
