import PW.Props.C01
import PW.Proofs.Gather
import PW.Proofs.KronFactor
/-!
# C03 — multi-subsystem operators bind to operands in the order given

The C01 theorem holds for *every ordered* duplicate-free list `T` of addressed positions: operator
axis `k` is contracted with position `T[k]`, wherever that position sits in the product space.
The witness shows the order matters (so the statement is not vacuous): CNOT with control/target
exchanged gives a different state.
-/
namespace PW.Props.C03
open PW

variable {R : Type} [CommRing R] [StarRing R]

/-- operator factor `k` acts on the `k`-th listed subsystem: the generated plan for the ordered
operand list `T` is `applyOn … T`, whose operator index is `T.map r ++ T.map e` (in list order) -/
theorem operands_bound_in_given_order (dims : List Nat) (T : List Nat) (hnd : T.Nodup)
    (hlt : ∀ p ∈ T, p < dims.length) (O ρ : Tensor R) (r c : List Nat)
    (hr : r.length = dims.length) (hc : c.length = dims.length) :
    einsum (Spec.dimOf2 dims) (applyOperatorMatrix dims.length T).1 (applyOperatorMatrix dims.length T).2
        [O, ρ, fun idx => conj (O idx)] (r ++ c)
      = Spec.applyOn dims T O ρ (r ++ c) :=
  PW.Props.C01.apply_operator_matrix_is_applyOn dims T hnd hlt O ρ r c hr hc

/-- **Operands stored apart are brought together.** After the combine that a multi-subsystem
operation triggers, all operands (wherever they were stored: own state, combined envelope, one or
several product spaces) are members of one product space of the composite envelope. -/
theorem operands_are_brought_together (l : Layout.Layout) (c : Nat) (T : List Nat) (hT : T ≠ [])
    (hall : ∀ t ∈ T, t ∈ Layout.allMembers l) :
    ∃ b ∈ Layout.combine l c T, b.kind = .ps c ∧ ∀ t ∈ T, t ∈ b.members :=
  Layout.combine_gathers l c T hT hall

/-- … without losing or duplicating any subsystem, and without touching blocks that hold no operand -/
theorem bringing_together_is_lossless (l : Layout.Layout) (c : Nat) (T : List Nat) (h : Layout.WF l) :
    (Layout.allMembers (Layout.combine l c T)).Perm (Layout.allMembers l) := Layout.combine_members_perm l c T h

theorem other_blocks_untouched (l : Layout.Layout) (c : Nat) (T fronts : List Nat) (b : Layout.Block)
    (hb : b ∈ l) (hwf : (Layout.allMembers l).Nodup) (hm : Layout.meets T b = false) (hf : ∀ f ∈ fronts, f ∈ T) :
    b ∈ Routing.actOp l c T fronts := Routing.actOp_bystander l c T fronts b hb hwf hm hf

/-- **factor k of a product operator acts on the k-th listed operand**: `(A ⊗ B)` on the ordered
operand list `[p, q]` is `A` on `p` after `B` on `q`, for every space and all positions `p ≠ q` -/
theorem product_operator_factorises (dims : List Nat) (p q : Nat) (hp : p < dims.length) (hq : q < dims.length)
    (hne : p ≠ q) (A B ρ : Tensor R) (r c : List Nat) (hr : r.length = dims.length) (hc : c.length = dims.length) :
    Spec.applyOn dims [p, q] (Spec.kronOp A B) ρ (r ++ c)
      = Spec.applyOn dims [p] A (Spec.applyOn dims [q] B ρ) (r ++ c) :=
  Spec.applyOn_kron dims p q hp hq hne A B ρ r c hr hc

/-- **operand order and operator axes go together**: the same operands listed in the other order,
with the operator's axes exchanged, give the same action (so "reverse storage order" is harmless
exactly when the operator is transposed accordingly, and only then) -/
theorem operand_order_matches_operator_axes (dims : List Nat) (p q : Nat) (hp : p < dims.length)
    (hq : q < dims.length) (hne : p ≠ q) (O ρ : Tensor R) (rc : List Nat) :
    Spec.applyOn dims [q, p] (Spec.swapOp O) ρ rc = Spec.applyOn dims [p, q] O ρ rc :=
  Spec.applyOn_swap dims p q hp hq hne O ρ rc

section witness
local instance : Conj Int := ⟨id⟩

/-- CNOT as an operator tensor on two qubits (axes: row control, row target, col control, col target) -/
def cnotT : Tensor Int
  | [a, b, a', b'] => if a = a' ∧ b = (if a' = 1 then 1 - b' else b') then 1 else 0
  | _ => 0

/-- the state |1⟩⟨1| ⊗ |0⟩⟨0| -/
def rho10 : Tensor Int
  | [1, 0, 1, 0] => 1
  | _ => 0

/-- control = first qubit flips the second: population moves to |11⟩ … -/
example : Spec.applyOn [2, 2] [0, 1] cnotT rho10 [1, 1, 1, 1] = 1 := by decide
/-- … control = second qubit (|0⟩) does nothing: operand order matters -/
example : Spec.applyOn [2, 2] [1, 0] cnotT rho10 [1, 1, 1, 1] = 0 := by decide
example : Spec.applyOn [2, 2] [1, 0] cnotT rho10 [1, 0, 1, 0] = 1 := by decide

theorem cnot_order_matters :
    Spec.applyOn [2, 2] [0, 1] cnotT rho10 [1, 1, 1, 1] ≠ Spec.applyOn [2, 2] [1, 0] cnotT rho10 [1, 1, 1, 1] := by
  decide
end witness

end PW.Props.C03

#print axioms PW.Props.C03.operands_bound_in_given_order
#print axioms PW.Props.C03.cnot_order_matters
#print axioms PW.Props.C03.operands_are_brought_together
#print axioms PW.Props.C03.bringing_together_is_lossless
#print axioms PW.Props.C03.other_blocks_untouched
#print axioms PW.Props.C03.product_operator_factorises
#print axioms PW.Props.C03.operand_order_matches_operator_axes
