import PW.Proofs.Truncation
import PW.Proofs.MixedRadix
import PW.Proofs.SpecLemmas
import PW.OpModel
import PW.Props.Tables
import PW.Proofs.NumQuanta
/-!
# C10 — Fock-space truncation never silently loses state

The abstraction of a stored block reads 0 outside the stored shape (`ofFlat_outside`), so padding
with zeros is the identity on the abstract state, and so is a shrink that cuts only entries that
are zero; a refused shrink leaves the state as it was.  The exact cutoff rules of the ladder /
phase / beam-splitter operations are `OpModel.dimsFor` (compared with the implementation for every
type in the C15 / C12 checks): highest occupied level + 2, + 1, and total + 1 on both modes.
-/
namespace PW.Props.C10
open PW

variable {R : Type} [Zero R]

/-- zero padding: outside the stored shape the state is zero -/
theorem padding_is_zero (ds : List Nat) (a : Array R) (idx : List Nat) (h : ¬ InRange ds idx) :
    ofFlat ds a idx = 0 := ofFlat_outside ds a idx h

/-- inside the stored shape the array is read back exactly (`reshape` round trip) -/
theorem stored_entries_kept (ds : List Nat) (t : Tensor R) (idx : List Nat) (h : InRange ds idx) :
    ofFlat ds (toFlat ds t) idx = t idx := ofFlat_toFlat ds t idx h

/-- re-storing a tensor in a shape that contains all its support loses nothing: the abstract state
(read with zero outside the shape) is unchanged.  `ds'` may be larger (padding) or smaller (a
lossless shrink) than the shape the tensor came from. -/
theorem resize_lossless (ds' : List Nat) (t : Tensor R) (hsupp : ∀ idx, ¬ InRange ds' idx → t idx = 0)
    (idx : List Nat) : ofFlat ds' (toFlat ds' t) idx = t idx := by
  by_cases h : InRange ds' idx
  · exact ofFlat_toFlat ds' t idx h
  · rw [ofFlat_outside ds' _ idx h, hsupp idx h]

/-- a refused shrink leaves the state untouched -/
theorem refused_shrink_unchanged {S : Type} [Add S] [Mul S] [Zero S] [One S] [Conj S] (ρ ρ' : Tensor S) :
    (Spec.resizeChecked false ρ ρ').state = ρ := rfl

/-- exact cutoffs: creation / annihilation need `q + 2`, phase shift `q + 1`, a beam splitter
`q₁ + q₂ + 1` on both modes -/
theorem ladder_cutoff (q : Nat) (old : List Nat) :
    OpModel.dimsFor .creation [q] [q + 1] old = [q + 2] ∧ OpModel.dimsFor .annihilation [q] [q + 1] old = [q + 2] ∧
    OpModel.dimsFor .phaseShift [q] [q + 1] old = [q + 1] := ⟨rfl, rfl, rfl⟩

theorem beam_splitter_cutoff (q₁ q₂ : Nat) (old : List Nat) :
    OpModel.dimsFor .beamSplitter [q₁, q₂] [q₁ + 1, q₂ + 1] old = [q₁ + q₂ + 1, q₁ + q₂ + 1] := by
  simp [OpModel.dimsFor]

/-- the shrink decision (model `PW.Decide.shrinkAllowed`): allowed iff the highest occupied level fits into the new dimension -/
abbrev shrinkAllowed := PW.Decide.shrinkAllowed

/-- an allowed shrink cuts only levels above the highest occupied one -/
theorem allowed_shrink_keeps_every_occupied_level (q d k : Nat) (h : shrinkAllowed q d = true) (hk : k ≤ q) : k < d := by
  simp only [shrinkAllowed, PW.Decide.shrinkAllowed, decide_eq_true_eq] at h
  omega

/-- a request for exactly the highest occupied level (or less) is refused -/
theorem shrink_to_occupied_level_refused (q d : Nat) (h : d ≤ q) : shrinkAllowed q d = false := by
  simp only [shrinkAllowed, PW.Decide.shrinkAllowed, decide_eq_false_iff_not]
  omega

/-- **the level estimate is exact**: `num_quanta_vector` returns an index whose amplitude is not zero and
above which every amplitude is exactly zero (model `PW.Decide.numQuantaVector`, compared with the
library function on crafted vectors and matrices) -/
theorem level_estimate_is_highest_occupied {α : Type} (nz : α → Bool) (v : List α) (q : Nat)
    (h : PW.Decide.numQuantaVector nz v = some q) :
    (∃ x, v[q]? = some x ∧ nz x = true) ∧ ∀ i x, q < i → v[i]? = some x → nz x = false :=
  PW.Decide.numQuantaVector_spec nz v q h

/-- hence a shrink that the rule allows cuts only amplitudes that are exactly zero (`resize_lossless` applies) -/
theorem allowed_shrink_cuts_only_zeros {α : Type} (nz : α → Bool) (v : List α) (q d : Nat)
    (hq : PW.Decide.numQuantaVector nz v = some q) (hd : shrinkAllowed q d = true) :
    ∀ i x, d ≤ i → v[i]? = some x → nz x = false :=
  PW.Decide.allowed_shrink_cuts_only_zeros nz v q d hq hd

/-- every shrink decision in the source (regenerated on every run) is this rule -/
theorem source_shrink_decisions : PW.Generated.resizeGuards.all PW.TablesSpec.shrinkRuleOk = true :=
  PW.Props.Tables.resize_guards_are_the_rule

/-- **the beam-splitter cutoff `q₁ + q₂ + 1` is exact** (Mathlib matrices over ℂ, the library's generator): for
cutoffs `d ≤ d'`, every mixing angle, on the states of total photon number below `d` — all the population
of an input with `q₁ + q₂ < d` — the splitter `exp(iηG)` computed at cutoff `d` and embedded into cutoff
`d'` is the splitter computed at cutoff `d'`.  So the result at `d = q₁ + q₂ + 1` is the one of every
larger cutoff. -/
theorem beam_splitter_cutoff_is_exact {d d' : ℕ} (hdd : d ≤ d') (η : ℝ) :
    PW.Props.C11.bsU d' d' η * (PW.Truncation.embed d d' * PW.Truncation.low d)
      = PW.Truncation.embed d d' * (PW.Props.C11.bsU d d η * PW.Truncation.low d) :=
  PW.Truncation.bs_truncation_exact hdd η

/-- **the creation cutoff `q + 2` is exact**: on a vector supported on levels `≤ q`, `a†` at any cutoff
`d' ≥ d ≥ q + 2` has the entries of `a†` at cutoff `d`, and zeros beyond -/
theorem creation_cutoff_is_exact {d d' : ℕ} (q : ℕ) (hd : q + 2 ≤ d) (hdd : d ≤ d') (ψ : ℕ → ℂ)
    (hψ : ∀ n, q < n → ψ n = 0) (r : Fin d') :
    (PW.Props.C11.cre d').mulVec (fun c => ψ c) r
      = if h : (r : ℕ) < d then (PW.Props.C11.cre d).mulVec (fun c => ψ c) ⟨r, h⟩ else 0 :=
  PW.Truncation.creation_truncation_exact q hd hdd ψ hψ r

/-- **annihilation is exact at every cutoff above the occupied levels** -/
theorem annihilation_cutoff_is_exact {d d' : ℕ} (q : ℕ) (hd : q + 1 ≤ d) (hdd : d ≤ d') (ψ : ℕ → ℂ)
    (hψ : ∀ n, q < n → ψ n = 0) (r : Fin d') :
    (PW.Props.C11.ann d').mulVec (fun c => ψ c) r
      = if h : (r : ℕ) < d then (PW.Props.C11.ann d).mulVec (fun c => ψ c) ⟨r, h⟩ else 0 :=
  PW.Truncation.annihilation_truncation_exact q hd hdd ψ hψ r

/-- **the phase-shift cutoff `q + 1` is exact** -/
theorem phase_shift_cutoff_is_exact {d d' : ℕ} (q : ℕ) (hd : q + 1 ≤ d) (hdd : d ≤ d') (φ : ℝ) (ψ : ℕ → ℂ)
    (hψ : ∀ n, q < n → ψ n = 0) (r : Fin d') :
    (PW.Truncation.phaseOp d' φ).mulVec (fun c => ψ c) r
      = if h : (r : ℕ) < d then (PW.Truncation.phaseOp d φ).mulVec (fun c => ψ c) ⟨r, h⟩ else 0 :=
  PW.Truncation.phase_truncation_exact q hd hdd φ ψ hψ r

end PW.Props.C10

#print axioms PW.Props.C10.padding_is_zero
#print axioms PW.Props.C10.stored_entries_kept
#print axioms PW.Props.C10.resize_lossless
#print axioms PW.Props.C10.refused_shrink_unchanged
#print axioms PW.Props.C10.ladder_cutoff
#print axioms PW.Props.C10.beam_splitter_cutoff
#print axioms PW.Props.C10.allowed_shrink_keeps_every_occupied_level
#print axioms PW.Props.C10.shrink_to_occupied_level_refused
#print axioms PW.Props.C10.source_shrink_decisions
#print axioms PW.Props.C10.level_estimate_is_highest_occupied
#print axioms PW.Props.C10.allowed_shrink_cuts_only_zeros
#print axioms PW.Props.C10.beam_splitter_cutoff_is_exact
#print axioms PW.Props.C10.creation_cutoff_is_exact
#print axioms PW.Props.C10.annihilation_cutoff_is_exact
#print axioms PW.Props.C10.phase_shift_cutoff_is_exact
