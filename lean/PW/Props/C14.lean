import PW.Rng
/-!
# C14 — runs are reproducible from the seed and random draws are never reused

In the model the only hidden state is the key.  After `set_seed s` the `n`-th key handed to a
sampler is `nthKey s n`, a function of `(s, n)` only — whatever happened before the seeding — and
the keys of different draws are different paths of the split tree.
-/
namespace PW.Props.C14
open PW.Rng

theorem depth_iterRight (n : Nat) (k : Key) : depth (iterRight n k) = depth k + n := by
  induction n generalizing k with
  | zero => simp [iterRight]
  | succ n ih => simp [iterRight, ih, depth]; omega

/-- the keys produced by `n` reads starting from key `k` -/
theorem draws_eq (n : Nat) (c : Cfg) :
    (draws n c).1 = (List.range n).map (fun i => Key.left (iterRight i c.key)) ∧
    (draws n c).2 = ⟨iterRight n c.key⟩ := by
  induction n generalizing c with
  | zero => simp [draws, iterRight]
  | succ n ih =>
    obtain ⟨h1, h2⟩ := ih (randomKey c).2
    constructor
    · simp only [draws, randomKey] at h1 ⊢
      rw [h1, List.range_succ_eq_map]
      simp [iterRight, List.map_map, Function.comp_def]
    · simp only [draws, randomKey] at h2 ⊢
      rw [h2]; simp [iterRight]

/-- **Reproducibility.** After `set_seed s` the sequence of keys is a function of `s` and the
number of draws only: it does not depend on the configuration (history) before the seeding. -/
theorem seeded_keys (c : Cfg) (s n : Nat) :
    (draws n (setSeed c s)).1 = (List.range n).map (nthKey s) := by
  rw [(draws_eq n (setSeed c s)).1]; rfl

theorem seeded_keys_independent_of_history (c₁ c₂ : Cfg) (s n : Nat) :
    (draws n (setSeed c₁ s)).1 = (draws n (setSeed c₂ s)).1 := by
  rw [seeded_keys, seeded_keys]

/-- **Freshness.** Two different draws never receive the same key. -/
theorem nthKey_injective (s n m : Nat) (h : nthKey s n = nthKey s m) : n = m := by
  have := congrArg depth h
  simp only [nthKey, depth, depth_iterRight] at this
  omega

/-- the key left in the configuration is never one handed to a sampler -/
theorem state_key_not_drawn (s n m : Nat) : nthKey s m ≠ iterRight n (.root s) ∨ m + 1 = n := by
  by_cases h : m + 1 = n
  · exact Or.inr h
  · left; intro heq
    have := congrArg depth heq
    simp only [nthKey, depth, depth_iterRight] at this
    omega

/-- every read advances the state: one key per draw -/
theorem one_key_per_draw (n : Nat) (c : Cfg) : ((draws n c).1).length = n := by
  rw [(draws_eq n c).1]; simp

example : nthKey 7 0 ≠ nthKey 7 1 := by decide

end PW.Props.C14

#print axioms PW.Props.C14.draws_eq
#print axioms PW.Props.C14.seeded_keys
#print axioms PW.Props.C14.seeded_keys_independent_of_history
#print axioms PW.Props.C14.nthKey_injective
#print axioms PW.Props.C14.state_key_not_drawn
#print axioms PW.Props.C14.one_key_per_draw
