import PW.Proofs.CollapsePSD
import PW.Proofs.SpecLemmas
import PW.Proofs.MixedRadix
import PW.Proofs.Grid
import PW.Proofs.Channels
/-!
# C07 — every stored state is a valid normalised quantum state of its claimed form

Proved here: the Hermiticity half of validity is an invariant of the specification steps that do
not involve an operator (new subsystem in a pure state, collapse, real rescaling), and the shape
half: an array written with `toFlat` for shape `dims ++ dims` has `(∏ dims)²` entries and is read
back faithfully.  Tested on the real object graph after every call of every program (all checks):
unit trace / unit norm, Hermitian, positive semidefinite, shape = product of member dimensions,
level tag = representation, members report the block's level.
-/
namespace PW.Props.C07
open PW PW.Spec
open scoped ComplexOrder Matrix

variable {R : Type} [CommRing R] [StarRing R]

theorem new_subsystem_keeps_hermitian (dims : List Nat) (v ρ : Tensor R) (h : Hermitian dims.length ρ) :
    Hermitian (dims.length + 1) (tensorVec dims v ρ) := tensorVec_hermitian dims v ρ h

theorem collapse_keeps_hermitian (dims : List Nat) (p o : Nat) (ρ : Tensor R) (h : Hermitian dims.length ρ) :
    Hermitian dims.length (projectOn dims p o ρ) := projectOn_hermitian dims p o ρ h

theorem rescale_keeps_hermitian (n : Nat) (s : R) (hs : star s = s) (ρ : Tensor R) (h : Hermitian n ρ) :
    Hermitian n (scale s ρ) := scale_hermitian n s hs ρ h

/-- renormalisation gives unit trace: `Tr(ρ / Tr ρ) = 1` when `s · Tr ρ = 1` -/
theorem renormalised_trace (dims : List Nat) (s : R) (ρ : Tensor R) (hs : s * trace dims ρ = 1) :
    trace dims (scale s ρ) = 1 := by
  unfold trace scale at *
  rw [sumGrid_mul_left]; exact hs

/-- the stored array has exactly `∏ shape` entries -/
theorem stored_size (ds : List Nat) (t : Tensor R) : (toFlat ds t).size = ds.prod := by
  unfold toFlat; simp

/-- and holds the state: reading it back inside the shape returns the entry -/
theorem stored_faithful (ds : List Nat) (t : Tensor R) (idx : List Nat) (h : InRange ds idx) :
    ofFlat ds (toFlat ds t) idx = t idx := ofFlat_toFlat ds t idx h

/-- any operation on the addressed part keeps the joint state positive semidefinite (Mathlib
matrices over ℂ) -/
theorem operation_keeps_positivity {a b : Type} [Fintype a] [Fintype b] [DecidableEq a] [DecidableEq b]
    (O : Matrix a a ℂ) (ρ : Matrix (a × b) (a × b) ℂ) (hρ : ρ.PosSemidef) :
    (PW.Channels.emb O * ρ * (PW.Channels.emb O)ᴴ).PosSemidef := PW.Channels.operation_posSemidef O ρ hρ

/-- a unitary operation keeps the trace -/
theorem unitary_keeps_trace {a b : Type} [Fintype a] [Fintype b] [DecidableEq a] [DecidableEq b]
    (U : Matrix a a ℂ) (hU : Uᴴ * U = 1) (ρ : Matrix (a × b) (a × b) ℂ) :
    Matrix.trace (PW.Channels.emb U * ρ * (PW.Channels.emb U)ᴴ) = Matrix.trace ρ :=
  PW.Channels.unitary_trace_preserving U hU ρ

/-- **a measurement outcome leaves a valid state**: the collapsed state `(Π_o ⊗ 1) ρ (Π_o ⊗ 1)` of a
positive semidefinite joint state is positive semidefinite (hence Hermitian); with
`conditioning_keeps_weight` (C04) its trace is the outcome's probability, so dividing by it gives a
unit-trace density matrix -/
theorem collapse_keeps_positive_semidefinite {a b : Nat} (o : Nat) (ho : o < a) (ρ : PW.Tensor ℂ)
    (hρ : (PW.Adequacy.toMatrix (a := a) (b := b) ρ).PosSemidef) :
    (PW.Adequacy.toMatrix (a := a) (b := b) (PW.Spec.projectOn [a, b] 0 o ρ)).PosSemidef :=
  PW.Adequacy.projectOn_posSemidef o ho ρ hρ

end PW.Props.C07

#print axioms PW.Props.C07.new_subsystem_keeps_hermitian
#print axioms PW.Props.C07.collapse_keeps_hermitian
#print axioms PW.Props.C07.rescale_keeps_hermitian
#print axioms PW.Props.C07.renormalised_trace
#print axioms PW.Props.C07.stored_size
#print axioms PW.Props.C07.stored_faithful
#print axioms PW.Props.C07.operation_keeps_positivity
#print axioms PW.Props.C07.unitary_keeps_trace
#print axioms PW.Props.C07.collapse_keeps_positive_semidefinite
