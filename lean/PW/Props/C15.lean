import PW.OpModel
import PW.Props.Tables
/-!
# C15 — operation objects are pure, reusable descriptions

What an application reads from an operation object (`effective`) depends only on its type, its
parameters and the operands — not on what the cached fields held before (left there by an earlier
application to a subsystem of a different size, or by anyone else).  `FockOperationType.Custom`
keeps its construction-time dimension by design and is the stated exception.
-/
namespace PW.Props.C15
open PW.OpModel

/-- the cache never influences an application (all types but Fock-custom) -/
theorem apply_ignores_cache (op : Operation) (d' : List Nat) (o' : Option Nat) (q sizes : List Nat)
    (h : op.type ≠ .fockCustom) :
    effective op q sizes = effective { op with cachedDims := d', cachedOp := o' } q sizes := by
  unfold effective computeDimensions dimsFor
  cases ht : op.type <;> simp_all

/-- applying twice to the same operands recomputes the same dimensions (idempotent) -/
theorem recompute_idempotent (op : Operation) (q sizes : List Nat) :
    computeDimensions (computeDimensions op q sizes) q sizes = computeDimensions op q sizes := by
  unfold computeDimensions dimsFor
  cases ht : op.type <;> simp

/-- an application never changes type or parameters -/
theorem params_untouched (op : Operation) (q sizes : List Nat) :
    (computeDimensions op q sizes).type = op.type ∧ (computeDimensions op q sizes).params = op.params :=
  ⟨rfl, rfl⟩

/-- reuse on operands of different sizes: the second application sees the second operands only -/
theorem reuse_sees_new_operands (op : Operation) (q₁ s₁ q₂ s₂ : List Nat) (h : op.type ≠ .fockCustom) :
    effective (computeDimensions op q₁ s₁) q₂ s₂ = effective op q₂ s₂ := by
  unfold effective computeDimensions dimsFor
  cases ht : op.type <;> simp_all

/-- the Fock-custom exception is real: its dimension is whatever was cached at construction -/
example : (computeDimensions ⟨.fockCustom, [], [5], none⟩ [0] [2]).cachedDims = [5] := by decide
example : (computeDimensions ⟨.creation, [], [5], none⟩ [1] [2]).cachedDims = [3] := by decide

/-- required parameters / renormalise flags of every operation type are those of the source -/
theorem op_table_matches : PW.Generated.opTable = PW.TablesSpec.expectedOps :=
  PW.Props.Tables.op_table_as_expected

end PW.Props.C15

#print axioms PW.Props.C15.apply_ignores_cache
#print axioms PW.Props.C15.recompute_idempotent
#print axioms PW.Props.C15.params_untouched
#print axioms PW.Props.C15.reuse_sees_new_operands
#print axioms PW.Props.C15.op_table_matches
