import PW.Proofs.LayoutLemmas
import PW.Proofs.LayoutWF
import PW.Proofs.RoutingWF
import PW.Proofs.MeasureWF
import PW.Proofs.RoutingWF2
/-!
# C13 — the object graph's bookkeeping is always truthful

On the partition model: *every live subsystem is stored in exactly one block and no block is empty*
(`WF`) is preserved by measurement (subsystems leave, emptied blocks disappear) and a combine
never invents or loses a block other than the ones it joins.  The public index of a subsystem is
*derived* from the partition (`indexOf`), so it names the place by construction; the correspondence
check compares it with the real `index` attributes, registries and back pointers after every call.
-/
namespace PW.Props.C13
open PW.Layout

theorem allMembers_cons (b : Block) (l : Layout) : allMembers (b :: l) = b.members ++ allMembers l :=
  PW.Layout.allMembers_cons b l

theorem removeMeasured_sublist (l : Layout) (M : List Nat) :
    (allMembers (removeMeasured l M)).Sublist (allMembers l) := PW.Layout.removeMeasured_sublist l M

/-- **Invariant under measurement.** Exactly-one-place and no-empty-block survive the removal of
measured subsystems. -/
theorem WF_removeMeasured (l : Layout) (M : List Nat) (h : WF l) : WF (removeMeasured l M) :=
  PW.Layout.WF_removeMeasured l M h

/-- a live, unmeasured subsystem is still stored somewhere afterwards -/
theorem unmeasured_still_stored (l : Layout) (M : List Nat) (x : Nat) (hx : x ∈ allMembers l) (hm : x ∉ M) :
    x ∈ allMembers (removeMeasured l M) := by
  unfold allMembers at *
  simp only [List.mem_flatten, List.mem_map] at hx ⊢
  obtain ⟨ms, ⟨b, hb, rfl⟩, hxm⟩ := hx
  have hx' : x ∈ b.members.filter (· ∉ M) := List.mem_filter.mpr ⟨hxm, by simpa using hm⟩
  refine ⟨_, ⟨{ b with members := b.members.filter (· ∉ M) }, ?_, rfl⟩, hx'⟩
  unfold removeMeasured
  rw [List.mem_filter, List.mem_map]
  refine ⟨⟨b, hb, rfl⟩, ?_⟩
  simp only [Bool.not_eq_true']
  cases hfe : List.filter (fun x => decide (x ∉ M)) b.members with
  | nil => rw [hfe] at hx'; exact absurd hx' List.not_mem_nil
  | cons a as => rfl

/-- **Invariant under combine / routed actions.** Joining the blocks that hold the addressed
subsystems keeps "exactly one place, no empty block", and neither loses nor invents a subsystem. -/
theorem WF_combine (l : Layout) (c : Nat) (T : List Nat) (h : WF l) : WF (combine l c T) :=
  PW.Layout.WF_combine l c T h

theorem WF_route (l : Layout) (c : Nat) (T : List Nat) (h : WF l) : WF (route l c T) :=
  PW.Layout.WF_route l c T h

theorem combine_keeps_all_subsystems (l : Layout) (c : Nat) (T : List Nat) (h : WF l) :
    (allMembers (combine l c T)).Perm (allMembers l) := combine_members_perm l c T h

theorem WF_reorder (l : Layout) (c : Nat) (T : List Nat) (hT : T.Nodup) (h : WF l) : WF (reorder l c T) :=
  PW.Layout.WF_reorder l c T hT h

/-- the full routing of `apply_operation` keeps the invariant -/
theorem WF_operation (l : Layout) (c : Nat) (T fronts : List Nat) (h : WF l) : WF (PW.Routing.actOp l c T fronts) :=
  PW.Routing.WF_actOp l c T fronts h

theorem WF_resize (l : Layout) (f : Nat) (shrink : Bool) (h : WF l) : WF (PW.Routing.actResize l f shrink) :=
  PW.Routing.WF_actResize l f shrink h
theorem WF_trace_out (l : Layout) (c : Nat) (T : List Nat) (hT : T.Nodup) (h : WF l) :
    WF (PW.Routing.ceTraceOut l c T) := PW.Routing.WF_ceTraceOut l c T hT h
theorem WF_povm_routing (l : Layout) (c : Nat) (T : List Nat) (hT : T.Nodup) (h : WF l) :
    WF (PW.Routing.cePovm l c T) := PW.Routing.WF_cePovm l c T hT h
theorem WF_envelope_reorder (l : Layout) (T : List Nat) (hT : T.Nodup) (h : WF l) :
    WF (PW.Routing.envOrder l T) := PW.Routing.WF_envOrder l T hT h

/-- the invariant holds along every history of combines, routed actions and measurements -/
inductive Step where
  | combine (c : Nat) (T : List Nat)
  | act (c : Nat) (T : List Nat)
  | measure (M : List Nat)
  | operation (c : Nat) (T fronts : List Nat)
  | resize (f : Nat) (shrink : Bool)

def step (l : Layout) : Step → Layout
  | .combine c T => combine l c T
  | .act c T => route l c T
  | .measure M => removeMeasured l M
  | .operation c T fronts => PW.Routing.actOp l c T fronts
  | .resize f shrink => PW.Routing.actResize l f shrink

theorem WF_history (l : Layout) (h : WF l) (hist : List Step) : WF (hist.foldl step l) := by
  induction hist generalizing l with
  | nil => exact h
  | cons s hist ih =>
    apply ih
    cases s with
    | combine c T => exact PW.Layout.WF_combine l c T h
    | act c T => exact PW.Layout.WF_route l c T h
    | measure M => exact WF_removeMeasured l M h
    | operation c T fronts => exact PW.Routing.WF_actOp l c T fronts h
    | resize f shrink => exact PW.Routing.WF_actResize l f shrink h

/-! ### every routed public call -/

/-- the routed public calls of the model `PW.Routing` (what the correspondence check mirrors after
every step of every program) -/
inductive Call where
  | operation (c : Nat) (T fronts : List Nat)
  | kraus (i : PW.Routing.Info) (c : Nat) (entry : PW.Routing.Entry) (T : List Nat)
  | traceOut (i : PW.Routing.Info) (c : Nat) (entry : PW.Routing.Entry) (T : List Nat)
  | povm (c : Nat) (T : List Nat)
  | measure (M survivors : List Nat)
  | resize (f : Nat) (shrink : Bool)
  | envCombine (f p : Nat)
  | envReorder (T : List Nat)
  | ceCombine (c : Nat) (T : List Nat)
  | ceReorder (c : Nat) (T : List Nat)
  | merge (keep : Nat) (others : List Nat)

/-- a request as the public API accepts it: operands listed once, the two members of an envelope are
different subsystems, survivors of a measurement are among the measured and listed once -/
def Call.valid : Call → Prop
  | .kraus _ _ _ T => T.Nodup
  | .traceOut _ _ _ T => T.Nodup
  | .povm _ T => T.Nodup
  | .measure M s => s.Nodup ∧ ∀ x ∈ s, x ∈ M
  | .envCombine f p => f ≠ p
  | .envReorder T => T.Nodup
  | .ceReorder _ T => T.Nodup
  | _ => True

def call (l : Layout) : Call → Layout
  | .operation c T fronts => PW.Routing.actOp l c T fronts
  | .kraus i c e T => PW.Routing.actKraus i l c e T
  | .traceOut i c e T => PW.Routing.actTraceOut i l c e T
  | .povm c T => PW.Routing.cePovm l c T
  | .measure M s => PW.Routing.actMeasure l M s
  | .resize f shrink => PW.Routing.actResize l f shrink
  | .envCombine f p => PW.Routing.envCombine l f p
  | .envReorder T => PW.Routing.envOrder l T
  | .ceCombine c T => combine l c T
  | .ceReorder c T => reorder l c T
  | .merge keep others => PW.Routing.mergeContainers l keep others

theorem WF_call (l : Layout) (h : WF l) (s : Call) (hv : s.valid) : WF (call l s) := by
  cases s with
  | operation c T fronts => exact PW.Routing.WF_actOp l c T fronts h
  | kraus i c e T => exact PW.Routing.WF_actKraus i l c e T hv h
  | traceOut i c e T => exact PW.Routing.WF_actTraceOut i l c e T hv h
  | povm c T => exact PW.Routing.WF_cePovm l c T hv h
  | measure M sv => exact PW.Routing.WF_actMeasure l M sv hv.1 hv.2 h
  | resize f shrink => exact PW.Routing.WF_actResize l f shrink h
  | envCombine f p => exact PW.Routing.WF_envCombine l f p hv h
  | envReorder T => exact PW.Routing.WF_envOrder l T hv h
  | ceCombine c T => exact PW.Layout.WF_combine l c T h
  | ceReorder c T => exact PW.Layout.WF_reorder l c T hv h
  | merge keep others => exact PW.Routing.WF_mergeContainers l keep others h

/-- **every live subsystem is stored in exactly one place, and no storage block is empty, after any
history of routed public calls** (operations, channels, partial traces, POVMs, measurements with
survivors, resizes, envelope / composite combine and reorder, merges of composite envelopes) -/
theorem WF_every_history (l : Layout) (h : WF l) (hist : List Call) (hv : ∀ s ∈ hist, s.valid) :
    WF (hist.foldl call l) := by
  induction hist generalizing l with
  | nil => exact h
  | cons s hist ih =>
    exact ih _ (WF_call l h s (hv s List.mem_cons_self)) (fun x hx => hv x (List.mem_cons_of_mem _ hx))

/-- the initial partition of any set-up (every subsystem on its own) is well formed -/
theorem WF_initial (n : Nat) : WF ((List.range n).map fun x => (⟨Kind.own, [x]⟩ : Block)) := by
  constructor
  · rw [PW.Routing.allMembers_own]; exact List.nodup_range
  · intro b hb
    obtain ⟨x, _, rfl⟩ := List.mem_map.mp hb
    simp

/-- the public index derived from the partition: (product-space position, tensor position) -/
def indexOf (l : Layout) (c x : Nat) : Option (Nat × Nat) :=
  let spaces := l.filter (fun b => b.kind == .ps c)
  match spaces.findIdx? (fun b => x ∈ b.members) with
  | some k => some (k, (spaces.getD k ⟨.own, []⟩).members.idxOf x)
  | none => none

/-- the derived index names the place: the block at that position holds the subsystem there -/
theorem index_names_place (l : Layout) (c x k j : Nat) (h : indexOf l c x = some (k, j)) :
    ∃ b, (l.filter (fun b => b.kind == .ps c))[k]? = some b ∧ b.members[j]? = some x := by
  unfold indexOf at h
  dsimp only at h
  cases hf : (l.filter (fun b => b.kind == .ps c)).findIdx? (fun b => x ∈ b.members) with
  | none => simp [hf] at h
  | some k' =>
    simp only [hf, Option.some.injEq, Prod.mk.injEq] at h
    obtain ⟨rfl, rfl⟩ := h
    have hk := List.findIdx?_eq_some_iff_getElem.mp hf
    obtain ⟨hlt, hp, _⟩ := hk
    refine ⟨(l.filter (fun b => b.kind == .ps c))[k'], by simp [hlt], ?_⟩
    have hmem : x ∈ ((l.filter (fun b => b.kind == .ps c))[k']).members := by simpa using hp
    rw [List.getD_eq_getElem?_getD, List.getElem?_eq_getElem hlt]
    simp only [Option.getD_some]
    exact List.getElem?_idxOf hmem

/-- non-vacuity: after measuring away the first product space the index of a member of the second
one is (0, ·), not the stale (1, ·) -/
example : indexOf (removeMeasured [⟨.ps 0, [1, 2]⟩, ⟨.ps 0, [3, 4, 5]⟩] [1, 2]) 0 4 = some (0, 1) := by decide

end PW.Props.C13

#print axioms PW.Props.C13.removeMeasured_sublist
#print axioms PW.Props.C13.WF_removeMeasured
#print axioms PW.Props.C13.unmeasured_still_stored
#print axioms PW.Props.C13.index_names_place
#print axioms PW.Props.C13.WF_combine
#print axioms PW.Props.C13.WF_route
#print axioms PW.Props.C13.combine_keeps_all_subsystems
#print axioms PW.Props.C13.WF_history
#print axioms PW.Props.C13.WF_reorder
#print axioms PW.Props.C13.WF_operation
#print axioms PW.Props.C13.WF_resize
#print axioms PW.Props.C13.WF_trace_out
#print axioms PW.Props.C13.WF_povm_routing
#print axioms PW.Props.C13.WF_envelope_reorder
#print axioms PW.Props.C13.WF_call
#print axioms PW.Props.C13.WF_every_history
#print axioms PW.Props.C13.WF_initial
