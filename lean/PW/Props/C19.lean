import Mathlib.Analysis.SpecialFunctions.Gaussian.GaussianIntegral
import PW.Proofs.OverlapGeneral
/-!
# C19 — temporal-mode overlap is the normalised overlap integral

`gprof σ μ` is the profile function of `photon_weave.constants.gaussian` (real envelope,
normalisation `1/√(σ√π)`, centre `μ = t_a + mu`).  For equal widths the overlap integral of two
profiles with centres `a`, `b` is `exp(−(a−b)²/(4σ²))`; the corollaries are the clauses of the
property: 1 for identical profiles, symmetric under exchange with negated delay, in `(0, 1]`.
-/
open Real MeasureTheory

namespace PW.Props.C19

noncomputable def gprof (σ μ : ℝ) (t : ℝ) : ℝ :=
  (1 / √(σ * √π)) * exp (-((t - μ) ^ 2) / (2 * σ ^ 2))

/-- the overlap integral of two equal-width Gaussian profiles centred at `a` and `b` -/
theorem overlap_equal_width (σ a b : ℝ) (hσ : 0 < σ) :
    ∫ t, gprof σ a t * gprof σ b t = exp (-((a - b) ^ 2) / (4 * σ ^ 2)) := by
  have hpi : 0 < √π := sqrt_pos.mpr pi_pos
  have hsp : 0 < σ * √π := mul_pos hσ hpi
  have key : ∀ t, gprof σ a t * gprof σ b t =
      (1 / (σ * √π)) * exp (-((a - b) ^ 2) / (4 * σ ^ 2)) * exp (-(1 / σ ^ 2) * (t - (a + b) / 2) ^ 2) := by
    intro t
    unfold gprof
    have h1 : (1 / √(σ * √π)) * (1 / √(σ * √π)) = 1 / (σ * √π) := by
      rw [div_mul_div_comm, one_mul, mul_self_sqrt hsp.le]
    rw [mul_mul_mul_comm, h1, ← exp_add, mul_assoc, ← exp_add]
    congr 2
    field_simp
    ring
  simp_rw [key]
  rw [integral_const_mul]
  have h2 : ∫ t, exp (-(1 / σ ^ 2) * (t - (a + b) / 2) ^ 2) = √(π / (1 / σ ^ 2)) := by
    rw [integral_sub_right_eq_self (fun t => exp (-(1 / σ ^ 2) * t ^ 2)) ((a + b) / 2)]
    exact integral_gaussian (1 / σ ^ 2)
  rw [h2]
  have h3 : √(π / (1 / σ ^ 2)) = σ * √π := by
    rw [div_div_eq_mul_div, div_one, mul_comm, sqrt_mul (sq_nonneg σ), sqrt_sq hσ.le]
  rw [h3]
  field_simp

/-- the library's call: `self` centred at `μ₁`, `other` delayed by `d` and centred at `d + μ₂` -/
theorem overlap_delay (σ μ₁ μ₂ d : ℝ) (hσ : 0 < σ) :
    ∫ t, gprof σ μ₁ t * gprof σ (d + μ₂) t = exp (-((d + μ₂ - μ₁) ^ 2) / (4 * σ ^ 2)) := by
  rw [overlap_equal_width σ μ₁ (d + μ₂) hσ]; congr 2; ring

/-- identical profiles at zero delay overlap completely -/
theorem overlap_identical (σ μ : ℝ) (hσ : 0 < σ) : ∫ t, gprof σ μ t * gprof σ μ t = 1 := by
  rw [overlap_equal_width σ μ μ hσ]; simp

/-- two equal Gaussians delayed by `d`: `exp(−d²/(4σ²))` -/
theorem overlap_delayed_equal (σ μ d : ℝ) (hσ : 0 < σ) :
    ∫ t, gprof σ μ t * gprof σ (d + μ) t = exp (-(d ^ 2) / (4 * σ ^ 2)) := by
  rw [overlap_delay σ μ μ d hσ]; congr 2; ring

/-- exchanging the envelopes and negating the delay gives the same overlap -/
theorem overlap_symmetric (σ μ₁ μ₂ d : ℝ) (hσ : 0 < σ) :
    ∫ t, gprof σ μ₁ t * gprof σ (d + μ₂) t = ∫ t, gprof σ μ₂ t * gprof σ (-d + μ₁) t := by
  rw [overlap_delay σ μ₁ μ₂ d hσ, overlap_delay σ μ₂ μ₁ (-d) hσ]; congr 2; ring

/-- the overlap lies in `(0, 1]` -/
theorem overlap_range (σ a b : ℝ) (hσ : 0 < σ) :
    0 < ∫ t, gprof σ a t * gprof σ b t ∧ ∫ t, gprof σ a t * gprof σ b t ≤ 1 := by
  rw [overlap_equal_width σ a b hσ]
  refine ⟨exp_pos _, ?_⟩
  rw [exp_le_one_iff]
  have : 0 ≤ (a - b) ^ 2 / (4 * σ ^ 2) := by positivity
  have h : -((a - b) ^ 2) / (4 * σ ^ 2) = -((a - b) ^ 2 / (4 * σ ^ 2)) := by ring
  rw [h]; linarith

/-- **different widths**: `∫ g_{σ₁}(t−a) g_{σ₂}(t−b) dt = √(2σ₁σ₂/(σ₁²+σ₂²)) · exp(−(a−b)²/(2(σ₁²+σ₂²)))` -/
theorem overlap_unequal_widths (σ₁ σ₂ a b : ℝ) (h1 : 0 < σ₁) (h2 : 0 < σ₂) :
    ∫ t, PW.OverlapGeneral.gprof σ₁ a t * PW.OverlapGeneral.gprof σ₂ b t
      = √(2 * σ₁ * σ₂ / (σ₁ ^ 2 + σ₂ ^ 2)) * exp (-((a - b) ^ 2) / (2 * (σ₁ ^ 2 + σ₂ ^ 2))) :=
  PW.OverlapGeneral.overlap_general σ₁ σ₂ a b h1 h2

/-- … symmetric under exchanging the two envelopes (widths and centres together) -/
theorem overlap_unequal_symmetric (σ₁ σ₂ a b : ℝ) (h1 : 0 < σ₁) (h2 : 0 < σ₂) :
    ∫ t, PW.OverlapGeneral.gprof σ₁ a t * PW.OverlapGeneral.gprof σ₂ b t
      = ∫ t, PW.OverlapGeneral.gprof σ₂ b t * PW.OverlapGeneral.gprof σ₁ a t := by
  rw [overlap_unequal_widths σ₁ σ₂ a b h1 h2, overlap_unequal_widths σ₂ σ₁ b a h2 h1]
  congr 2
  · ring_nf
  · ring_nf

/-- … and always in `(0, 1]`, whatever the two widths and the delay (`2σ₁σ₂ ≤ σ₁² + σ₂²`) -/
theorem overlap_unequal_range (σ₁ σ₂ a b : ℝ) (h1 : 0 < σ₁) (h2 : 0 < σ₂) :
    0 < ∫ t, PW.OverlapGeneral.gprof σ₁ a t * PW.OverlapGeneral.gprof σ₂ b t ∧
    ∫ t, PW.OverlapGeneral.gprof σ₁ a t * PW.OverlapGeneral.gprof σ₂ b t ≤ 1 := by
  rw [overlap_unequal_widths σ₁ σ₂ a b h1 h2]
  have hs : 0 < σ₁ ^ 2 + σ₂ ^ 2 := by positivity
  have hq : 0 < 2 * σ₁ * σ₂ / (σ₁ ^ 2 + σ₂ ^ 2) := by positivity
  have hq1 : 2 * σ₁ * σ₂ / (σ₁ ^ 2 + σ₂ ^ 2) ≤ 1 := by
    rw [div_le_one hs]; nlinarith [sq_nonneg (σ₁ - σ₂)]
  have he : exp (-((a - b) ^ 2) / (2 * (σ₁ ^ 2 + σ₂ ^ 2))) ≤ 1 := by
    rw [exp_le_one_iff]
    have : 0 ≤ (a - b) ^ 2 / (2 * (σ₁ ^ 2 + σ₂ ^ 2)) := by positivity
    have h : -((a - b) ^ 2) / (2 * (σ₁ ^ 2 + σ₂ ^ 2)) = -((a - b) ^ 2 / (2 * (σ₁ ^ 2 + σ₂ ^ 2))) := by ring
    rw [h]; linarith
  refine ⟨mul_pos (Real.sqrt_pos.mpr hq) (exp_pos _), ?_⟩
  have hsq : √(2 * σ₁ * σ₂ / (σ₁ ^ 2 + σ₂ ^ 2)) ≤ 1 := by
    calc √(2 * σ₁ * σ₂ / (σ₁ ^ 2 + σ₂ ^ 2)) ≤ √1 := Real.sqrt_le_sqrt hq1
      _ = 1 := Real.sqrt_one
  calc √(2 * σ₁ * σ₂ / (σ₁ ^ 2 + σ₂ ^ 2)) * exp (-((a - b) ^ 2) / (2 * (σ₁ ^ 2 + σ₂ ^ 2)))
      ≤ 1 * 1 := mul_le_mul hsq he (exp_pos _).le (by norm_num)
    _ = 1 := by norm_num

example : (0 : ℝ) < 42.45e-15 := by norm_num  -- the default pulse width satisfies the hypothesis

end PW.Props.C19

#print axioms PW.Props.C19.overlap_equal_width
#print axioms PW.Props.C19.overlap_delay
#print axioms PW.Props.C19.overlap_identical
#print axioms PW.Props.C19.overlap_delayed_equal
#print axioms PW.Props.C19.overlap_symmetric
#print axioms PW.Props.C19.overlap_range
#print axioms PW.Props.C19.overlap_unequal_widths
#print axioms PW.Props.C19.overlap_unequal_symmetric
#print axioms PW.Props.C19.overlap_unequal_range
