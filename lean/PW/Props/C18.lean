import PW.Identity
/-!
# C18 — distinct subsystems are never confused, even when they hold equal values

`pyIn` is membership as the library's `in` computes it (identity, then `Fock.__eq__` by value);
`idIn` is membership by identity, which is what the property demands.  They agree on every list
whose members no longer hold their own state (all product-space and envelope member lists: extraction
sets `state = None`, and `__eq__` is then `False`), and on lists without Focks; they can differ only
for Focks that still hold their own state — the one call site where such a list was searched
(`CompositeEnvelope.measure` collecting envelope partners) now searches by identity.
-/
namespace PW.Props.C18
open PW.Identity

/-- inside product spaces and envelopes (members extracted) value equality is identity -/
theorem extracted_members_identity (x : Sub) (l : List Sub) (h : ∀ y ∈ l, y.state = none) :
    pyIn x l = idIn x l := by
  unfold pyIn idIn
  induction l with
  | nil => rfl
  | cons y ys ih =>
    have hy : y.state = none := h y List.mem_cons_self
    have ih' := ih (fun z hz => h z (List.mem_cons_of_mem _ hz))
    simp only [List.any_cons, ih']
    congr 1
    unfold pyEq
    cases hx : x.state <;> simp [hy]

/-- for subsystems other than Focks value equality is identity -/
theorem non_fock_identity (x : Sub) (l : List Sub) (hx : x.isFock = false) : pyIn x l = idIn x l := by
  unfold pyIn idIn
  induction l with
  | nil => rfl
  | cons y ys ih => simp only [List.any_cons, ih]; congr 1; unfold pyEq; simp [hx]

/-- identity membership is never lost: whatever is found by identity is found by `in` -/
theorem idIn_le_pyIn (x : Sub) (l : List Sub) (h : idIn x l = true) : pyIn x l = true := by
  unfold pyIn idIn at *
  rw [List.any_eq_true] at h ⊢
  obtain ⟨y, hy, he⟩ := h
  refine ⟨y, hy, ?_⟩
  unfold pyEq
  have hxy : (x.uid == y.uid) = true := he
  rw [hxy]; rfl

/-- the confusion is real for unextracted Focks: two different vacuum modes -/
theorem value_equality_confuses :
    ∃ (x : Sub) (l : List Sub), pyIn x l = true ∧ idIn x l = false :=
  ⟨⟨0, true, some 0⟩, [⟨1, true, some 0⟩], by decide, by decide⟩

end PW.Props.C18

#print axioms PW.Props.C18.extracted_members_identity
#print axioms PW.Props.C18.non_fock_identity
#print axioms PW.Props.C18.idIn_le_pyIn
#print axioms PW.Props.C18.value_equality_confuses
