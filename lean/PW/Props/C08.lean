import PW.Proofs.SpecLemmas
import PW.Proofs.MixedRadix
import PW.Proofs.DecideLemmas
import PW.Props.Tables
/-!
# C08 — representation changes are lossless; the contraction setting is physics-neutral

The abstraction of a vector-level block is the outer product `ψψ†`; expansion stores exactly that
(`outer`), which is Hermitian, has the squared norm as trace weight on the diagonal and is invariant
under a global phase.  The specification machine has no contraction flag at all: `Spec` steps are
functions of the joint state only, so two runs that differ in the flag are compared against the
same specification run (correspondence, twin programs).
-/
namespace PW.Props.C08
open PW PW.Spec

variable {R : Type} [CommRing R] [StarRing R]

/-- what `expand` stores for a vector `ψ` : `ρ(r, c) = ψ(r) · conj ψ(c)` -/
def outer (ψ : Tensor R) (n : Nat) : Tensor R := fun rc => ψ (rc.take n) * conj (ψ (rc.drop n))

theorem outer_hermitian (ψ : Tensor R) (n : Nat) : Hermitian n (outer ψ n) := by
  intro r c hr hc
  unfold outer
  simp only [List.take_left' hc, List.drop_left' hc, List.take_left' hr, List.drop_left' hr]
  rw [conj_eq_star, star_mul', ← conj_eq_star, conj_eq_star (ψ r), star_star, conj_eq_star]
  ring

/-- a global phase (`u · conj u = 1`) does not change the expanded state -/
theorem outer_phase_invariant (ψ : Tensor R) (n : Nat) (u : R) (hu : u * star u = 1) :
    outer (fun i => u * ψ i) n = outer ψ n := by
  funext rc
  unfold outer
  rw [conj_eq_star, star_mul', conj_eq_star]
  calc u * ψ (rc.take n) * (star u * star (ψ (rc.drop n)))
      = (u * star u) * (ψ (rc.take n) * star (ψ (rc.drop n))) := by ring
    _ = ψ (rc.take n) * star (ψ (rc.drop n)) := by rw [hu, one_mul]

/-- a basis label `k` expands to the one-hot vector, whose outer product is the projector -/
theorem label_expansion (k : Nat) (r c : Nat) :
    outer (fun i => if i = [k] then (1 : R) else 0) 1 [r, c] = if r = k ∧ c = k then 1 else 0 := by
  unfold outer
  by_cases h1 : r = k <;> by_cases h2 : c = k <;> simp [h1, h2, conj_eq_star]

/-! ## contraction: decision logic (model `PW.Decide`, tied to the source by the regenerated table
`contractSites` and by the function-level correspondence on crafted spectra) -/

/-- contraction starts only for a purity within `tol` of 1 -/
theorem contraction_only_when_nearly_pure (tol purity : ℝ) (eigs : List ℝ)
    (h : (PW.Decide.contractDecision (PW.Decide.closeR tol) purity eigs).attempt = true) : |purity - 1| < tol := by
  simpa [PW.Decide.contractDecision, PW.Decide.closeR] using h

/-- ... and then keeps an eigenvector whose eigenvalue is within `tol` of 1: the dominant one -/
theorem contraction_keeps_dominant_eigenvector (eigs : List ℝ) (tol : ℝ) (h0 : ∀ l ∈ eigs, 0 ≤ l) (h1 : eigs.sum = 1)
    (hatt : (PW.Decide.contractDecision (PW.Decide.closeR tol) (eigs.map fun l => l ^ 2).sum eigs).attempt = true) :
    ∃ l, eigs[(PW.Decide.contractDecision (PW.Decide.closeR tol) (eigs.map fun l => l ^ 2).sum eigs).index]? = some l ∧ |l - 1| < tol :=
  PW.Decide.contract_picks_dominant eigs tol h0 h1 hatt

/-- the physical state changes by less than `tol` in weight -/
theorem contraction_discards_less_than_tol (eigs : List ℝ) (tol : ℝ) (h0 : ∀ l ∈ eigs, 0 ≤ l) (h1 : eigs.sum = 1)
    (hatt : (PW.Decide.contractDecision (PW.Decide.closeR tol) (eigs.map fun l => l ^ 2).sum eigs).attempt = true) :
    ∃ l, eigs[(PW.Decide.contractDecision (PW.Decide.closeR tol) (eigs.map fun l => l ^ 2).sum eigs).index]? = some l ∧ 1 - l < tol :=
  PW.Decide.contract_discards_less_than_tol eigs tol h0 h1 hatt

/-- the hypotheses are satisfiable: spectrum (3e-7, 1 − 3e-7) at the library's tolerance -/
example : let eigs : List ℝ := [3e-7, 1 - 3e-7]
    (∀ l ∈ eigs, 0 ≤ l) ∧ eigs.sum = 1 ∧ |(eigs.map fun l => l ^ 2).sum - 1| < 1e-6 := by
  refine ⟨?_, ?_, ?_⟩
  · intro l hl; simp only [List.mem_cons, List.not_mem_nil, or_false] at hl; rcases hl with rfl | rfl <;> norm_num
  · norm_num
  · simp only [List.map_cons, List.map_nil, List.sum_cons, List.sum_nil]; rw [abs_lt]; constructor <;> norm_num

/-- the same tolerance in both tests is what the source does, at every `contract` site -/
theorem source_contract_sites_use_one_tolerance :
    PW.Generated.contractSites.all PW.TablesSpec.siteConsistent = true := PW.Props.Tables.contract_sites_consistent

/-- with two different tolerances the guarantee fails (witness) -/
theorem two_tolerances_break_it :
    let eigs : List ℝ := [4e-6, 1 - 4e-6]
    PW.Decide.closeR 1.1e-5 (eigs.map fun l => l ^ 2).sum = true ∧ PW.Decide.argmaxMask (eigs.map (PW.Decide.closeR 1e-6)) = 0 :=
  PW.Decide.mismatched_tolerances_pick_wrong

end PW.Props.C08

#print axioms PW.Props.C08.outer_hermitian
#print axioms PW.Props.C08.outer_phase_invariant
#print axioms PW.Props.C08.label_expansion
#print axioms PW.Props.C08.contraction_only_when_nearly_pure
#print axioms PW.Props.C08.contraction_keeps_dominant_eigenvector
#print axioms PW.Props.C08.contraction_discards_less_than_tol
#print axioms PW.Props.C08.source_contract_sites_use_one_tolerance
#print axioms PW.Props.C08.two_tolerances_break_it
