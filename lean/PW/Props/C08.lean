import PW.Proofs.SpecLemmas
import PW.Proofs.MixedRadix
/-!
# C08 — representation changes are lossless; the contraction setting is physics-neutral

The abstraction of a vector-level block is the outer product `ψψ†`; expansion stores exactly that
(`outer`), which is Hermitian, has the squared norm as trace weight on the diagonal and is invariant
under a global phase.  The specification machine has no contraction flag at all: `Spec` steps are
functions of the joint state only, so two runs that differ in the flag are compared against the
same specification run (correspondence, twin programs).
-/
namespace PW.Props.C08
open PW PW.Spec

variable {R : Type} [CommRing R] [StarRing R]

/-- what `expand` stores for a vector `ψ` : `ρ(r, c) = ψ(r) · conj ψ(c)` -/
def outer (ψ : Tensor R) (n : Nat) : Tensor R := fun rc => ψ (rc.take n) * conj (ψ (rc.drop n))

theorem outer_hermitian (ψ : Tensor R) (n : Nat) : Hermitian n (outer ψ n) := by
  intro r c hr hc
  unfold outer
  simp only [List.take_left' hc, List.drop_left' hc, List.take_left' hr, List.drop_left' hr]
  rw [conj_eq_star, star_mul', ← conj_eq_star, conj_eq_star (ψ r), star_star, conj_eq_star]
  ring

/-- a global phase (`u · conj u = 1`) does not change the expanded state -/
theorem outer_phase_invariant (ψ : Tensor R) (n : Nat) (u : R) (hu : u * star u = 1) :
    outer (fun i => u * ψ i) n = outer ψ n := by
  funext rc
  unfold outer
  rw [conj_eq_star, star_mul', conj_eq_star]
  calc u * ψ (rc.take n) * (star u * star (ψ (rc.drop n)))
      = (u * star u) * (ψ (rc.take n) * star (ψ (rc.drop n))) := by ring
    _ = ψ (rc.take n) * star (ψ (rc.drop n)) := by rw [hu, one_mul]

/-- a basis label `k` expands to the one-hot vector, whose outer product is the projector -/
theorem label_expansion (k : Nat) (r c : Nat) :
    outer (fun i => if i = [k] then (1 : R) else 0) 1 [r, c] = if r = k ∧ c = k then 1 else 0 := by
  unfold outer
  by_cases h1 : r = k <;> by_cases h2 : c = k <;> simp [h1, h2, conj_eq_star]

end PW.Props.C08

#print axioms PW.Props.C08.outer_hermitian
#print axioms PW.Props.C08.outer_phase_invariant
#print axioms PW.Props.C08.label_expansion
