import PW.Proofs.SpecLemmas
import PW.Proofs.LayoutLemmas
import PW.Props.Tables
/-!
# C17 — invalid requests are rejected and leave the system unchanged

In the specification a request is either honoured or rejected, and a rejected request returns the
state it was given (`Outcome.rejected ρ`): annihilating the vacuum (the result has zero weight),
shrinking below the occupied levels.  The implementation may expand / pad / combine before it
notices (all physics-neutral, C02 / C08 / C10); the correspondence check compares the joint state
before and after every rejected call and re-validates the object graph.
-/
namespace PW.Props.C17
open PW PW.Spec

variable {R : Type} [CommRing R] [StarRing R]

theorem rejected_operation_changes_nothing (dims : List Nat) (T : List Nat) (O ρ : Tensor R) :
    (applyChecked dims T O ρ true).state = ρ := applyChecked_rejected dims T O ρ

theorem accepted_operation_applies (dims : List Nat) (T : List Nat) (O ρ : Tensor R) :
    (applyChecked dims T O ρ false).state = applyOn dims T O ρ := applyChecked_ok dims T O ρ

theorem refused_shrink_changes_nothing (ρ ρ' : Tensor R) : (resizeChecked false ρ ρ').state = ρ :=
  resizeChecked_rejected ρ ρ'

/-- a request that addresses nothing in any product space leaves the partition alone -/
theorem rejected_single_target_layout (l : Layout.Layout) (c t : Nat)
    (h : l.any (fun b => (match b.kind with | .ps _ => true | _ => false) && t ∈ b.members) = false) :
    Layout.route l c [t] = l := Layout.route_single_outside l c t h

/-- which parameters a request must carry is the source's table (regenerated on every run) -/
theorem required_parameters_table : PW.Generated.opTable = PW.TablesSpec.expectedOps :=
  PW.Props.Tables.op_table_as_expected

end PW.Props.C17

#print axioms PW.Props.C17.rejected_operation_changes_nothing
#print axioms PW.Props.C17.accepted_operation_applies
#print axioms PW.Props.C17.refused_shrink_changes_nothing
#print axioms PW.Props.C17.rejected_single_target_layout
#print axioms PW.Props.C17.required_parameters_table
