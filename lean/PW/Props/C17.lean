import PW.Proofs.SpecLemmas
import PW.Proofs.LayoutLemmas
import PW.Props.Tables
import PW.Proofs.DecideLemmas
/-!
# C17 — invalid requests are rejected and leave the system unchanged

In the specification a request is either honoured or rejected, and a rejected request returns the
state it was given (`Outcome.rejected ρ`): annihilating the vacuum (the result has zero weight),
shrinking below the occupied levels.  The implementation may expand / pad / combine before it
notices (all physics-neutral, C02 / C08 / C10); the correspondence check compares the joint state
before and after every rejected call and re-validates the object graph.
-/
namespace PW.Props.C17
open PW PW.Spec

variable {R : Type} [CommRing R] [StarRing R]

theorem rejected_operation_changes_nothing (dims : List Nat) (T : List Nat) (O ρ : Tensor R) :
    (applyChecked dims T O ρ true).state = ρ := applyChecked_rejected dims T O ρ

theorem accepted_operation_applies (dims : List Nat) (T : List Nat) (O ρ : Tensor R) :
    (applyChecked dims T O ρ false).state = applyOn dims T O ρ := applyChecked_ok dims T O ρ

theorem refused_shrink_changes_nothing (ρ ρ' : Tensor R) : (resizeChecked false ρ ρ').state = ρ :=
  resizeChecked_rejected ρ ρ'

/-- a request that addresses nothing in any product space leaves the partition alone -/
theorem rejected_single_target_layout (l : Layout.Layout) (c t : Nat)
    (h : l.any (fun b => (match b.kind with | .ps _ => true | _ => false) && t ∈ b.members) = false) :
    Layout.route l c [t] = l := Layout.route_single_outside l c t h

/-- which parameters a request must carry is the source's table (regenerated on every run) -/
theorem required_parameters_table : PW.Generated.opTable = PW.TablesSpec.expectedOps :=
  PW.Props.Tables.op_table_as_expected

/-! ## the Kraus completeness test (model `PW.Decide.krausCheck`, tied to `kraus_identity_check`
by the regenerated source table and by the function-level correspondence) -/
open Matrix in
/-- with an exact entry test the check accepts exactly the sets with `Σ Kᴴ K = 1` (to which the
channel theorems of C06 apply) -/
theorem kraus_check_exact (d : Nat) (ops : List (Tensor ℂ)) :
    PW.Decide.krausCheck PW.Decide.exactOk d ops = true ↔
      ((ops.map fun K => (PW.Adequacy.opMatrix (a := d) K)ᴴ * PW.Adequacy.opMatrix K).sum : Matrix (Fin d) (Fin d) ℂ) = 1 :=
  PW.Decide.krausCheck_exact_iff d ops

open Matrix in
/-- a set accepted with entrywise slack `ε` (the library: 1e-6 off the diagonal, 1.1e-5 on it) changes
the trace of any `ρ` by at most `ε · Σ|ρ_ij|` -/
theorem accepted_kraus_set_nearly_preserves_trace {d : Nat} {ι : Type} (s : Finset ι)
    (K : ι → Matrix (Fin d) (Fin d) ℂ) (ρ : Matrix (Fin d) (Fin d) ℂ) (ε : ℝ)
    (hS : ∀ r c, ‖(∑ i ∈ s, (K i)ᴴ * K i) r c - (1 : Matrix (Fin d) (Fin d) ℂ) r c‖ ≤ ε) :
    ‖(∑ i ∈ s, K i * ρ * (K i)ᴴ).trace - ρ.trace‖ ≤ ε * ∑ r, ∑ c, ‖ρ c r‖ :=
  PW.Decide.trace_defect_bound s K ρ ε hS

/-- the request validation of the source (every `raise` under an `if`, regenerated on every run) is
the table the model assumes; in particular every envelope method that takes operands rejects
non-members by identity -/
theorem request_guards_table : PW.Generated.guardTable = PW.TablesSpec.expectedGuards :=
  PW.Props.Tables.guards_as_expected
theorem envelope_rejects_foreign_members : PW.TablesSpec.envelopeMembershipGuarded PW.Generated.guardTable = true :=
  PW.Props.Tables.envelope_membership_guarded

theorem kraus_check_source : PW.Generated.krausCheckSource = PW.TablesSpec.expectedKrausCheckSource :=
  PW.Props.Tables.kraus_check_source_as_expected

end PW.Props.C17

#print axioms PW.Props.C17.rejected_operation_changes_nothing
#print axioms PW.Props.C17.accepted_operation_applies
#print axioms PW.Props.C17.refused_shrink_changes_nothing
#print axioms PW.Props.C17.rejected_single_target_layout
#print axioms PW.Props.C17.required_parameters_table
#print axioms PW.Props.C17.kraus_check_exact
#print axioms PW.Props.C17.accepted_kraus_set_nearly_preserves_trace
#print axioms PW.Props.C17.kraus_check_source
#print axioms PW.Props.C17.request_guards_table
#print axioms PW.Props.C17.envelope_rejects_foreign_members
