import PW.Proofs.Grid
import PW.Proofs.SpecLemmas
import PW.EinsumGen
import PW.Proofs.TraceOut
/-!
# C04 — measurement outcomes follow the Born rule

`Spec.prob dims p ρ o` is the diagonal element `o` of the reduced density matrix of the subsystem at
position `p` (sum over all other coordinates of the joint diagonal).  Conditioning on an outcome
already drawn is `projectOn`.  The theorems: after conditioning on `o` every other outcome of that
subsystem has probability 0 (so an impossible outcome can never be reported by a follow-up draw)
and the probability of `o` itself is unchanged; the `measure_*` einsum plans are the partial-trace
plans.  The correspondence check compares every vector handed to the sampler with `Spec.prob`.
-/
namespace PW.Props.C04
open PW PW.Spec

variable {R : Type} [CommRing R]

theorem impossible_after_conditioning (dims : List Nat) (p o o' : Nat) (hp : p < dims.length) (h : o ≠ o')
    (ρ : Tensor R) : prob dims p (projectOn dims p o ρ) o' = 0 :=
  prob_after_projectOn_other dims p o o' hp h ρ

theorem conditioning_keeps_weight (dims : List Nat) (p o : Nat) (hp : p < dims.length) (ρ : Tensor R) :
    prob dims p (projectOn dims p o ρ) o = prob dims p ρ o :=
  prob_after_projectOn_same dims p o hp ρ

/-- **Born rule at the plan level** (all `n`, all dimensions, every position): the diagonal of the
tensor that the generated `measure_matrix` einsum exposes is `Spec.prob` = the diagonal of the
measured subsystem's reduced density matrix -/
theorem measure_plan_gives_born_probabilities (dims : List Nat) (p o : Nat) (hp : p < dims.length) (ρ : Tensor R) :
    einsum (Spec.dimOf2 dims) (measureMatrix dims.length [p]).1 (measureMatrix dims.length [p]).2 [ρ] [o, o]
      = Spec.prob dims p ρ o := measureMatrix_diagonal_is_prob dims p o hp ρ

/-- the string that exposes a subsystem for measurement is the partial-trace string -/
theorem measure_matrix_is_trace_out (n : Nat) (meas : List Nat) : measureMatrix n meas = traceOutMatrix n meas := rfl
theorem measure_vector_is_trace_out (n : Nat) (meas : List Nat) : measureVector n meas = traceOutVector n meas := rfl

/-- non-vacuity: a two-outcome subsystem with weight on both outcomes -/
example : prob [2] 0 (fun idx => if idx = [0, 0] ∨ idx = [1, 1] then (1 : Int) else 0) 1 = 1 := by decide

end PW.Props.C04

#print axioms PW.Props.C04.impossible_after_conditioning
#print axioms PW.Props.C04.conditioning_keeps_weight
#print axioms PW.Props.C04.measure_plan_gives_born_probabilities
#print axioms PW.Props.C04.measure_matrix_is_trace_out
#print axioms PW.Props.C04.measure_vector_is_trace_out
