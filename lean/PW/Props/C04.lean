import PW.Proofs.Grid
import PW.Proofs.SpecLemmas
import PW.EinsumGen
import PW.Proofs.TraceOut
import PW.Proofs.MeasureOrder
import PW.Proofs.MeasureNoSignal
import PW.Proofs.NoSignalN
/-!
# C04 — measurement outcomes follow the Born rule

`Spec.prob dims p ρ o` is the diagonal element `o` of the reduced density matrix of the subsystem at
position `p` (sum over all other coordinates of the joint diagonal).  Conditioning on an outcome
already drawn is `projectOn`.  The theorems: after conditioning on `o` every other outcome of that
subsystem has probability 0 (so an impossible outcome can never be reported by a follow-up draw)
and the probability of `o` itself is unchanged; the `measure_*` einsum plans are the partial-trace
plans.  The correspondence check compares every vector handed to the sampler with `Spec.prob`.
-/
namespace PW.Props.C04
open PW PW.Spec

variable {R : Type} [CommRing R]

theorem impossible_after_conditioning (dims : List Nat) (p o o' : Nat) (hp : p < dims.length) (h : o ≠ o')
    (ρ : Tensor R) : prob dims p (projectOn dims p o ρ) o' = 0 :=
  prob_after_projectOn_other dims p o o' hp h ρ

theorem conditioning_keeps_weight (dims : List Nat) (p o : Nat) (hp : p < dims.length) (ρ : Tensor R) :
    prob dims p (projectOn dims p o ρ) o = prob dims p ρ o :=
  prob_after_projectOn_same dims p o hp ρ

/-- **Born rule at the plan level** (all `n`, all dimensions, every position): the diagonal of the
tensor that the generated `measure_matrix` einsum exposes is `Spec.prob` = the diagonal of the
measured subsystem's reduced density matrix -/
theorem measure_plan_gives_born_probabilities (dims : List Nat) (p o : Nat) (hp : p < dims.length) (ρ : Tensor R) :
    einsum (Spec.dimOf2 dims) (measureMatrix dims.length [p]).1 (measureMatrix dims.length [p]).2 [ρ] [o, o]
      = Spec.prob dims p ρ o := measureMatrix_diagonal_is_prob dims p o hp ρ

/-- the string that exposes a subsystem for measurement is the partial-trace string -/
theorem measure_matrix_is_trace_out (n : Nat) (meas : List Nat) : measureMatrix n meas = traceOutMatrix n meas := rfl
theorem measure_vector_is_trace_out (n : Nat) (meas : List Nat) : measureVector n meas = traceOutVector n meas := rfl

/-- **the Born weights of a subsystem add up to the trace**: for a unit-trace state the vector handed
to the sampler is a probability distribution (every `n`, every dimension list, every position) -/
theorem born_weights_sum_to_trace (dims : List Nat) (p : Nat) (hp : p < dims.length) (ρ : Tensor R) :
    ((List.range (dims.getD p 0)).map fun o => prob dims p ρ o).sum = trace dims ρ :=
  prob_sum_eq_trace dims p hp ρ

/-- chain rule: the weight of "p₁ gave o₁, then p₂ gave o₂" is the joint diagonal weight of (o₁, o₂) -/
theorem sequential_weight_is_joint_weight (dims : List Nat) (p₁ p₂ o₁ o₂ : Nat) (h1 : p₁ < dims.length)
    (h2 : p₂ < dims.length) (hne : p₁ ≠ p₂) (ho₁ : o₁ < dims.getD p₁ 0) (ρ : Tensor R) :
    prob dims p₂ (projectOn dims p₁ o₁ ρ) o₂ = jointWeight dims p₁ p₂ o₁ o₂ ρ :=
  prob_after_projectOn dims p₁ p₂ o₁ o₂ h1 h2 hne ho₁ ρ

/-- **the order in which several subsystems are measured does not change the joint distribution**
(the implementation is free to choose it; the harness accepts any order) -/
theorem measurement_order_does_not_matter (dims : List Nat) (p₁ p₂ o₁ o₂ : Nat) (h1 : p₁ < dims.length)
    (h2 : p₂ < dims.length) (hne : p₁ ≠ p₂) (ho₁ : o₁ < dims.getD p₁ 0) (ho₂ : o₂ < dims.getD p₂ 0) (ρ : Tensor R) :
    prob dims p₂ (projectOn dims p₁ o₁ ρ) o₂ = prob dims p₁ (projectOn dims p₂ o₂ ρ) o₁ :=
  measurement_order_irrelevant dims p₁ p₂ o₁ o₂ h1 h2 hne ho₁ ho₂ ρ

/-- non-vacuity: a two-outcome subsystem with weight on both outcomes -/
example : prob [2] 0 (fun idx => if idx = [0, 0] ∨ idx = [1, 1] then (1 : Int) else 0) 1 = 1 := by decide

open scoped ComplexOrder in
/-- **Born weights are non-negative** (Mathlib matrices; measured part `a`, everything else `b`): for a
positive semidefinite joint state the weight of every outcome — the trace of the collapsed state — is
≥ 0; with `born_weights_sum_to_trace` the vector handed to the sampler is a probability distribution. -/
theorem born_weights_nonnegative {a b : Nat} (o : Nat) (ho : o < a) (ρ : Tensor ℂ)
    (hρ : (PW.Adequacy.toMatrix (a := a) (b := b) ρ).PosSemidef) :
    0 ≤ Matrix.trace (PW.Adequacy.toMatrix (a := a) (b := b) (projectOn [a, b] 0 o ρ)) :=
  PW.Adequacy.born_weight_nonneg o ho ρ hρ

/-- **what is done elsewhere does not change the outcome distribution**: a unitary operation on the
subsystem at position `q` leaves the Born weights of every other subsystem `p` as they were — every number
of subsystems, every dimension list, every (entangled) joint state. -/
theorem operation_elsewhere_keeps_outcome_distribution {R : Type} [CommRing R] [StarRing R]
    (dims : List Nat) (p q : Nat) (hq : q < dims.length) (hne : q ≠ p) (U : Tensor R)
    (hU : ∀ j < dimOf2 dims q, ∀ k < dimOf2 dims q,
      ∑ i ∈ Finset.range (dimOf2 dims q), U [i, j] * PW.conj (U [i, k]) = if j = k then 1 else 0)
    (ρ : Tensor R) (o : Nat) : prob dims p (applyOn dims [q] U ρ) o = prob dims p ρ o := by
  unfold prob
  exact reduceTo_applyOn_single dims [p] q hq (by simpa using hne) U hU ρ [o, o]

end PW.Props.C04

#print axioms PW.Props.C04.impossible_after_conditioning
#print axioms PW.Props.C04.conditioning_keeps_weight
#print axioms PW.Props.C04.measure_plan_gives_born_probabilities
#print axioms PW.Props.C04.measure_matrix_is_trace_out
#print axioms PW.Props.C04.measure_vector_is_trace_out
#print axioms PW.Props.C04.born_weights_sum_to_trace
#print axioms PW.Props.C04.sequential_weight_is_joint_weight
#print axioms PW.Props.C04.measurement_order_does_not_matter
#print axioms PW.Props.C04.born_weights_nonnegative
#print axioms PW.Props.C04.operation_elsewhere_keeps_outcome_distribution
