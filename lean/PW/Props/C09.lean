import PW.Proofs.NoSignalN
import PW.Props.C01
import PW.Proofs.SpecLemmas
import PW.Proofs.Grid
import PW.Proofs.Channels
import PW.Proofs.Projective
import PW.Props.Strings
/-!
# C09 — POVM measurement: probabilities and post-state

For measurement operators `M_i` on the subsystems at positions `T` (factors bound in the order of
`T`): `p_i = Tr((M_i ⊗ I) ρ (M_i ⊗ I)†)` and the post-state is that operator product divided by
`p_i`.  Both are `Spec.applyOn`, which is what the generated einsum computes for every storage
order (C01 theorem).
-/
namespace PW.Props.C09
open PW PW.Spec
open scoped ComplexOrder Matrix

variable {R : Type} [CommRing R] [StarRing R]

/-- the unnormalised post-state the implementation forms with the generated string -/
theorem povm_post_state_plan (dims : List Nat) (T : List Nat) (hnd : T.Nodup)
    (hlt : ∀ p ∈ T, p < dims.length) (M ρ : Tensor R) (r c : List Nat)
    (hr : r.length = dims.length) (hc : c.length = dims.length) :
    einsum (dimOf2 dims) (applyOperatorMatrix dims.length T).1 (applyOperatorMatrix dims.length T).2
        [M, ρ, fun idx => conj (M idx)] (r ++ c) = applyOn dims T M ρ (r ++ c) :=
  PW.Props.C01.apply_operator_matrix_is_applyOn dims T hnd hlt M ρ r c hr hc

/-- definition of the outcome weight -/
def povmWeight (dims : List Nat) (T : List Nat) (M ρ : Tensor R) : R := trace dims (applyOn dims T M ρ)

/-- the post-state scaled by `1/p` has the weight `p · (1/p)` -/
theorem scaled_trace (dims : List Nat) (s : R) (ρ : Tensor R) :
    trace dims (scale s ρ) = s * trace dims ρ := by
  unfold trace scale
  exact sumGrid_mul_left dims s (fun i => ρ (i ++ i))

/-- weights are additive over the state: `Tr` is linear -/
theorem trace_add (dims : List Nat) (ρ σ : Tensor R) :
    trace dims (fun rc => ρ rc + σ rc) = trace dims ρ + trace dims σ := by
  unfold trace
  exact sumGrid_add dims (fun i => ρ (i ++ i)) (fun i => σ (i ++ i))

/-- the weights of a complete set of measurement operators add up to the trace of the state -/
theorem povm_weights_complete {a b ι : Type} [Fintype a] [Fintype b] [DecidableEq a] [DecidableEq b]
    (s : Finset ι) (M : ι → Matrix a a ℂ) (hM : ∑ i ∈ s, (M i)ᴴ * M i = 1) (ρ : Matrix (a × b) (a × b) ℂ) :
    ∑ i ∈ s, Matrix.trace (PW.Channels.emb (M i) * ρ * (PW.Channels.emb (M i))ᴴ) = Matrix.trace ρ :=
  PW.Channels.povm_weights_sum s M hM ρ

/-- each weight is a non-negative real: they form a probability distribution -/
theorem povm_weight_nonnegative {a b : Type} [Fintype a] [Fintype b] [DecidableEq a] [DecidableEq b]
    (M : Matrix a a ℂ) (ρ : Matrix (a × b) (a × b) ℂ) (hρ : ρ.PosSemidef) :
    0 ≤ Matrix.trace (PW.Channels.emb (b := b) M * ρ * (PW.Channels.emb M)ᴴ) :=
  PW.Channels.povm_weight_nonneg M ρ hρ

/-- **a projective POVM element reproduces collapse**: with `M = |o⟩⟨o|` on the subsystem at position
`p`, the unnormalised post-state `(M ⊗ I) ρ (M ⊗ I)†` is the projected state of C04 / C05 (every
space, every position, every outcome inside the dimension) — so its trace is the Born weight and a
projective measurement is the special case of the POVM rule -/
theorem projective_element_collapses (dims : List Nat) (p o : Nat) (hp : p < dims.length) (ho : o < dims.getD p 0)
    (ρ : Tensor R) (r c : List Nat) (hr : r.length = dims.length) (hc : c.length = dims.length) :
    applyOn dims [p] (projector o) ρ (r ++ c) = projectOn dims p o ρ (r ++ c) :=
  applyOn_projector dims p o hp ho ρ r c hr hc

/-- the einsum literals of `Envelope.measure_POVM` (both members / one member) are the generated plans
for two members with interleaved axes, hence `Spec.applyOn` by the C01 theorem -/
theorem envelope_povm_strings_are_generated_plans :
    canon ((PW.Props.Strings.plansOf "photon_weave/state/envelope.py" "measure_POVM").getD 0 ([], []))
        = canon (PW.Props.Strings.permuteAll (applyOperatorMatrix 2 [0, 1]) [0, 2, 1, 3]) ∧
    canon ((PW.Props.Strings.plansOf "photon_weave/state/envelope.py" "measure_POVM").getD 1 ([], []))
        = canon (PW.Props.Strings.permuteAxes (applyOperatorMatrix 2 [0]) 1 [0, 2, 1, 3]) :=
  ⟨PW.Props.Strings.envelope_povm_two_member_string, PW.Props.Strings.envelope_povm_one_member_string⟩

/-- **the weights of a complete generalised measurement add up to the trace, in a space of any number of
subsystems**: for operators `M_m` on the subsystem at position `q` with `Σ_m M_m†M_m = 1` (below the
cutoff), `Σ_m Tr((M_m ⊗ 1) ρ (M_m ⊗ 1)†) = Tr ρ` — the vector handed to the sampler is a distribution for
every joint state. -/
theorem povm_weights_complete_any_number_of_subsystems {R : Type} [CommRing R] [StarRing R]
    (dims : List Nat) (q : Nat) (hq : q < dims.length) (Ms : List (PW.Tensor R))
    (hM : ∀ j < PW.Spec.dimOf2 dims q, ∀ k < PW.Spec.dimOf2 dims q,
      (Ms.map fun U => ∑ i ∈ Finset.range (PW.Spec.dimOf2 dims q), U [i, j] * PW.conj (U [i, k])).sum
        = if j = k then 1 else 0)
    (ρ : PW.Tensor R) :
    (Ms.map fun M => PW.Spec.trace dims (PW.Spec.applyOn dims [q] M ρ)).sum = PW.Spec.trace dims ρ :=
  PW.Spec.povm_weights_sum_single dims q hq Ms hM ρ

end PW.Props.C09

#print axioms PW.Props.C09.povm_post_state_plan
#print axioms PW.Props.C09.scaled_trace
#print axioms PW.Props.C09.trace_add
#print axioms PW.Props.C09.povm_weights_complete
#print axioms PW.Props.C09.povm_weight_nonnegative
#print axioms PW.Props.C09.projective_element_collapses
#print axioms PW.Props.C09.envelope_povm_strings_are_generated_plans
#print axioms PW.Props.C09.povm_weights_complete_any_number_of_subsystems
