import PW.Tensor
/-!
# The specification machine (Mathlib-free, executable)

One joint density matrix `ρ` over all live subsystems, held as a tensor with `2n` axes (row
indices of the `n` subsystems, then column indices).  Subsystems are addressed by *position* in
the list of live subsystems; there is no storage layout, no expansion level, no product-space
bookkeeping here.  Every function below is the textbook formula in index form.

The theorems in `PW/Props` are about these functions; the driver evaluates the very same
definitions on `CF` and materialises the result with `toFlat` after each step.
-/
namespace PW.Spec

variable {R : Type} [Add R] [Mul R] [Zero R] [One R] [Conj R]

/-- dimension of label `l`: labels `0..n-1` are row axes, `n..2n-1` column axes -/
def dimOf2 (dims : List Nat) : Nat → Nat := fun l =>
  if l < dims.length then dims.getD l 0 else dims.getD (l - dims.length) 0

/-- the row index with the coordinates at positions `T` taken from environment `e` -/
def subst (n : Nat) (T : List Nat) (idx : List Nat) (f : Nat → Nat) : List Nat :=
  (List.range n).map fun p => if p ∈ T then f p else idx.getD p 0

/-- `(O_T ⊗ I) ρ (O_T ⊗ I)†` : operator `O` (axes: row indices of `T`, then column indices of `T`)
acts on the subsystems at positions `T`, in that order -/
def applyOn (dims : List Nat) (T : List Nat) (O ρ : Tensor R) : Tensor R := fun rc =>
  let n := dims.length
  let r := rc.take n
  let c := rc.drop n
  sumLabels (dimOf2 dims) (T ++ T.map (n + ·)) (fun e =>
      O (T.map (fun p => r.getD p 0) ++ T.map e) *
      ρ (subst n T r e ++ subst n T c (fun p => e (n + p))) *
      conj (O (T.map (fun p => c.getD p 0) ++ T.map (fun p => e (n + p))))) (fun _ => 0)

/-- `Σ_i (K_i ⊗ I) ρ (K_i ⊗ I)†` -/
def krausOn (dims : List Nat) (T : List Nat) (Ks : List (Tensor R)) (ρ : Tensor R) : Tensor R :=
  fun rc => (Ks.map fun K => applyOn dims T K ρ rc).sum

/-- `Tr ρ` -/
def trace (dims : List Nat) (ρ : Tensor R) : R := sumGrid dims fun i => ρ (i ++ i)

/-- insert value `v` at position `p` -/
def insertAt (l : List Nat) (p v : Nat) : List Nat := l.take p ++ v :: l.drop p

/-- `(Π_o ⊗ I) ρ (Π_o ⊗ I)` for the basis projector on outcome `o` of the subsystem at position `p` -/
def projectOn (dims : List Nat) (p o : Nat) (ρ : Tensor R) : Tensor R := fun rc =>
  let n := dims.length
  if (rc.take n).getD p 0 = o ∧ (rc.drop n).getD p 0 = o then ρ rc else 0

/-- forget the subsystem at position `p` after it has been projected on outcome `o` -/
def removeAt (dims : List Nat) (p o : Nat) (ρ : Tensor R) : Tensor R := fun rc =>
  let n := dims.length - 1
  ρ (insertAt (rc.take n) p o ++ insertAt (rc.drop n) p o)

/-- the full index whose coordinates at the positions `T` are `a` (in the order of `T`) and the
others are read from the environment `e` -/
def scatter (n : Nat) (T : List Nat) (a : List Nat) (e : Nat → Nat) : List Nat :=
  (List.range n).map fun p => if p ∈ T then a.getD (T.idxOf p) 0 else e p

/-- partial trace: the reduced state of the subsystems at positions `T`, axes in the order of `T`;
every other subsystem is summed over its diagonal -/
def reduceTo (dims : List Nat) (T : List Nat) (ρ : Tensor R) : Tensor R := fun rc =>
  let n := dims.length
  let rest := (List.range n).filter fun p => decide (p ∉ T)
  let a := rc.take T.length
  let b := rc.drop T.length
  sumLabels (dimOf2 dims) rest (fun e => ρ (scatter n T a e ++ scatter n T b e)) (fun _ => 0)

/-- **Born rule.** The probability of outcome `o` for the subsystem at position `p` is the diagonal
element `o` of that subsystem's reduced density matrix (unnormalised if `Tr ρ ≠ 1`) -/
def prob (dims : List Nat) (p : Nat) (ρ : Tensor R) (o : Nat) : R := reduceTo dims [p] ρ [o, o]

/-- `ρ ⊗ |v⟩⟨v|` : a new subsystem appended as the last factor -/
def tensorVec (dims : List Nat) (v : Tensor R) (ρ : Tensor R) : Tensor R := fun rc =>
  let n := dims.length
  let r := rc.take (n + 1)
  let c := rc.drop (n + 1)
  ρ (r.take n ++ c.take n) * v [r.getD n 0] * conj (v [c.getD n 0])

/-- entrywise scaling -/
def scale (s : R) (ρ : Tensor R) : Tensor R := fun rc => s * ρ rc

/-- `Tr ρ²` -/
def purity (dims : List Nat) (ρ : Tensor R) : R :=
  sumGrid dims fun i => sumGrid dims fun j => ρ (i ++ j) * ρ (j ++ i)

end PW.Spec

namespace PW.Spec
variable {R : Type} [Add R] [Mul R] [Zero R] [One R] [Conj R]

/-- result of a request: either the new state or a rejection that leaves the state as it was -/
inductive Outcome (R : Type) where
  | ok (ρ : Tensor R)
  | rejected (ρ : Tensor R)

def Outcome.state {R : Type} : Outcome R → Tensor R
  | .ok ρ => ρ
  | .rejected ρ => ρ

/-- an operation whose result is the zero operator (annihilating the vacuum) is rejected;
`isZero` is the decision the caller supplies for `Tr (O ρ O†) = 0` -/
def applyChecked (dims : List Nat) (T : List Nat) (O ρ : Tensor R) (isZero : Bool) : Outcome R :=
  if isZero then .rejected ρ else .ok (applyOn dims T O ρ)

/-- a shrink request for the subsystem at position `p` is honoured only if nothing is cut off -/
def resizeChecked (lossless : Bool) (ρ ρ' : Tensor R) : Outcome R :=
  if lossless then .ok ρ' else .rejected ρ

end PW.Spec

namespace PW.Spec
variable {R : Type} [Add R] [Mul R] [Zero R] [One R] [Conj R]

/-- `(O_T ⊗ I) ψ` for a state vector `ψ` (indexed by one coordinate per subsystem) -/
def applyVec (dims : List Nat) (T : List Nat) (O ψ : Tensor R) : Tensor R := fun idx =>
  let n := dims.length
  sumLabels (dimOf2 dims) T (fun e =>
      O (T.map (fun p => idx.getD p 0) ++ T.map e) * ψ (subst n T idx e)) (fun _ => 0)

/-- the density matrix `|ψ⟩⟨ψ|` of a state vector on `n` subsystems -/
def outer (n : Nat) (ψ : Tensor R) : Tensor R := fun rc => ψ (rc.take n) * conj (ψ (rc.drop n))

end PW.Spec
