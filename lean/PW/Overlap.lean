/-!
# Temporal-mode overlap: closed forms (Mathlib-free, executable on `Float`)

`gaussianProfile` is `photon_weave.constants.gaussian` (normalised so that `∫ g² = 1`);
`overlapClosed` is the value of `∫ g₁(t) g₂(t − delay) dt` for two Gaussian profiles
(width `σ₁ σ₂`, centre offsets `μ₁ μ₂`).  `PW/Props/C19.lean` proves the closed form from
Mathlib's Gaussian integral for equal widths; the driver evaluates it for the correspondence check.
-/
namespace PW.Overlap

def gaussianProfile (sigma mu ta t : Float) : Float :=
  (1 / Float.sqrt (sigma * Float.sqrt 3.141592653589793)) * Float.exp (-((t - ta - mu) ^ 2) / (2 * sigma ^ 2))

/-- `√(2σ₁σ₂/(σ₁²+σ₂²)) · exp(−D²/(2(σ₁²+σ₂²)))` with `D` the distance of the centres -/
def overlapClosed (s1 s2 mu1 mu2 delay : Float) : Float :=
  let D := (delay + mu2) - mu1
  Float.sqrt (2 * s1 * s2 / (s1 ^ 2 + s2 ^ 2)) * Float.exp (-(D ^ 2) / (2 * (s1 ^ 2 + s2 ^ 2)))

end PW.Overlap
