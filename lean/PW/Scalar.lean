/-!
# Scalars of the executable model (Mathlib-free)

`Conj R` is the only structure the model needs beyond `+ * 0 1`.  Proof files provide the
instance `Conj R := ⟨star⟩` for a star ring; the driver uses `CF` (pairs of `Float`).
-/
namespace PW

class Conj (R : Type) where
  conj : R → R
export Conj (conj)

/-- complex numbers over `Float` (driver only; not a field, see DESIGN §3) -/
structure CF where
  re : Float
  im : Float
deriving Inhabited

namespace CF
instance : Add CF := ⟨fun a b => ⟨a.re + b.re, a.im + b.im⟩⟩
instance : Sub CF := ⟨fun a b => ⟨a.re - b.re, a.im - b.im⟩⟩
instance : Neg CF := ⟨fun a => ⟨-a.re, -a.im⟩⟩
instance : Mul CF := ⟨fun a b => ⟨a.re * b.re - a.im * b.im, a.re * b.im + a.im * b.re⟩⟩
instance : Zero CF := ⟨⟨0, 0⟩⟩
instance : One CF := ⟨⟨1, 0⟩⟩
instance : Conj CF := ⟨fun a => ⟨a.re, -a.im⟩⟩
instance : OfNat CF 0 := ⟨⟨0, 0⟩⟩
instance : OfNat CF 1 := ⟨⟨1, 0⟩⟩
def ofReal (x : Float) : CF := ⟨x, 0⟩
def I : CF := ⟨0, 1⟩
def normSq (a : CF) : Float := a.re * a.re + a.im * a.im
def abs (a : CF) : Float := Float.sqrt a.normSq
def smul (x : Float) (a : CF) : CF := ⟨x * a.re, x * a.im⟩
def inv (a : CF) : CF := let n := a.normSq; ⟨a.re / n, -a.im / n⟩
instance : Div CF := ⟨fun a b => a * b.inv⟩
/-- e^{iθ} -/
def cis (θ : Float) : CF := ⟨Float.cos θ, Float.sin θ⟩
def exp (a : CF) : CF := smul (Float.exp a.re) (cis a.im)
end CF

end PW
