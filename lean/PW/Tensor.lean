import PW.Scalar
/-!
# Tensors as index functions and an executable einsum (Mathlib-free)

A tensor is a function from multi-indices to scalars.  `einsum` is the textbook semantics of
`numpy.einsum` with an explicit output: every label that occurs in an operand and not in the
output is summed over its dimension; the value at an output index is the sum, over all
assignments of the summed labels, of the product of the operand entries.  The sum runs over
*label environments*, so no summation order is built in (`sumLabels_perm`).
-/
namespace PW

abbrev Tensor (R : Type) := List Nat → R
abbrev Env := Nat → Nat

def upd (e : Env) (l v : Nat) : Env := fun x => if x = l then v else e x

/-- bind labels to values; earlier bindings win -/
def bindEnv : List Nat → List Nat → Env → Env
  | l :: ls, v :: vs, e => fun x => if x = l then v else bindEnv ls vs e x
  | _, _, e => e

section
variable {R : Type} [Add R] [Mul R] [Zero R] [One R]

def sumLabels (dimOf : Nat → Nat) : List Nat → (Env → R) → Env → R
  | [], f, e => f e
  | l :: ls, f, e => ((List.range (dimOf l)).map fun i => sumLabels dimOf ls f (upd e l i)).sum

/-- remove duplicates (structural; which copy survives is irrelevant, see `sumLabels_perm`) -/
def dedupL : List Nat → List Nat
  | [] => []
  | a :: l => if a ∈ dedupL l then dedupL l else a :: dedupL l

def summedLabels (ins : List (List Nat)) (out : List Nat) : List Nat :=
  dedupL (ins.flatten.filter (fun l => decide (l ∉ out)))

def einsum (dimOf : Nat → Nat) (ins : List (List Nat)) (out : List Nat)
    (ts : List (Tensor R)) : Tensor R := fun oidx =>
  sumLabels dimOf (summedLabels ins out)
    (fun e => (List.zipWith (fun (labels : List Nat) (t : Tensor R) => t (labels.map e)) ins ts).prod)
    (bindEnv out oidx (fun _ => 0))

/-- sum over all multi-indices of a shape -/
def sumGrid : List Nat → (List Nat → R) → R
  | [], f => f []
  | d :: ds, f => ((List.range d).map fun i => sumGrid ds fun κ => f (i :: κ)).sum
end

/-! ### row-major flat layout (what `reshape` does) -/

/-- row-major flat index of multi-index `idx` in shape `ds` -/
def encode : List Nat → List Nat → Nat
  | _ :: ds, i :: is => i * ds.prod + encode ds is
  | _, _ => 0

/-- inverse of `encode` -/
def decode : List Nat → Nat → List Nat
  | [], _ => []
  | _ :: ds, k => (k / ds.prod) :: decode ds (k % ds.prod)

def inRange : List Nat → List Nat → Bool
  | [], [] => true
  | d :: ds, i :: is => decide (i < d) && inRange ds is
  | _, _ => false

/-- the tensor stored in a flat row-major array of shape `ds` (zero outside the shape) -/
def ofFlat {R : Type} [Zero R] (ds : List Nat) (a : Array R) : Tensor R := fun idx =>
  if inRange ds idx then a.getD (encode ds idx) 0 else 0

/-- flat row-major array of a tensor on shape `ds` -/
def toFlat {R : Type} (ds : List Nat) (t : Tensor R) : Array R :=
  Array.ofFn (n := ds.prod) fun k => t (decode ds k.val)

/-- replace the entries of `idx` at positions `ps` by the values `vs` -/
def setMany (idx : List Nat) : List Nat → List Nat → List Nat
  | p :: ps, v :: vs => setMany (idx.set p v) ps vs
  | _, _ => idx

end PW

namespace PW
/-- `jnp.kron` of two flat (vector-level) blocks: entry `k` is `a[k / |b|] * b[k % |b|]` -/
def kronFlat {R : Type} [Mul R] [Zero R] (a b : Array R) : Array R :=
  Array.ofFn (n := a.size * b.size) fun k => a.getD (k.val / b.size) 0 * b.getD (k.val % b.size) 0
end PW
