/-!
# Object identity versus value equality (model of `Fock.__eq__` and Python's `in` / `index`)

Python's list operations compare with `is` first and `==` second; `Fock.__eq__` compares the stored
*state* by value, and returns `False` when either operand holds no state of its own (it has been
extracted into an envelope or product space) — so value equality can only confuse two Focks that
both still hold their own state.
-/
namespace PW.Identity

structure Sub where
  uid : Nat
  isFock : Bool
  /-- own state, abstracted to a number (label, or a hash of the array); `none` once extracted -/
  state : Option Nat
deriving DecidableEq, Repr

/-- `a == b` as Python evaluates it for list operations: identity, else `__eq__` -/
def pyEq (a b : Sub) : Bool :=
  a.uid == b.uid ||
  (a.isFock && b.isFock && match a.state, b.state with
    | some x, some y => x == y
    | _, _ => false)

def pyIn (x : Sub) (l : List Sub) : Bool := l.any (pyEq x)
def idIn (x : Sub) (l : List Sub) : Bool := l.any (fun y => x.uid == y.uid)

end PW.Identity
