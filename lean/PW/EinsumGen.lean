import PW.Tensor
/-!
# Models of `photon_weave/extra/einsum_constructor.py` on positions (Mathlib-free)

The Python functions receive the list of member objects of a product space and the list of
addressed objects and emit an einsum string.  Only the *positions* of the addressed objects
in the member list matter, so the model takes `n` (number of members) and a list of positions.
A generated plan is `(input label lists, output label list)`; labels are natural numbers.
The correspondence check compares `render` of these plans with the strings the Python
functions return, after relabelling both by first appearance (`canon`), for every `n ≤ 5` and
every ordered operand list, on every run.
-/
namespace PW

abbrev Plan := List (List Nat) × List Nat

/-- `apply_operator_vector`: members `0..n-1`, trailing axis `n`, operator on positions `ops` -/
def applyOperatorVector (n : Nat) (ops : List Nat) : Plan :=
  ([ (List.range ops.length).map (· + (n + 1)) ++ ops, List.range (n + 1) ],
   (List.range n).map (fun p => if p ∈ ops then n + 1 + ops.idxOf p else p) ++ [n])

def rowOut (n : Nat) (ops : List Nat) (p : Nat) : Nat :=
  if p ∈ ops then 2 * n + ops.idxOf p else p
def colOut (n : Nat) (ops : List Nat) (p : Nat) : Nat :=
  if p ∈ ops then 2 * n + ops.length + ops.idxOf p else n + p
def outM (n : Nat) (ops : List Nat) : List Nat :=
  (List.range n).map (rowOut n ops) ++ (List.range n).map (colOut n ops)
def opL1 (n : Nat) (ops : List Nat) : List Nat :=
  (List.range ops.length).map (· + 2 * n) ++ ops
def opL2 (n : Nat) (ops : List Nat) : List Nat :=
  (List.range ops.length).map (· + (2 * n + ops.length)) ++ ops.map (n + ·)

/-- `apply_operator_matrix`: rows `0..n-1`, columns `n..2n-1` -/
def applyOperatorMatrix (n : Nat) (ops : List Nat) : Plan :=
  ([opL1 n ops, List.range (2 * n), opL2 n ops], outM n ops)

/-- `trace_out_vector` (and, same string, `measure_vector`): keep positions `kept`, in storage order -/
def traceOutVector (n : Nat) (kept : List Nat) : Plan :=
  ([List.range (n + 1)], (List.range n).filter (fun p => decide (p ∈ kept)) ++ [n])

def toRow (n : Nat) (kept : List Nat) (p : Nat) : Nat := if p ∈ kept then n + p else p
def toCol (n : Nat) (kept : List Nat) (p : Nat) : Nat := if p ∈ kept then 2 * n + p else p

/-- `trace_out_matrix` (and, same pattern, `measure_matrix`): a traced-out position uses one label for
its row and column axis (label `p`), a kept position keeps distinct row / column labels -/
def traceOutMatrix (n : Nat) (kept : List Nat) : Plan :=
  ([ (List.range n).map (toRow n kept) ++ (List.range n).map (toCol n kept) ],
   ((List.range n).filter (fun p => decide (p ∈ kept))).map (n + ·) ++
   ((List.range n).filter (fun p => decide (p ∈ kept))).map (2 * n + ·))

/-- `reorder_vector`: new order `perm` (a permutation of `0..n-1`); label 0 is the trailing axis -/
def reorderVector (n : Nat) (perm : List Nat) : Plan :=
  ([ (List.range n).map (· + 1) ++ [0] ], perm.map (· + 1) ++ [0])

/-- `reorder_matrix` -/
def reorderMatrix (n : Nat) (perm : List Nat) : Plan :=
  ([ List.range (2 * n) ], perm ++ perm.map (n + ·))

def measureVector (n : Nat) (meas : List Nat) : Plan := traceOutVector n meas
def measureMatrix (n : Nat) (meas : List Nat) : Plan := traceOutMatrix n meas

/-! ### strings -/

/-- relabel by first appearance -/
def canonMap (ls : List Nat) : List (Nat × Nat) :=
  ls.foldl (fun acc l => if acc.any (·.1 == l) then acc else acc ++ [(l, acc.length)]) []

def canon (p : Plan) : Plan :=
  let m := canonMap (p.1.flatten ++ p.2)
  let f := fun l => (m.find? (·.1 == l)).map (·.2) |>.getD 0
  (p.1.map (·.map f), p.2.map f)

def labelsToString (ls : List Nat) : String :=
  String.ofList (ls.map fun l => Char.ofNat (97 + l))

def render (p : Plan) : String :=
  let c := canon p
  ",".intercalate (c.1.map labelsToString) ++ "->" ++ labelsToString c.2

/-- parse `"ab,bc->ac"` -/
def parsePlan (s : String) : Option Plan :=
  match s.splitOn "->" with
  | [lhs, rhs] =>
    let f := fun (t : String) => t.toList.map fun c => c.toNat - 97
    some ((lhs.splitOn ",").map f, f rhs)
  | _ => none

end PW
