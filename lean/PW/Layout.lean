/-!
# Storage layout: the partition of live subsystems into blocks (Mathlib-free, executable)

A *block* is a set of subsystems that share one stored array: a subsystem holding its own state, a
combined envelope, or a composite product space.  The model keeps the ordered member list of each
block (= tensor order) and its kind.  Calls act on it as `CompositeEnvelope.combine / reorder`,
the routing of `apply_operation / apply_kraus / measure_POVM / trace_out`, and measurement do.
-/
namespace PW.Layout

inductive Kind where
  | own
  | env
  | ps (container : Nat)
deriving DecidableEq, Repr

structure Block where
  kind : Kind
  members : List Nat
deriving DecidableEq, Repr

abbrev Layout := List Block

def meets (T : List Nat) (b : Block) : Bool := b.members.any (· ∈ T)

def allMembers (l : Layout) : List Nat := (l.map (·.members)).flatten

/-- the blocks a combine request for `T` inside container `c` collects, in the implementation's
order: product spaces of `c` hit by `T` (order of first hit), then per target its envelope block
or own block -/
def collected (l : Layout) (c : Nat) (T : List Nat) : List Block :=
  let hitPs : List Block := T.foldl (fun acc t =>
      match l.find? (fun b => b.kind == .ps c && t ∈ b.members) with
      | some b => if b ∈ acc then acc else acc ++ [b]
      | none => acc) []
  T.foldl (fun acc t =>
      if (acc.map (·.members)).flatten.contains t then acc else
      match l.find? (fun b => t ∈ b.members) with
      | some b => acc ++ [b]
      | none => acc) hitPs

/-- `CompositeEnvelope.combine(*T)` at the level of the partition -/
def combine (l : Layout) (c : Nat) (T : List Nat) : Layout :=
  if l.any (fun b => b.kind == .ps c && T.all (· ∈ b.members)) then l
  else
    let col := collected l c T
    if col.isEmpty then l
    else l.filter (fun b => b ∉ col) ++ [⟨.ps c, (col.map (·.members)).flatten⟩]

/-- new member order of `CompositeEnvelope.reorder`: each listed subsystem is swapped into position i -/
def swapInto : List Nat → Nat → List Nat → List Nat
  | order, _, [] => order
  | order, i, t :: ts =>
    let j := order.idxOf t
    let order' := if j = i then order else (order.set i t).set j (order.getD i 0)
    swapInto order' (i + 1) ts

/-- `CompositeEnvelope.reorder(*T)` : combine, then reorder the product space holding `T` -/
def reorder (l : Layout) (c : Nat) (T : List Nat) : Layout :=
  let l' := combine l c T
  l'.map fun b => if b.kind == .ps c && T.all (· ∈ b.members) then { b with members := swapInto b.members 0 T } else b

/-- routing of a (multi-)subsystem action: a single target that is not in a product space stays
where it is; otherwise exactly the blocks holding the targets are joined -/
def route (l : Layout) (c : Nat) (T : List Nat) : Layout :=
  match T with
  | [t] => if l.any (fun b => (match b.kind with | .ps _ => true | _ => false) && t ∈ b.members) then combine l c T else l
  | _ => combine l c T

/-- measured (retired or reset) subsystems leave their blocks; emptied blocks disappear -/
def removeMeasured (l : Layout) (M : List Nat) : Layout :=
  (l.map fun b => { b with members := b.members.filter (· ∉ M) }).filter (fun b => !b.members.isEmpty)

/-- well-formedness: every live subsystem is in exactly one block, no block is empty -/
def WF (l : Layout) : Prop := (allMembers l).Nodup ∧ ∀ b ∈ l, b.members ≠ []

end PW.Layout
