import Lean.Data.Json
import PW.Spec
import PW.Ops
import PW.EinsumGen
import PW.Interp
import PW.Overlap
import PW.Rng
import PW.OpModel
import PW.Routing
import PW.Decide
/-!
# JSON-lines driver for the executable model (compiled as `pwdriver`, Mathlib-free)

One request per line on stdin, one reply per line on stdout.  Floats travel as IEEE-754 bit
patterns (decimal integers), complex arrays as `{"re":[…],"im":[…]}`.
-/
open Lean PW

namespace PW.Driver

def fbits (x : Float) : Json := Json.num (JsonNumber.fromNat x.toBits.toNat)
def ofBitsJ (j : Json) : Except String Float := do
  let n ← j.getNat?
  return Float.ofBits (UInt64.ofNat n)

def cfArrToJson (a : Array CF) : Json :=
  Json.mkObj [("re", Json.arr (a.map fun z => fbits z.re)), ("im", Json.arr (a.map fun z => fbits z.im))]

def cfArrOfJson (j : Json) : Except String (Array CF) := do
  let re ← (← j.getObjVal? "re").getArr?
  let im ← (← j.getObjVal? "im").getArr?
  if re.size ≠ im.size then throw "re/im size mismatch"
  let mut out : Array CF := Array.mkEmpty re.size
  for i in [0:re.size] do
    out := out.push ⟨← ofBitsJ re[i]!, ← ofBitsJ im[i]!⟩
  return out

def natList (j : Json) : Except String (List Nat) := do
  let a ← j.getArr?
  a.toList.mapM fun x => x.getNat?

def getF (j : Json) (k : String) : Except String Float := do ofBitsJ (← j.getObjVal? k)

partial def exprOfJson (j : Json) : Except String Interp.Expr := do
  match j.getObjVal? "num" with
  | .ok v => do
      let a ← v.getArr?
      pure (.num ⟨← ofBitsJ a[0]!, ← ofBitsJ a[1]!⟩)
  | .error _ =>
  match j.getObjVal? "mat" with
  | .ok v => do
      let n ← (← v.getObjVal? "n").getNat?
      let a ← cfArrOfJson v
      pure (.mat ⟨n, a⟩)
  | .error _ =>
  match j.getObjVal? "name" with
  | .ok v => do pure (.name (← v.getStr?))
  | .error _ => do
      let h ← (← j.getObjVal? "node").getStr?
      let args ← (← j.getObjVal? "args").getArr?
      let es ← args.toList.mapM exprOfJson
      pure (.node h es)

def valToJson : Interp.Val → Json
  | .num z => Json.mkObj [("num", Json.arr #[fbits z.re, fbits z.im])]
  | .mat m => Json.mkObj [("mat", Json.mkObj [("n", toJson m.n), ("re", Json.arr (m.a.map fun z => fbits z.re)), ("im", Json.arr (m.a.map fun z => fbits z.im))])]

def blockOfJson (j : Json) : Except String Layout.Block := do
  let k ← (← j.getObjVal? "k").getStr?
  let m ← natList (← j.getObjVal? "m")
  match k with
  | "own" => pure ⟨.own, m⟩
  | "env" => pure ⟨.env, m⟩
  | "ps" => do
      let c ← (← j.getObjVal? "c").getNat?
      pure ⟨.ps c, m⟩
  | _ => throw "bad block kind"

def blockToJson (b : Layout.Block) : Json :=
  match b.kind with
  | .own => Json.mkObj [("k", "own"), ("m", toJson b.members)]
  | .env => Json.mkObj [("k", "env"), ("m", toJson b.members)]
  | .ps c => Json.mkObj [("k", "ps"), ("c", toJson c), ("m", toJson b.members)]

def routeCall (j : Json) : Except String Json := do
  let lay ← (← (← j.getObjVal? "layout").getArr?).toList.mapM blockOfJson
  let subs ← (← j.getObjVal? "subs").getArr?
  let mut table : List (Nat × Bool × Bool × Option Nat) := []
  for sj in subs.toList do
    let id ← (← sj.getObjVal? "id").getNat?
    let f ← (← sj.getObjVal? "fock").getBool?
    let cu ← (← sj.getObjVal? "custom").getBool?
    let p := (sj.getObjVal? "partner").toOption.bind (·.getNat?.toOption)
    table := (id, f, cu, p) :: table
  let look := fun (x : Nat) => table.find? (·.1 == x)
  let info : Routing.Info := {
    isFock := fun x => (look x).map (·.2.1) |>.getD false,
    isCustom := fun x => (look x).map (·.2.2.1) |>.getD false,
    partner := fun x => (look x).bind (·.2.2.2) }
  let call ← j.getObjVal? "call"
  let what ← (← call.getObjVal? "what").getStr?
  let getL := fun (k : String) => (call.getObjVal? k).toOption.bind (fun v => (natList v).toOption) |>.getD []
  let c := (call.getObjVal? "c").toOption.bind (·.getNat?.toOption) |>.getD 0
  let entry : Routing.Entry := match (call.getObjVal? "entry").toOption.bind (·.getStr?.toOption) with
    | some "env" => .env | some "ce" => .ce | _ => .state
  let T := getL "T"
  let out ← match what with
    | "none" => pure lay
    | "op" => pure (Routing.actOp lay c T (getL "focks"))
    | "kraus" => pure (Routing.actKraus info lay c entry T)
    | "measure" => pure (Routing.actMeasure lay (getL "M") (getL "survivors"))
    | "trace_out" => pure (Routing.actTraceOut info lay c entry T)
    | "resize" => pure (Routing.actResize lay (T.headD 0) ((call.getObjVal? "shrink").toOption.bind (·.getBool?.toOption) |>.getD false))
    | "povm" => pure (Routing.cePovm lay c T)
    | "front" => pure (Routing.memberFront lay (T.headD 0) true)
    | "env_combine" => pure (Routing.envCombine lay (T.headD 0) (T.getD 1 0))
    | "env_order" => pure (Routing.envOrder lay T)
    | "ce_combine" => pure (Layout.combine lay c T)
    | "ce_reorder" => pure (Layout.reorder lay c T)
    | "merge" => pure (Routing.mergeContainers lay c (getL "others"))
    | _ => throw s!"unknown routing call {what}"
  pure (Json.mkObj [("ok", Json.bool true), ("layout", Json.arr (out.toArray.map blockToJson))])

/-- the spec machine state -/
structure Core where
  ids : List Nat := []
  dims : List Nat := []
  rho : Array CF := #[1]
deriving Inhabited

structure St extends Core where
  saved : List Core := []
deriving Inhabited

def St.fn (s : St) : Tensor CF := ofFlat (s.dims ++ s.dims) s.rho
def St.pos (s : St) (id : Nat) : Except String Nat :=
  match s.ids.idxOf? id with
  | some p => pure p
  | none => throw s!"unknown subsystem {id}"

/-- a square matrix given flat (row-major) as an operator tensor with axes `dT ++ dT` -/
def opTensor (dT : List Nat) (a : Array CF) : Tensor CF := ofFlat (dT ++ dT) a

def matToOp (dT : List Nat) (m : Ops.Mat) : Tensor CF := opTensor dT m.a

/-- build a library operator in `CF` at the given target dimensions -/
def buildOp (name : String) (p : Json) (dT : List Nat) : Except String Ops.Mat := do
  let I : CF := CF.I
  let d0 := dT.getD 0 1
  let m2 := fun (t : Tensor CF) => Ops.Mat.ofTensor 2 t
  match name with
  | "I" => pure (m2 (Ops.ident 2))
  | "X" => pure (m2 Ops.pauliX)
  | "Y" => pure (m2 (Ops.pauliY I))
  | "Z" => pure (m2 Ops.pauliZ)
  | "H" => pure (m2 (Ops.hadamard (CF.ofReal (1 / Float.sqrt 2))))
  | "S" => pure (m2 (Ops.sGate I))
  | "T" => pure (m2 (Ops.tGate (CF.cis (3.141592653589793 / 4))))
  | "SX" => pure (m2 (Ops.sxGate I (CF.ofReal 0.5)))
  | "RX" => do
      let th ← getF p "theta"
      pure (m2 (Ops.rx I (CF.ofReal (Float.cos (th / 2))) (CF.ofReal (Float.sin (th / 2)))))
  | "RY" => do
      let th ← getF p "theta"
      pure (m2 (Ops.ry (CF.ofReal (Float.cos (th / 2))) (CF.ofReal (Float.sin (th / 2)))))
  | "RZ" => do
      let th ← getF p "theta"
      pure (m2 (Ops.rz (CF.cis (-(th / 2))) (CF.cis (th / 2))))
  | "U3" => do
      let phi ← getF p "phi"; let th ← getF p "theta"; let om ← getF p "omega"
      pure (m2 (Ops.u3 (CF.ofReal (Float.cos (th / 2))) (CF.ofReal (Float.sin (th / 2))) (CF.cis om) (CF.cis phi)))
  | "CX" => pure (Ops.Mat.ofTensor 4 Ops.cnot)
  | "CZ" => pure (Ops.Mat.ofTensor 4 Ops.cz)
  | "SWAP" => pure (Ops.Mat.ofTensor 4 Ops.swap)
  | "CSWAP" => pure (Ops.Mat.ofTensor 8 Ops.cswap)
  | "Creation" => pure (Ops.Mat.ofTensor d0 (Ops.creation Ops.sqF d0))
  | "Annihilation" => pure (Ops.Mat.ofTensor d0 (Ops.annihilation Ops.sqF d0))
  | "Number" => pure (Ops.Mat.ofTensor d0 (Ops.number Ops.sqF d0))
  | "FockIdentity" => pure (Ops.Mat.ofTensor d0 (Ops.ident d0))
  | "PhaseShift" => do
      let phi ← getF p "phi"
      pure (Ops.Mat.ofTensor d0 (Ops.phase (fun n => CF.cis (n.toFloat * phi)) d0))
  | "Displace" => do
      let ar ← getF p "alpha_re"; let ai ← getF p "alpha_im"
      let g := Ops.displaceGenerator Ops.sqF ⟨ar, ai⟩ ⟨ar, -ai⟩ d0
      pure (Ops.Mat.expm (Ops.Mat.ofTensor d0 g))
  | "Squeeze" => do
      let zr ← getF p "zeta_re"; let zi ← getF p "zeta_im"
      let g := Ops.squeezeGenerator Ops.sqF (CF.ofReal 0.5) ⟨zr, zi⟩ ⟨zr, -zi⟩ d0
      pure (Ops.Mat.expm (Ops.Mat.ofTensor d0 g))
  | "BS" => do
      let eta ← getF p "eta"
      let d1 := dT.getD 1 1
      let g := Ops.bsGenerator Ops.sqF d0 d1
      pure (Ops.Mat.expm (Ops.Mat.smul ⟨0, eta⟩ (Ops.Mat.ofTensor (d0 * d1) g)))
  | _ => throw s!"unknown operator {name}"

def targetsOf (s : St) (j : Json) : Except String (List Nat × List Nat) := do
  let ids ← natList (← j.getObjVal? "targets")
  let T ← ids.mapM s.pos
  return (T, T.map fun p => s.dims.getD p 0)

def ok (fields : List (String × Json)) : Json := Json.mkObj (("ok", Json.bool true) :: fields)

def traceOf (s : St) : CF := Spec.trace s.dims s.fn

def renorm (s : St) : St :=
  let t := traceOf s
  { s with rho := s.rho.map fun z => z / t }

def getOp (s : St) (j : Json) (dT : List Nat) : Except String (Tensor CF) := do
  match j.getObjVal? "U" with
  | .ok u => do
      let a ← cfArrOfJson u
      let D := dT.prod
      if a.size ≠ D * D then throw s!"operator size {a.size} does not match targets ({D})"
      pure (opTensor dT a)
  | .error _ => do
      let name ← (← j.getObjVal? "gate").getStr?
      let p := (j.getObjVal? "params").toOption.getD (Json.mkObj [])
      let m ← buildOp name p dT
      if m.n ≠ dT.prod then throw s!"operator {name} has size {m.n}, targets have {dT.prod}"
      pure (matToOp dT m)

def step (s : St) (j : Json) : Except String (St × Json) := do
  let op ← (← j.getObjVal? "op").getStr?
  match op with
  | "reset" => pure ({}, ok [])
  | "save" => pure ({ s with saved := s.toCore :: s.saved }, ok [])
  | "restore" =>
      match s.saved with
      | c :: rest => pure ({ toCore := c, saved := rest }, ok [])
      | [] => throw "nothing saved"
  | "drop" => pure ({ s with saved := s.saved.drop 1 }, ok [])
  | "add" => do
      let id ← (← j.getObjVal? "id").getNat?
      let d ← (← j.getObjVal? "dim").getNat?
      let v ← cfArrOfJson (← j.getObjVal? "vec")
      let vt : Tensor CF := ofFlat [d] v
      let nd := s.dims ++ [d]
      let t := Spec.tensorVec s.dims vt s.fn
      pure ({ s with ids := s.ids ++ [id], dims := nd, rho := toFlat (nd ++ nd) t }, ok [])
  | "resize" => do
      let id ← (← j.getObjVal? "id").getNat?
      let d ← (← j.getObjVal? "dim").getNat?
      let p ← s.pos id
      let nd := s.dims.set p d
      let before := traceOf s
      let s' : St := { s with dims := nd, rho := toFlat (nd ++ nd) s.fn }
      let after := traceOf s'
      pure (s', ok [("lost", fbits (before.re - after.re))])
  | "apply" => do
      let (T, dT) ← targetsOf s j
      let O ← getOp s j dT
      let t := Spec.applyOn s.dims T O s.fn
      let s1 : St := { s with rho := toFlat (s.dims ++ s.dims) t }
      let tr := traceOf s1
      let rn := (j.getObjVal? "renorm").toOption.bind (·.getBool?.toOption) |>.getD false
      let s2 := if rn && tr.abs > 0 then renorm s1 else s1
      pure (s2, ok [("trace", fbits tr.re)])
  | "kraus" => do
      let (T, dT) ← targetsOf s j
      let arr ← (← j.getObjVal? "ops").getArr?
      let Ks ← arr.toList.mapM fun u => do
        let a ← cfArrOfJson u
        if a.size ≠ dT.prod * dT.prod then throw "kraus operator size mismatch"
        pure (opTensor dT a)
      let t := Spec.krausOn s.dims T Ks s.fn
      let s1 : St := { s with rho := toFlat (s.dims ++ s.dims) t }
      pure (s1, ok [("trace", fbits (traceOf s1).re)])
  | "probs" => do
      let id ← (← j.getObjVal? "id").getNat?
      let p ← s.pos id
      let d := s.dims.getD p 0
      let ps := (List.range d).map fun o => (Spec.prob s.dims p s.fn o).re
      pure (s, ok [("p", Json.arr (ps.toArray.map fbits))])
  | "project" => do
      let id ← (← j.getObjVal? "id").getNat?
      let o ← (← j.getObjVal? "outcome").getNat?
      let remove ← (← j.getObjVal? "remove").getBool?
      let p ← s.pos id
      let pr := (Spec.prob s.dims p s.fn o).re
      let t := Spec.projectOn s.dims p o s.fn
      let s1 : St := renorm { s with rho := toFlat (s.dims ++ s.dims) t }
      if remove then
        let nd := s.dims.eraseIdx p
        let t2 := Spec.removeAt s.dims p o s1.fn
        pure ({ s with ids := s.ids.eraseIdx p, dims := nd, rho := toFlat (nd ++ nd) t2 }, ok [("p", fbits pr)])
      else
        pure (s1, ok [("p", fbits pr)])
  | "discard" => do
      let id ← (← j.getObjVal? "id").getNat?
      let p ← s.pos id
      let T := (List.range s.dims.length).filter (· != p)
      let nd := s.dims.eraseIdx p
      let t := Spec.reduceTo s.dims T s.fn
      pure ({ s with ids := s.ids.eraseIdx p, dims := nd, rho := toFlat (nd ++ nd) t }, ok [])
  | "set" => do
      let ids ← natList (← j.getObjVal? "ids")
      let dims ← natList (← j.getObjVal? "dims")
      let a ← cfArrOfJson (← j.getObjVal? "rho")
      if a.size ≠ dims.prod * dims.prod then throw "set: size mismatch"
      pure ({ s with ids := ids, dims := dims, rho := a }, ok [])
  | "povm_probs" => do
      let (T, dT) ← targetsOf s j
      let arr ← (← j.getObjVal? "ops").getArr?
      let ps ← arr.toList.mapM fun u => do
        let a ← cfArrOfJson u
        if a.size ≠ dT.prod * dT.prod then throw "povm operator size mismatch"
        let t := Spec.applyOn s.dims T (opTensor dT a) s.fn
        pure (Spec.trace s.dims t).re
      pure (s, ok [("p", Json.arr (ps.toArray.map fbits))])
  | "reduce" => do
      let (T, dT) ← targetsOf s j
      let t := Spec.reduceTo s.dims T s.fn
      pure (s, ok [("dims", toJson dT), ("rho", cfArrToJson (toFlat (dT ++ dT) t))])
  | "get" =>
      pure (s, ok [("ids", toJson s.ids), ("dims", toJson s.dims), ("rho", cfArrToJson s.rho),
                   ("trace", fbits (traceOf s).re), ("purity", fbits (Spec.purity s.dims s.fn).re)])
  | "operator" => do
      let name ← (← j.getObjVal? "gate").getStr?
      let p := (j.getObjVal? "params").toOption.getD (Json.mkObj [])
      let dT ← natList (← j.getObjVal? "dims")
      let m ← buildOp name p dT
      pure (s, ok [("n", toJson m.n), ("m", cfArrToJson m.a)])
  | "contract_decide" => do
      let tol ← getF j "tol"
      let purity ← getF j "purity"
      let eigs ← (← (← j.getObjVal? "eigs").getArr?).toList.mapM ofBitsJ
      let d := Decide.contractDecision (Decide.closeF tol) purity eigs
      pure (s, ok [("attempt", Json.bool d.attempt), ("index", toJson d.index)])
  | "num_quanta" => do
      let a ← cfArrOfJson (← j.getObjVal? "data")
      let n ← (← j.getObjVal? "n").getNat?
      let isMat := (j.getObjVal? "matrix").toOption.bind (·.getBool?.toOption) |>.getD false
      let r : Option Nat :=
        if isMat then
          Decide.numQuantaMatrix Decide.nzCF ((List.range n).map fun r => (List.range n).map fun c => a.getD (r * n + c) 0)
        else Decide.numQuantaVector Decide.nzCF a.toList
      pure (s, ok [("q", match r with | some q => toJson q | none => Json.null)])
  | "kraus_check" => do
      let tol ← getF j "tol"
      let d ← (← j.getObjVal? "d").getNat?
      let arr ← (← j.getObjVal? "ops").getArr?
      let Ks ← arr.toList.mapM fun u => do
        let a ← cfArrOfJson u
        if a.size ≠ d * d then throw "kraus operator size mismatch"
        pure (opTensor [d] a)
      pure (s, ok [("accept", Json.bool (Decide.krausCheck (Decide.allcloseF tol) d Ks))])
  | "einsum" => do
      let fn ← (← j.getObjVal? "fn").getStr?
      let n ← (← j.getObjVal? "n").getNat?
      let ops ← natList (← j.getObjVal? "ops")
      let plan ← match fn with
        | "apply_operator_vector" => pure (applyOperatorVector n ops)
        | "apply_operator_matrix" => pure (applyOperatorMatrix n ops)
        | "trace_out_vector" => pure (traceOutVector n ops)
        | "trace_out_matrix" => pure (traceOutMatrix n ops)
        | "reorder_vector" => pure (reorderVector n ops)
        | "reorder_matrix" => pure (reorderMatrix n ops)
        | "measure_vector" => pure (measureVector n ops)
        | "measure_matrix" => pure (measureMatrix n ops)
        | _ => throw s!"unknown einsum generator {fn}"
      pure (s, ok [("s", Json.str (render plan))])
  | "interp" => do
      let e ← exprOfJson (← j.getObjVal? "expr")
      let cj ← (← j.getObjVal? "ctx").getObj?
      let mut table : List (String × Interp.Val) := []
      for (k, v) in cj.toList do
        match ← exprOfJson v with
        | .num z => table := (k, .num z) :: table
        | .mat m => table := (k, .mat m) :: table
        | _ => throw "context entries must be values"
      let ctx : Interp.Ctx := fun nm => (table.find? (·.1 == nm)).map (·.2)
      match Interp.eval ctx e with
      | .ok v => pure (s, ok [("val", valToJson v)])
      | .error msg => pure (s, ok [("err", Json.str msg)])
  | "overlap" => do
      let s1 ← getF j "sigma1"; let s2 ← getF j "sigma2"
      let m1 ← getF j "mu1"; let m2 ← getF j "mu2"; let d ← getF j "delay"
      pure (s, ok [("v", fbits (Overlap.overlapClosed s1 s2 m1 m2 d))])
  | "rng" => do
      let seed ← (← j.getObjVal? "seed").getNat?
      let n ← (← j.getObjVal? "n").getNat?
      let (ks, c) := Rng.draws n (Rng.setSeed ⟨.root 0⟩ seed)
      pure (s, ok [("keys", toJson (ks.map Rng.path)), ("state", Json.str (Rng.path c.key))])
  | "dims" => do
      let t ← (← j.getObjVal? "type").getStr?
      let q ← natList (← j.getObjVal? "q")
      let sizes ← natList (← j.getObjVal? "sizes")
      let old ← natList (← j.getObjVal? "old")
      let ty ← match t with
        | "Creation" => pure OpModel.OpType.creation | "Annihilation" => pure .annihilation
        | "PhaseShift" => pure .phaseShift | "FockIdentity" => pure .fockIdentity | "FockCustom" => pure .fockCustom
        | "Polarization" => pure .polarization | "CustomState" => pure .customState
        | "BS" => pure .beamSplitter | "CX" => pure .cx | "CZ" => pure .cz | "SWAP" => pure .swap
        | "CSWAP" => pure .cswap | "Expression" => pure .expression
        | _ => throw s!"unknown operation type {t}"
      pure (s, ok [("dims", toJson (OpModel.dimsFor ty q sizes old))])
  | "route" => do
      let r ← routeCall j
      pure (s, r)
  | "canon" => do
      let str ← (← j.getObjVal? "s").getStr?
      match parsePlan str with
      | some p => pure (s, ok [("s", Json.str (render p))])
      | none => throw "cannot parse einsum string"
  | _ => throw s!"unknown op {op}"

partial def loop (h : IO.FS.Stream) (out : IO.FS.Stream) (s : St) : IO Unit := do
  let line ← h.getLine
  if line.isEmpty then return ()
  let line := line.trimAscii.toString
  if line.isEmpty then loop h out s else
  match Json.parse line >>= step s with
  | .ok (s', reply) =>
      out.putStrLn reply.compress
      out.flush
      loop h out s'
  | .error e =>
      out.putStrLn (Json.mkObj [("ok", Json.bool false), ("error", Json.str e)]).compress
      out.flush
      loop h out s

end PW.Driver

def main : IO Unit := do
  PW.Driver.loop (← IO.getStdin) (← IO.getStdout) {}
