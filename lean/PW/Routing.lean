import PW.Layout
/-!
# Routing: which blocks a public call touches, joins and reorders (Mathlib-free, executable)

Transcription of the routing logic of `Fock / Polarization / CustomState`, `Envelope` and
`CompositeEnvelope` entry points (after the repairs of DESIGN §5.1) on the partition model of
`PW/Layout.lean`.  The correspondence check sends the partition found in the real object graph
before a call together with the call, and compares the predicted partition (members *and order*
of every block, order of the product spaces of each container) with the one found afterwards.
-/
namespace PW.Routing
open PW.Layout

/-- static facts about the subsystems of a program -/
structure Info where
  isFock : Nat → Bool
  isCustom : Nat → Bool
  /-- the other member of the subsystem's envelope -/
  partner : Nat → Option Nat

inductive Entry where
  | state | env | ce
deriving DecidableEq, Repr

def blockOf (l : Layout) (t : Nat) : Option Block := l.find? (fun b => t ∈ b.members)

def inPs (l : Layout) (t : Nat) : Option Nat :=
  match blockOf l t with
  | some ⟨.ps c, _⟩ => some c
  | _ => none

def inEnv (l : Layout) (t : Nat) : Bool :=
  match blockOf l t with
  | some ⟨.env, _⟩ => true
  | _ => false

/-- `Envelope.reorder(t)` / `reorder(a, b)` on a combined envelope: the listed members come first -/
def envOrder (l : Layout) (T : List Nat) : Layout :=
  l.map fun b =>
    if b.kind == .env && T.all (· ∈ b.members) then
      { b with members := T ++ b.members.filter (· ∉ T) }
    else b

/-- `Envelope.combine()` : two own blocks become one envelope block (Fock first) -/
def envCombine (l : Layout) (f p : Nat) : Layout :=
  if l.any (fun b => b.kind == .own && b.members == [f]) && l.any (fun b => b.kind == .own && b.members == [p]) then
    l.filter (fun b => !(b.kind == .own && (b.members == [f] || b.members == [p]))) ++ [⟨.env, [f, p]⟩]
  else l

def psMeeting (l : Layout) (c : Nat) (T : List Nat) : List Block :=
  l.filter (fun b => b.kind == .ps c && meets T b)

/-- targets plus the members of the product spaces they meet (the `all_states` of the code) -/
def withMembers (l : Layout) (c : Nat) (T : List Nat) : List Nat :=
  T ++ ((psMeeting l c T).map (·.members)).flatten

/-- the subsystems of one envelope that are both addressed and neither is in a product space -/
def sameFreeEnvelope (i : Info) (l : Layout) (T : List Nat) : Bool :=
  match T with
  | [a, b] => i.partner a == some b && (inPs l a).isNone && (inPs l b).isNone
  | _ => false

/-- the behaviour of a single-subsystem request made on the subsystem itself -/
def memberFront (l : Layout) (t : Nat) (reorderInPs : Bool) : Layout :=
  match blockOf l t with
  | some ⟨.env, _⟩ => envOrder l [t]
  | some ⟨.ps c, _⟩ => if reorderInPs then reorder l c [t] else l
  | _ => l

/-- `apply_operation`: `focks` = the Fock operands that are resized before the operator is applied
(each resize inside a product space moves that Fock to the front) -/
def actOp (l : Layout) (c : Nat) (T : List Nat) (focks : List Nat) : Layout :=
  match T with
  | [t] => memberFront l t (t ∈ focks)
  | _ =>
    let m := psMeeting l c T
    let l1 := if m.length = 1 && T.all (fun t => m.any (fun b => t ∈ b.members)) then l
              else combine l c (withMembers l c T)
    focks.foldl (fun acc f => reorder acc c [f]) l1

/-- `CompositeEnvelope.apply_kraus` -/
def ceKraus (i : Info) (l : Layout) (c : Nat) (T : List Nat) : Layout :=
  let m := psMeeting l c T
  if m.length > 1 then reorder (combine l c (withMembers l c T)) c T
  else if m.length = 0 then
    match T with
    | [t] => memberFront l t true
    | [a, b] =>
      if sameFreeEnvelope i l T then envOrder (envCombine l (if i.isFock a then a else b) (if i.isFock a then b else a)) [a, b]
      else reorder (combine l c T) c T
    | _ => reorder (combine l c T) c T
  else reorder l c T

def actKraus (i : Info) (l : Layout) (c : Nat) (entry : Entry) (T : List Nat) : Layout :=
  match entry, T with
  | .ce, _ => ceKraus i l c T
  | _, [t] => match inPs l t with
    | some c' => reorder l c' [t]
    | none => memberFront l t true
  | _, _ =>
    if T.any (fun t => (inPs l t).isSome) then ceKraus i l c T
    else match T with
      | [a, b] => envOrder (envCombine l (if i.isFock a then a else b) (if i.isFock a then b else a)) [a, b]
      | _ => l

/-- measured subsystems leave their blocks; the ones that survive (non-destructive measurement,
custom states) hold their outcome themselves -/
def actMeasure (l : Layout) (M survivors : List Nat) : Layout :=
  removeMeasured l M ++ survivors.map (fun s => ⟨.own, [s]⟩)

/-- `CompositeEnvelope.trace_out` -/
def ceTraceOut (l : Layout) (c : Nat) (T : List Nat) : Layout :=
  let m := psMeeting l c T
  if m.length > 1 then reorder (combine l c (withMembers l c T)) c T else reorder l c T

def actTraceOut (i : Info) (l : Layout) (c : Nat) (entry : Entry) (T : List Nat) : Layout :=
  match entry, T with
  | .ce, _ => ceTraceOut l c T
  | _, [t] => match inPs l t with
    | some c' => ceTraceOut l c' [t]
    | none => memberFront l t false
  | _, _ =>
    if T.any (fun t => (inPs l t).isSome) then ceTraceOut l c T
    else match T with
      | [a, b] => envOrder (envCombine l (if i.isFock a then a else b) (if i.isFock a then b else a)) [a, b]
      | _ => l

/-- `resize`: inside a product space the Fock is first moved to the front; inside a combined
envelope a request that does not grow the space reads the reduced state of the Fock first
(`Envelope.trace_out`), which moves it to the front -/
def actResize (l : Layout) (f : Nat) (shrink : Bool) : Layout :=
  match inPs l f with
  | some c => reorder l c [f]
  | none => if shrink then envOrder l [f] else l

/-- routing part of `CompositeEnvelope.measure_POVM` (before any retirement) -/
def cePovm (l : Layout) (c : Nat) (T : List Nat) : Layout :=
  let m := psMeeting l c T
  let l1 := if m.length > 1 then combine l c (withMembers l c T) else if m.length = 0 then combine l c T else l
  reorder l1 c T

/-- merging containers: the product spaces of the merged containers follow those of the kept one -/
def mergeContainers (l : Layout) (keep : Nat) (others : List Nat) : Layout :=
  let moved := l.filter (fun b => match b.kind with | .ps c => c ∈ others && c != keep | _ => false)
  let rest := l.filter (fun b => match b.kind with | .ps c => !(c ∈ others && c != keep) | _ => true)
  rest ++ moved.map (fun b => { b with kind := .ps keep })

end PW.Routing
