import PW.Tensor
/-!
# The operator library (model of `photon_weave/_math/ops.py` and of the `compute_operator`
dispatch of the four operation enums), Mathlib-free.

Matrices are tensors with two axes, `M [r, c]`.  Everything that is algebraic is polymorphic in
the scalar type and takes the non-rational ingredients as explicit parameters (`i` with
`i² = -1`, `c s` with `c² + s² = 1`, `sq n` with `sq n ² = n`, unit-modulus phases), so that the
theorems of `PW/Props/C12.lean` are about exactly the definitions the driver evaluates on `CF`.
-/
namespace PW.Ops

section poly
variable {R : Type} [Add R] [Mul R] [Zero R] [One R] [Neg R]

/-- 2×2 matrix from its entries -/
def mat2 (a b c d : R) : Tensor R
  | [0, 0] => a | [0, 1] => b | [1, 0] => c | [1, 1] => d | _ => 0

def ident (d : Nat) : Tensor R
  | [r, c] => if r = c ∧ r < d then 1 else 0
  | _ => 0

def pauliX : Tensor R := mat2 0 1 1 0
def pauliY (i : R) : Tensor R := mat2 0 (-i) i 0
def pauliZ : Tensor R := mat2 1 0 0 (-1)
/-- `h` stands for `1/√2` -/
def hadamard (h : R) : Tensor R := mat2 h h h (-h)
def sGate (i : R) : Tensor R := mat2 1 0 0 i
/-- `w` stands for `e^{iπ/4}` -/
def tGate (w : R) : Tensor R := mat2 1 0 0 w
/-- `half` stands for `1/2` -/
def sxGate (i half : R) : Tensor R :=
  mat2 (half * (1 + i)) (half * (1 + -i)) (half * (1 + -i)) (half * (1 + i))
/-- `c = cos(θ/2)`, `s = sin(θ/2)` -/
def rx (i c s : R) : Tensor R := mat2 c (-(i * s)) (-(i * s)) c
def ry (c s : R) : Tensor R := mat2 c (-s) s c
/-- `em = e^{-iθ/2}`, `ep = e^{iθ/2}` -/
def rz (em ep : R) : Tensor R := mat2 em 0 0 ep
/-- `c = cos(θ/2)`, `s = sin(θ/2)`, `eo = e^{iω}`, `ephi = e^{iφ}` -/
def u3 (c s eo ephi : R) : Tensor R := mat2 c (-(eo * s)) (ephi * s) (ephi * eo * c)

/-- permutation-with-sign matrices: entry `sign r` at `(r, perm r)` -/
def permMat (d : Nat) (perm : Nat → Nat) (sign : Nat → R) : Tensor R
  | [r, c] => if r < d ∧ c = perm r then sign r else 0
  | _ => 0

def cnot : Tensor R := permMat 4 (fun r => if r = 2 then 3 else if r = 3 then 2 else r) (fun _ => 1)
def cz : Tensor R := permMat 4 id (fun r => if r = 3 then -1 else 1)
def swap : Tensor R := permMat 4 (fun r => if r = 1 then 2 else if r = 2 then 1 else r) (fun _ => 1)
def cswap : Tensor R := permMat 8 (fun r => if r = 5 then 6 else if r = 6 then 5 else r) (fun _ => 1)

/-- annihilation operator at cutoff `d`: `a[n-1, n] = sq n` (`sq n = √n`) -/
def annihilation (sq : Nat → R) (d : Nat) : Tensor R
  | [r, c] => if c = r + 1 ∧ c < d then sq c else 0
  | _ => 0

/-- creation operator at cutoff `d`: `a†[n, n-1] = sq n` -/
def creation (sq : Nat → R) (d : Nat) : Tensor R
  | [r, c] => if r = c + 1 ∧ r < d then sq r else 0
  | _ => 0

/-- number operator `a† a` (diagonal `sq n * sq n`) -/
def number (sq : Nat → R) (d : Nat) : Tensor R
  | [r, c] => if r = c ∧ r < d then sq r * sq r else 0
  | _ => 0

/-- phase shifter: diagonal `ph n` (`ph n = e^{inθ}`) -/
def phase (ph : Nat → R) (d : Nat) : Tensor R
  | [r, c] => if r = c ∧ r < d then ph r else 0
  | _ => 0

/-- matrix product of two `d×d` matrices -/
def mmul (d : Nat) (A B : Tensor R) : Tensor R
  | [r, c] => ((List.range d).map fun k => A [r, k] * B [k, c]).sum
  | _ => 0

def madd (A B : Tensor R) : Tensor R := fun rc => A rc + B rc
def msmul (x : R) (A : Tensor R) : Tensor R := fun rc => x * A rc

/-- Kronecker product of a `da×da` and a `db×db` matrix -/
def mkron (db : Nat) (A B : Tensor R) : Tensor R
  | [r, c] => A [r / db, c / db] * B [r % db, c % db]
  | _ => 0

/-- conjugate transpose -/
def madj [Conj R] (A : Tensor R) : Tensor R
  | [r, c] => conj (A [c, r])
  | _ => 0

/-- generator of the beam splitter as in `CompositeOperationType.compute_operator`:
`kron(annihilation(d0), creation(d1)) + kron(creation(d0), annihilation(d1))` -/
def bsGenerator (sq : Nat → R) (d0 d1 : Nat) : Tensor R :=
  madd (mkron d1 (annihilation sq d0) (creation sq d1)) (mkron d1 (creation sq d0) (annihilation sq d1))

/-- generator of the displacement operator `α a† − ᾱ a` -/
def displaceGenerator (sq : Nat → R) (alpha alphaBar : R) (d : Nat) : Tensor R :=
  madd (msmul alpha (creation sq d)) (msmul (-alphaBar) (annihilation sq d))

/-- generator of the squeezing operator `½ (ζ̄ a² − ζ a†²)` -/
def squeezeGenerator (sq : Nat → R) (half zeta zetaBar : R) (d : Nat) : Tensor R :=
  msmul half (madd (msmul zetaBar (mmul d (annihilation sq d) (annihilation sq d)))
                   (msmul (-zeta) (mmul d (creation sq d) (creation sq d))))

end poly

/-! ### `CF` numerics: dense matrices and the matrix exponential (driver only) -/

structure Mat where
  n : Nat
  a : Array CF
deriving Inhabited

namespace Mat
def get (m : Mat) (r c : Nat) : CF := m.a.getD (r * m.n + c) 0
def ofFn (n : Nat) (f : Nat → Nat → CF) : Mat :=
  ⟨n, Array.ofFn (n := n * n) fun k => f (k.val / n) (k.val % n)⟩
def ofTensor (n : Nat) (t : Tensor CF) : Mat := ofFn n fun r c => t [r, c]
def toTensor (m : Mat) : Tensor CF
  | [r, c] => if r < m.n ∧ c < m.n then m.get r c else 0
  | _ => 0
def one (n : Nat) : Mat := ofFn n fun r c => if r = c then 1 else 0
def add (x y : Mat) : Mat := ofFn x.n fun r c => x.get r c + y.get r c
def smul (s : CF) (x : Mat) : Mat := ofFn x.n fun r c => s * x.get r c
def mul (x y : Mat) : Mat :=
  ofFn x.n fun r c => Id.run do
    let mut acc : CF := 0
    for k in [0:x.n] do
      acc := acc + x.get r k * y.get k c
    return acc
def normInf (x : Mat) : Float := Id.run do
  let mut best : Float := 0
  for r in [0:x.n] do
    let mut s : Float := 0
    for c in [0:x.n] do
      s := s + (x.get r c).abs
    if s > best then best := s
  return best

/-- scaling and squaring with a degree-18 Taylor polynomial -/
def expm (x : Mat) : Mat := Id.run do
  let nrm := x.normInf
  let mut s : Nat := 0
  let mut scale : Float := 1
  while nrm / scale > 0.5 do
    s := s + 1
    scale := scale * 2
  let y := smul (CF.ofReal (1 / scale)) x
  let mut term := one x.n
  let mut acc := one x.n
  for k in [1:19] do
    term := smul (CF.ofReal (1 / k.toFloat)) (mul term y)
    acc := add acc term
  for _ in [0:s] do
    acc := mul acc acc
  return acc
end Mat

def sqF (n : Nat) : CF := CF.ofReal (Float.sqrt n.toFloat)

end PW.Ops
