/-!
# `Operation` objects as descriptions (model of `operation/operation.py` and of the
`compute_dimensions` rules of the operation enums), Mathlib-free

An operation object carries its type and parameters, plus two cached fields (`_dimensions`,
`_operator`) that the library recomputes before every application (except `FockOperationType.Custom`,
which keeps its construction-time operator and dimension).  `dimsFor` is the dimension rule per
type as a function of the highest occupied levels `q` of the operands.
-/
namespace PW.OpModel

inductive OpType where
  | creation | annihilation | phaseShift | fockIdentity | fockCustom
  | polarization | customState
  | beamSplitter | cx | cz | swap | cswap | expression
deriving DecidableEq, Repr

structure Operation where
  type : OpType
  params : List (String × Int)      -- opaque parameter record
  cachedDims : List Nat              -- `_dimensions`
  cachedOp : Option Nat              -- `_operator` (identity of the cached matrix; opaque)
deriving DecidableEq, Repr

/-- dimension rule: `q` = highest occupied level per operand (0 for non-Fock operands),
`sizes` = current sizes of the operands (used by the custom-state rule) -/
def dimsFor (t : OpType) (q sizes : List Nat) (old : List Nat) : List Nat :=
  match t with
  | .creation => [q.headD 0 + 2]
  | .annihilation => [q.headD 0 + 2]
  | .phaseShift => [q.headD 0 + 1]
  | .fockIdentity => [q.headD 0 + 1]
  | .fockCustom => old
  | .polarization => [2]
  | .customState => [sizes.headD 0]
  | .beamSplitter => [q.sum + 1, q.sum + 1]
  | .cx => [2, 2] | .cz => [2, 2] | .swap => [2, 2] | .cswap => [2, 2, 2, 2]
  | .expression => q.map (· + 1)

/-- `Operation.compute_dimensions` -/
def computeDimensions (op : Operation) (q sizes : List Nat) : Operation :=
  { op with cachedDims := dimsFor op.type q sizes op.cachedDims }

/-- what an application reads: type, parameters and the freshly computed dimensions -/
def effective (op : Operation) (q sizes : List Nat) : OpType × List (String × Int) × List Nat :=
  let op' := computeDimensions op q sizes
  (op'.type, op'.params, op'.cachedDims)

end PW.OpModel
