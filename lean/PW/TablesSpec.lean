/-!
# Expected constant tables (hand-written; Mathlib-free)

`PW/Generated/Tables.lean` is rewritten from /repo's source on every run by `tools/gen_tables.py`.
The tables below are what the model and the theorems assume; `PW/Props/Tables.lean` proves by
`decide` that the regenerated tables equal them, so a changed einsum literal, gate entry or
`renormalize` flag in the source breaks a proof obligation.
-/
namespace PW.TablesSpec


/-- (file, function, einsum string relabelled by first appearance) for every hard-coded einsum literal -/
def expectedHardcoded : List (String × String × String) := [
  ("photon_weave/state/custom_state.py", "apply_operation", "ab,bc->ac"),
  ("photon_weave/state/custom_state.py", "apply_operation", "ab,bc,dc->ad"),
  ("photon_weave/state/envelope.py", "measure", "ab,cb->acb"),
  ("photon_weave/state/envelope.py", "measure", "ab,cb->acb"),
  ("photon_weave/state/envelope.py", "measure", "abcc->ab"),
  ("photon_weave/state/envelope.py", "measure", "aabc->bc"),
  ("photon_weave/state/envelope.py", "measure", "ab,cd->abcd"),
  ("photon_weave/state/envelope.py", "measure", "ab,cd->abcd"),
  ("photon_weave/state/envelope.py", "measure", "aabc->bc"),
  ("photon_weave/state/envelope.py", "measure", "abcc->ab"),
  ("photon_weave/state/envelope.py", "measure", "ab,cd->abcd"),
  ("photon_weave/state/envelope.py", "measure", "ab,cd->abcd"),
  ("photon_weave/state/envelope.py", "measure", "abc->ac"),
  ("photon_weave/state/envelope.py", "measure", "abc->bc"),
  ("photon_weave/state/envelope.py", "measure", "abc->ac"),
  ("photon_weave/state/envelope.py", "measure", "abc->bc"),
  ("photon_weave/state/envelope.py", "measure", "abcb->ac"),
  ("photon_weave/state/envelope.py", "measure", "abac->bc"),
  ("photon_weave/state/envelope.py", "measure", "abcb->ac"),
  ("photon_weave/state/envelope.py", "measure", "abac->bc"),
  ("photon_weave/state/envelope.py", "measure", "abcb->ac"),
  ("photon_weave/state/envelope.py", "measure", "abac->bc"),
  ("photon_weave/state/envelope.py", "measure", "abcb->ac"),
  ("photon_weave/state/envelope.py", "measure", "abac->bc"),
  ("photon_weave/state/envelope.py", "measure_POVM", "abcd,bedf,gehf->agch"),
  ("photon_weave/state/envelope.py", "measure_POVM", "ab,bcde,fc->afde"),
  ("photon_weave/state/envelope.py", "measure_POVM", "abcc->ab"),
  ("photon_weave/state/envelope.py", "measure_POVM", "aabc->bc"),
  ("photon_weave/state/envelope.py", "apply_kraus", "ab,bc,dc->ad"),
  ("photon_weave/state/envelope.py", "apply_kraus", "ab,bcde,fc->afde"),
  ("photon_weave/state/envelope.py", "apply_operation", "ab,bcd->acd"),
  ("photon_weave/state/envelope.py", "apply_operation", "ab,bcde,fc->afde"),
  ("photon_weave/state/fock.py", "apply_operation", "ab,bc->ac"),
  ("photon_weave/state/fock.py", "apply_operation", "ab,bc,dc->ad"),
  ("photon_weave/state/polarization.py", "apply_operation", "ab,bc->ac"),
  ("photon_weave/state/polarization.py", "apply_operation", "ab,bc,dc->ad")
]

/-- the same literals as label lists: (file, function, input label lists, output labels) -/
def expectedPlans : List (String × String × List (List Nat) × List Nat) := [
  ("photon_weave/state/custom_state.py", "apply_operation", [[0, 1], [1, 2]], [0, 2]),
  ("photon_weave/state/custom_state.py", "apply_operation", [[0, 1], [1, 2], [3, 2]], [0, 3]),
  ("photon_weave/state/envelope.py", "measure", [[0, 1], [2, 1]], [0, 2, 1]),
  ("photon_weave/state/envelope.py", "measure", [[0, 1], [2, 1]], [0, 2, 1]),
  ("photon_weave/state/envelope.py", "measure", [[0, 1, 2, 2]], [0, 1]),
  ("photon_weave/state/envelope.py", "measure", [[0, 0, 1, 2]], [1, 2]),
  ("photon_weave/state/envelope.py", "measure", [[0, 1], [2, 3]], [0, 1, 2, 3]),
  ("photon_weave/state/envelope.py", "measure", [[0, 1], [2, 3]], [0, 1, 2, 3]),
  ("photon_weave/state/envelope.py", "measure", [[0, 0, 1, 2]], [1, 2]),
  ("photon_weave/state/envelope.py", "measure", [[0, 1, 2, 2]], [0, 1]),
  ("photon_weave/state/envelope.py", "measure", [[0, 1], [2, 3]], [0, 1, 2, 3]),
  ("photon_weave/state/envelope.py", "measure", [[0, 1], [2, 3]], [0, 1, 2, 3]),
  ("photon_weave/state/envelope.py", "measure", [[0, 1, 2]], [0, 2]),
  ("photon_weave/state/envelope.py", "measure", [[0, 1, 2]], [1, 2]),
  ("photon_weave/state/envelope.py", "measure", [[0, 1, 2]], [0, 2]),
  ("photon_weave/state/envelope.py", "measure", [[0, 1, 2]], [1, 2]),
  ("photon_weave/state/envelope.py", "measure", [[0, 1, 2, 1]], [0, 2]),
  ("photon_weave/state/envelope.py", "measure", [[0, 1, 0, 2]], [1, 2]),
  ("photon_weave/state/envelope.py", "measure", [[0, 1, 2, 1]], [0, 2]),
  ("photon_weave/state/envelope.py", "measure", [[0, 1, 0, 2]], [1, 2]),
  ("photon_weave/state/envelope.py", "measure", [[0, 1, 2, 1]], [0, 2]),
  ("photon_weave/state/envelope.py", "measure", [[0, 1, 0, 2]], [1, 2]),
  ("photon_weave/state/envelope.py", "measure", [[0, 1, 2, 1]], [0, 2]),
  ("photon_weave/state/envelope.py", "measure", [[0, 1, 0, 2]], [1, 2]),
  ("photon_weave/state/envelope.py", "measure_POVM", [[0, 1, 2, 3], [1, 4, 3, 5], [6, 4, 7, 5]], [0, 6, 2, 7]),
  ("photon_weave/state/envelope.py", "measure_POVM", [[0, 1], [1, 2, 3, 4], [5, 2]], [0, 5, 3, 4]),
  ("photon_weave/state/envelope.py", "measure_POVM", [[0, 1, 2, 2]], [0, 1]),
  ("photon_weave/state/envelope.py", "measure_POVM", [[0, 0, 1, 2]], [1, 2]),
  ("photon_weave/state/envelope.py", "apply_kraus", [[0, 1], [1, 2], [3, 2]], [0, 3]),
  ("photon_weave/state/envelope.py", "apply_kraus", [[0, 1], [1, 2, 3, 4], [5, 2]], [0, 5, 3, 4]),
  ("photon_weave/state/envelope.py", "apply_operation", [[0, 1], [1, 2, 3]], [0, 2, 3]),
  ("photon_weave/state/envelope.py", "apply_operation", [[0, 1], [1, 2, 3, 4], [5, 2]], [0, 5, 3, 4]),
  ("photon_weave/state/fock.py", "apply_operation", [[0, 1], [1, 2]], [0, 2]),
  ("photon_weave/state/fock.py", "apply_operation", [[0, 1], [1, 2], [3, 2]], [0, 3]),
  ("photon_weave/state/polarization.py", "apply_operation", [[0, 1], [1, 2]], [0, 2]),
  ("photon_weave/state/polarization.py", "apply_operation", [[0, 1], [1, 2], [3, 2]], [0, 3])
]

/-- parameter-free gate matrices as tables of symbolic atoms -/
def expectedGates : List (String × List (List String)) := [
  ("identity_operator", [["one", "zero"], ["zero", "one"]]),
  ("hadamard_operator", [["h", "h"], ["h", "negH"]]),
  ("x_operator", [["zero", "one"], ["one", "zero"]]),
  ("y_operator", [["zero", "negI"], ["i", "zero"]]),
  ("z_operator", [["one", "zero"], ["zero", "negOne"]]),
  ("s_operator", [["one", "zero"], ["zero", "i"]]),
  ("t_operator", [["one", "zero"], ["zero", "w"]]),
  ("sx_operator", [["halfOnePlusI", "halfOneMinusI"], ["halfOneMinusI", "halfOnePlusI"]]),
  ("controlled_not_operator", [["one", "zero", "zero", "zero"], ["zero", "one", "zero", "zero"], ["zero", "zero", "zero", "one"], ["zero", "zero", "one", "zero"]]),
  ("controlled_z_operator", [["one", "zero", "zero", "zero"], ["zero", "one", "zero", "zero"], ["zero", "zero", "one", "zero"], ["zero", "zero", "zero", "negOne"]]),
  ("swap_operator", [["one", "zero", "zero", "zero"], ["zero", "zero", "one", "zero"], ["zero", "one", "zero", "zero"], ["zero", "zero", "zero", "one"]]),
  ("controlled_swap_operator", [["one", "zero", "zero", "zero", "zero", "zero", "zero", "zero"], ["zero", "one", "zero", "zero", "zero", "zero", "zero", "zero"], ["zero", "zero", "one", "zero", "zero", "zero", "zero", "zero"], ["zero", "zero", "zero", "one", "zero", "zero", "zero", "zero"], ["zero", "zero", "zero", "zero", "one", "zero", "zero", "zero"], ["zero", "zero", "zero", "zero", "zero", "zero", "one", "zero"], ["zero", "zero", "zero", "zero", "zero", "one", "zero", "zero"], ["zero", "zero", "zero", "zero", "zero", "zero", "zero", "one"]])
]

/-- (enum, member, renormalize, required parameters, expected operand kinds, required level) -/
def expectedOps : List (String × String × Bool × List String × List String × Nat) := [
  ("FockOperationType", "Creation", true, [], [], 1),
  ("FockOperationType", "Annihilation", true, [], [], 1),
  ("FockOperationType", "PhaseShift", false, ["phi"], [], 1),
  ("FockOperationType", "Squeeze", true, ["zeta"], [], 1),
  ("FockOperationType", "Displace", false, ["alpha"], [], 1),
  ("FockOperationType", "Identity", false, [], [], 1),
  ("FockOperationType", "Custom", false, ["operator"], [], 1),
  ("FockOperationType", "Expresion", false, ["expr", "context"], [], 1),
  ("PolarizationOperationType", "I", true, [], [], 1),
  ("PolarizationOperationType", "X", true, [], [], 1),
  ("PolarizationOperationType", "Y", true, [], [], 1),
  ("PolarizationOperationType", "Z", true, [], [], 1),
  ("PolarizationOperationType", "H", true, [], [], 1),
  ("PolarizationOperationType", "S", true, [], [], 1),
  ("PolarizationOperationType", "T", true, [], [], 1),
  ("PolarizationOperationType", "SX", true, [], [], 1),
  ("PolarizationOperationType", "RX", true, ["theta"], [], 1),
  ("PolarizationOperationType", "RY", true, ["theta"], [], 1),
  ("PolarizationOperationType", "RZ", true, ["theta"], [], 1),
  ("PolarizationOperationType", "U3", true, ["phi", "theta", "omega"], [], 1),
  ("PolarizationOperationType", "Custom", true, ["operator"], [], 1),
  ("CustomStateOperationType", "Expresion", true, ["expr", "context"], [], 1),
  ("CustomStateOperationType", "Custom", true, ["operator"], [], 1),
  ("CompositeOperationType", "NonPolarizingBeamSplitter", true, ["eta"], ["Fock", "Fock"], 1),
  ("CompositeOperationType", "CXPolarization", true, [], ["Polarization", "Polarization"], 1),
  ("CompositeOperationType", "SwapPolarization", true, [], ["Polarization", "Polarization"], 1),
  ("CompositeOperationType", "CSwapPolarization", true, [], ["Polarization", "Polarization", "Polarization"], 1),
  ("CompositeOperationType", "CZPolarization", true, [], ["Polarization", "Polarization"], 1),
  ("CompositeOperationType", "Expression", true, ["expr", "state_types", "context"], [], 1)
]

/-- decision logic of every `contract` method: (file, class, default tol, purity tests, argmax arguments) -/
def expectedContractSites : List (String × String × String × List String × List String) := [
  ("photon_weave/state/base_state.py", "BaseState", "1e-06", ["abs(x - 1) < tol"], ["jnp.abs(eigenvalues - 1) < tol"]),
  ("photon_weave/state/composite_envelope.py", "ProductState", "1e-06", ["abs(x - 1) >= tol"], ["jnp.abs(eigenvalues - 1) < tol"]),
  ("photon_weave/state/composite_envelope.py", "CompositeEnvelope", "none", [], []),
  ("photon_weave/state/custom_state.py", "CustomState", "1e-06", ["abs(x - 1) < tol"], ["jnp.abs(eigenvalues - 1) < tol"]),
  ("photon_weave/state/envelope.py", "Envelope", "1e-06", ["abs(x - 1) < tol"], ["jnp.abs(eigenvalues - 1) < tol"]),
  ("photon_weave/state/fock.py", "Fock", "1e-06", ["abs(x - 1) < tol"], ["jnp.abs(eigenvalues - 1) < tol"]),
  ("photon_weave/state/polarization.py", "Polarization", "1e-06", ["abs(x - 1) < tol"], ["jnp.abs(eigenvalues - 1) < tol", "jnp.allclose(self.state, jnp.array([[1], [0]]))", "jnp.allclose(self.state, jnp.array([[0], [1]]))", "jnp.allclose(self.state, jnp.array([[1 / jnp.sqrt(2)], [1j / jnp.sqrt(2)]]))", "jnp.allclose(self.state, jnp.array([[1 / jnp.sqrt(2)], [-1j / jnp.sqrt(2)]]))"])
]

/-- normalised source of `kraus_identity_check` -/
def expectedKrausCheckSource : List String := ["tol=1e-06", "dim = operators[0].shape[0]", "identity_matrix = jnp.eye(dim)", "sum_kraus = sum((jnp.matmul(jnp.conjugate(K.T), K) for K in operators))", "return jnp.allclose(sum_kraus, identity_matrix, atol=tol).item()"]

/-- request validation: every `raise` directly under an `if` (file, class.function, test, exception) -/
def expectedGuards : List (String × String × String × String) := [
  ("photon_weave/state/base_state.py", "BaseState.apply_kraus", "not kraus_identity_check(operators)", "ValueError"),
  ("photon_weave/state/base_state.py", "BaseState.apply_kraus", "not op.shape == (self.dimensions, self.dimensions)", "ValueError"),
  ("photon_weave/state/composite_envelope.py", "ProductState.apply_operation", "not jnp.any(jnp.abs(ps) > 1e-12)", "ValueError"),
  ("photon_weave/state/composite_envelope.py", "ProductState.apply_operation", "not jnp.any(jnp.abs(ps) > 1e-12)", "ValueError"),
  ("photon_weave/state/composite_envelope.py", "CompositeEnvelope._check_members", "not any((s is m for m in members))", "ValueError"),
  ("photon_weave/state/composite_envelope.py", "CompositeEnvelope.measure", "any((getattr(s, 'measured', False) for s in states))", "ValueError"),
  ("photon_weave/state/composite_envelope.py", "CompositeEnvelope.measure_POVM", "op.shape != (dim, dim)", "ValueError"),
  ("photon_weave/state/composite_envelope.py", "CompositeEnvelope.apply_kraus", "len(states) != len(list(set(states)))", "ValueError"),
  ("photon_weave/state/composite_envelope.py", "CompositeEnvelope.apply_kraus", "op.shape != (dim, dim)", "ValueError"),
  ("photon_weave/state/composite_envelope.py", "CompositeEnvelope.apply_kraus", "not kraus_identity_check(operators)", "ValueError"),
  ("photon_weave/state/composite_envelope.py", "CompositeEnvelope.resize_fock", "not isinstance(fock, Fock)", "ValueError"),
  ("photon_weave/state/composite_envelope.py", "CompositeEnvelope.resize_fock", "fock not in self.state_objs", "ValueError"),
  ("photon_weave/state/composite_envelope.py", "CompositeEnvelope.resize_fock", "len(ps) != 1", "ValueError"),
  ("photon_weave/state/custom_state.py", "CustomState.dimensions", "self._dimensions_set", "ValueError"),
  ("photon_weave/state/custom_state.py", "CustomState.apply_kraus", "not kraus_identity_check(operators)", "ValueError"),
  ("photon_weave/state/custom_state.py", "CustomState.apply_kraus", "op.shape != (self.dimensions, self.dimensions)", "ValueError"),
  ("photon_weave/state/custom_state.py", "CustomState.apply_operation", "not jnp.any(jnp.abs(new_state) > 1e-12)", "ValueError"),
  ("photon_weave/state/custom_state.py", "CustomState.apply_operation", "not jnp.any(jnp.abs(new_state) > 1e-12)", "ValueError"),
  ("photon_weave/state/envelope.py", "Envelope.combine", "s.measured", "ValueError"),
  ("photon_weave/state/envelope.py", "Envelope.measure", "self.measured", "ValueError"),
  ("photon_weave/state/envelope.py", "Envelope.measure", "any((s.measured for s in states if s is not None))", "ValueError"),
  ("photon_weave/state/envelope.py", "Envelope.measure", "s is not self.polarization and s is not self.fock", "ValueError"),
  ("photon_weave/state/envelope.py", "Envelope.measure_POVM", "self.measured", "ValueError"),
  ("photon_weave/state/envelope.py", "Envelope.measure_POVM", "isinstance(states[0], Fock) and isinstance(states[1], Fock) or (isinstance(states[0], Polarization) and isinstance(states[1], Polarization))", "ValueError"),
  ("photon_weave/state/envelope.py", "Envelope.measure_POVM", "len(states) > 2", "ValueError"),
  ("photon_weave/state/envelope.py", "Envelope.measure_POVM", "s is not self.polarization and s is not self.fock", "ValueError"),
  ("photon_weave/state/envelope.py", "Envelope.apply_kraus", "not kraus_identity_check(operators)", "ValueError"),
  ("photon_weave/state/envelope.py", "Envelope.apply_kraus", "isinstance(states[0], Fock) and isinstance(states[1], Fock) or (isinstance(states[0], Polarization) and isinstance(states[1], Polarization))", "ValueError"),
  ("photon_weave/state/envelope.py", "Envelope.apply_kraus", "len(states) > 2", "ValueError"),
  ("photon_weave/state/envelope.py", "Envelope.apply_kraus", "s is not self.polarization and s is not self.fock", "ValueError"),
  ("photon_weave/state/envelope.py", "Envelope.apply_kraus", "op.shape != (dim, dim)", "ValueError"),
  ("photon_weave/state/envelope.py", "Envelope.reorder", "isinstance(states_list[0], Fock) and isinstance(states_list[1], Fock) or (isinstance(states_list[0], Polarization) and isinstance(states_list[1], Polarization))", "ValueError"),
  ("photon_weave/state/envelope.py", "Envelope.reorder", "len(states_list) > 2", "ValueError"),
  ("photon_weave/state/envelope.py", "Envelope.reorder", "s not in [self.polarization, self.fock]", "ValueError"),
  ("photon_weave/state/envelope.py", "Envelope.trace_out", "s is not self.polarization and s is not self.fock", "ValueError"),
  ("photon_weave/state/envelope.py", "Envelope.apply_operation", "s is not self.polarization and s is not self.fock", "ValueError"),
  ("photon_weave/state/envelope.py", "Envelope.apply_operation", "not isinstance(states[0], Fock)", "ValueError"),
  ("photon_weave/state/envelope.py", "Envelope.apply_operation", "not isinstance(states[0], Polarization)", "ValueError"),
  ("photon_weave/state/envelope.py", "Envelope.apply_operation", "not jnp.any(jnp.abs(ps) > 1e-12)", "ValueError"),
  ("photon_weave/state/envelope.py", "Envelope.apply_operation", "not jnp.any(jnp.abs(ps) > 1e-12)", "ValueError"),
  ("photon_weave/state/fock.py", "Fock.apply_operation", "not jnp.any(jnp.abs(new_state) > 1e-12)", "ValueError"),
  ("photon_weave/state/fock.py", "Fock.apply_operation", "not jnp.any(jnp.abs(new_state) > 1e-12)", "ValueError"),
  ("photon_weave/state/polarization.py", "Polarization.apply_operation", "not jnp.any(jnp.abs(new_state) > 1e-12)", "ValueError"),
  ("photon_weave/state/polarization.py", "Polarization.apply_operation", "not jnp.any(jnp.abs(new_state) > 1e-12)", "ValueError"),
  ("photon_weave/operation/operation.py", "Operation.__init__", "param not in kwargs", "KeyError"),
  ("photon_weave/operation/operation.py", "Operation.operator", "self._operation_type is not FockOperationType.Custom", "ValueError")
]

/-- shrink decisions: comparisons on `num_quanta` in the resize methods (file, class.function, comparison) -/
def expectedResizeGuards : List (String × String × String) := [
  ("photon_weave/state/composite_envelope.py", "ProductState.resize_fock", "num_quanta >= new_dimensions"),
  ("photon_weave/state/composite_envelope.py", "ProductState.resize_fock", "num_quanta >= new_dimensions"),
  ("photon_weave/state/envelope.py", "Envelope.resize_fock", "num_quanta >= new_dimensions"),
  ("photon_weave/state/envelope.py", "Envelope.resize_fock", "num_quanta >= new_dimensions"),
  ("photon_weave/state/fock.py", "Fock.resize", "num_quanta < new_dimensions"),
  ("photon_weave/state/fock.py", "Fock.resize", "num_quanta < new_dimensions")
]

/-- every shrink decision of the source is the model's: refuse iff the highest occupied level does not
fit (`num_quanta >= new_dimensions` refuses, `num_quanta < new_dimensions` allows) -/
def shrinkRuleOk (r : String × String × String) : Bool :=
  r.2.2 == "num_quanta >= new_dimensions" || r.2.2 == "num_quanta < new_dimensions"

/-- the membership test of an envelope is by identity (`is not`), in every method that takes operands -/
def envelopeMembershipGuarded (t : List (String × String × String × String)) : Bool :=
  ["Envelope.measure", "Envelope.measure_POVM", "Envelope.apply_kraus", "Envelope.trace_out", "Envelope.apply_operation"].all fun m =>
    t.any fun r => r.2.1 == m && r.2.2.1 == "s is not self.polarization and s is not self.fock" && r.2.2.2 == "ValueError"

/-- a site that contracts density matrices: one purity test, one eigenvalue pick, the same symbol
`tol` (default `1e-06`) in both -/
def siteConsistent (site : String × String × String × List String × List String) : Bool :=
  site.2.2.2.1 == [] && site.2.2.2.2 == [] ||
  (site.2.2.1 == "1e-06" &&
   (site.2.2.2.1 == ["abs(x - 1) < tol"] || site.2.2.2.1 == ["abs(x - 1) >= tol"]) &&
   site.2.2.2.2.head? == some "jnp.abs(eigenvalues - 1) < tol")

end PW.TablesSpec
