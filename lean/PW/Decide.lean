import PW.Tensor
import PW.Ops
/-!
# Decision logic of `contract` and of the Kraus completeness check (Mathlib-free model)

* `contractDecision`: every `contract` method (Fock, Polarization, CustomState, Envelope,
  ProductState) attempts the matrix → vector step iff the purity `Tr ρ²` passes the test `close`
  (`|x − 1| < tol`), and then keeps the eigenvector at `jnp.argmax(|λ − 1| < tol)`, i.e. at the
  first eigenvalue passing the *same* test — index 0 when none passes.
* `krausCheck`: `kraus_identity_check` accepts iff every entry of `Σ K†K` is close to the identity's
  entry (`jnp.allclose(·, I, atol = tol)`, numpy's default `rtol = 1e-5`), as complex numbers.
-/
namespace PW.Decide
open PW

/-- `jnp.argmax(mask)` for a boolean mask: the first `true`, or 0 when there is none -/
def argmaxMask (mask : List Bool) : Nat :=
  let i := mask.findIdx id
  if i < mask.length then i else 0

structure ContractDecision where
  attempt : Bool
  index : Nat
deriving Repr, DecidableEq

def contractDecision {α : Type} (close : α → Bool) (purity : α) (eigs : List α) : ContractDecision :=
  ⟨close purity, argmaxMask (eigs.map close)⟩

/-- the test of the library, on floats: `|x − 1| < tol` -/
def closeF (tol x : Float) : Bool := Float.abs (x - 1) < tol

section kraus
variable {R : Type} [Add R] [Mul R] [Zero R] [Conj R]

/-- `Σ K†K` for `d×d` operators -/
def krausSum (d : Nat) (ops : List (Tensor R)) : Tensor R := fun rc =>
  (ops.map fun K => Ops.mmul d (Ops.madj K) K rc).sum

def allEntries (d : Nat) (p : Nat → Nat → Bool) : Bool :=
  (List.range d).all fun r => (List.range d).all fun c => p r c

/-- accept iff every entry of `Σ K†K` passes `entryOk (is it a diagonal entry) value` -/
def krausCheck (entryOk : Bool → R → Bool) (d : Nat) (ops : List (Tensor R)) : Bool :=
  allEntries d fun r c => entryOk (r == c) (krausSum d ops [r, c])
end kraus

/-- numpy `allclose(s, e, atol, rtol = 1e-5)` for one entry, `e ∈ {0, 1}` -/
def allcloseF (atol : Float) (diag : Bool) (s : CF) : Bool :=
  let e : CF := if diag then 1 else 0
  decide (CF.abs (s - e) ≤ atol + 1e-5 * CF.abs e)

/-- the shrink decision of the three resize methods: allowed iff the highest occupied level fits -/
def shrinkAllowed (highestOccupied newDim : Nat) : Bool := decide (highestOccupied < newDim)

/-! ## highest occupied level (`num_quanta_vector`, `num_quanta_matrix`) -/

/-- index of the last entry that passes `nz` ("is not zero"), if any -/
def lastNonzero {α : Type} (nz : α → Bool) (v : List α) : Option Nat :=
  ((List.range v.length).reverse).find? (fun i => match v[i]? with | some x => nz x | none => false)

/-- `num_quanta_vector`: the last index whose amplitude is not exactly zero -/
def numQuantaVector {α : Type} (nz : α → Bool) (v : List α) : Option Nat := lastNonzero nz v

/-- `num_quanta_matrix`: the larger of the last non-zero row and the last non-zero column -/
def numQuantaMatrix {α : Type} (nz : α → Bool) (m : List (List α)) : Option Nat :=
  let rows := m.map (fun r => r.any nz)
  let n := m.length
  let cols := (List.range n).map (fun c => m.any (fun r => match r[c]? with | some x => nz x | none => false))
  match lastNonzero id rows, lastNonzero id cols with
  | some a, some b => some (max a b)
  | _, _ => none

/-- "not exactly zero" for complex floats (what `!= 0` / `jnp.nonzero` test) -/
def nzCF (z : CF) : Bool := z.re != 0 || z.im != 0

end PW.Decide
