import PW.Scalar
import PW.Tensor
import PW.EinsumGen
