"""Client for the Lean model driver (lean/.lake/build/bin/pwdriver): JSON lines, floats as IEEE bits."""
import json, os, struct, subprocess
import numpy as np

VERIF = os.path.dirname(os.path.dirname(os.path.abspath(__file__)))
DRIVER = os.path.join(VERIF, "lean", ".lake", "build", "bin", "pwdriver")


def f2b(x: float) -> int:
    return struct.unpack("<Q", struct.pack("<d", float(x)))[0]


def b2f(n: int) -> float:
    return struct.unpack("<d", struct.pack("<Q", int(n)))[0]


def carr(a) -> dict:
    a = np.asarray(a, dtype=complex).reshape(-1)
    re = np.ascontiguousarray(a.real).view(np.uint64).tolist()
    im = np.ascontiguousarray(a.imag).view(np.uint64).tolist()
    return {"re": re, "im": im}


def uncarr(j) -> np.ndarray:
    re = np.array(j["re"], dtype=np.uint64).view(np.float64)
    im = np.array(j["im"], dtype=np.uint64).view(np.float64)
    return re + 1j * im


class LeanError(Exception):
    pass


class Lean:
    def __init__(self):
        if not os.path.exists(DRIVER):
            raise RuntimeError(f"model driver not built: {DRIVER}")
        self.p = subprocess.Popen([DRIVER], stdin=subprocess.PIPE, stdout=subprocess.PIPE, text=True, bufsize=1)
        self.n = 0

    def call(self, **req):
        self.p.stdin.write(json.dumps(req) + "\n")
        self.p.stdin.flush()
        line = self.p.stdout.readline()
        if not line:
            raise RuntimeError("model driver died")
        self.n += 1
        r = json.loads(line)
        if not r.get("ok"):
            raise LeanError(r.get("error", "?"))
        return r

    def close(self):
        try:
            self.p.stdin.close(); self.p.wait(timeout=5)
        except Exception:
            self.p.kill()
