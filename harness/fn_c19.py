"""C19: Envelope.overlap_integral against the closed form evaluated by the Lean driver
(PW.Overlap.overlapClosed; proved equal to the integral for equal widths in PW/Props/C19.lean)."""
import math, random, time, zlib
import numpy as np
import checklib as CL
from leanio import Lean, f2b, b2f


def run(prop, tier, seed):
    import warnings
    warnings.filterwarnings("ignore")
    from photon_weave.state.envelope import Envelope, TemporalProfile
    t0 = time.time()
    thorough = tier == "thorough"
    pr = CL.lean_build(prop, thorough)
    print(f"[{prop}] lean: {len(pr.theorems)} theorems audited, build {'ok' if pr.ok else 'BROKEN'}")
    for p in pr.problems:
        print(f"[{prop}] proof obligation problem: {p}")
    rng = random.Random(zlib.crc32(b"C19") + int(seed))
    L = Lean()
    viol, n, samples, buckets = [], 0, [], set()

    def case(s1, s2, mu1, mu2, d, shared=False, selfov=False):
        nonlocal n
        n += 1
        if shared or selfov:
            tp = TemporalProfile.Gaussian.with_params(mu=mu1, sigma=s1)
            e1 = Envelope(temporal_profile=tp)
            e2 = e1 if selfov else Envelope(temporal_profile=tp)
            s2, mu2 = s1, mu1
        else:
            e1 = Envelope(temporal_profile=TemporalProfile.Gaussian.with_params(mu=mu1, sigma=s1))
            e2 = Envelope(temporal_profile=TemporalProfile.Gaussian.with_params(mu=mu2, sigma=s2))
        desc = {"sigma1": float(s1), "sigma2": float(s2), "mu1": float(mu1), "mu2": float(mu2), "delay": float(d), "shared_profile": shared, "self": selfov,
                "types": [type(x).__name__ for x in (s1, s2, mu1, mu2, d)]}
        buckets.add((round(math.log10(float(s1))), s1 == s2, d == 0, mu1 != 0 or mu2 != 0, shared, selfov, isinstance(s1, (int, np.integer))))
        try:
            v = float(e1.overlap_integral(e2, d))
            w = float(e2.overlap_integral(e1, -d))
        except Exception as ex:
            viol.append((f"overlap_integral raised {type(ex).__name__}: {ex}", desc))
            return
        ref = b2f(L.call(op="overlap", sigma1=f2b(float(s1)), sigma2=f2b(float(s2)), mu1=f2b(float(mu1)), mu2=f2b(float(mu2)), delay=f2b(float(d)))["v"])
        if len(samples) < 3:
            samples.append({**desc, "impl": v, "model": ref})
        if not abs(v - ref) <= 1e-7:
            viol.append((f"overlap_integral = {v!r}, the normalised overlap integral is {ref!r} (sigma {s1:g}/{s2:g}, offsets {mu1:g}/{mu2:g}, delay {d:g})", desc))
        elif not abs(v - w) <= 1e-7:
            viol.append((f"overlap not symmetric under exchange with negated delay: {v!r} vs {w!r}", desc))
        elif not (-1e-9 <= v <= 1 + 1e-9):
            viol.append((f"overlap {v!r} outside [0, 1]", desc))

    sigmas = [10.0 ** k for k in range(-15, 1)]
    for s in sigmas:
        for dd in ([0, 0.3, 1, 2.5, 6, 20] if not thorough else [0, 0.1, 0.3, 1, 2, 2.5, 4, 6, 10, 20, 50]):
            case(s, s, 0.0, 0.0, dd * s)
        case(s, s, 0.0, 0.0, -1.7 * s)
        case(s, s, 0.0, 0.0, 0.8 * s, shared=True)
        case(s, s, 0.0, 0.0, 1.3 * s, selfov=True)
    for _ in range(400 if thorough else 60):
        s1 = 10 ** rng.uniform(-15, 0)
        s2 = s1 * rng.choice([1, 1, rng.uniform(0.3, 3)])
        mu1, mu2 = rng.choice([0, rng.uniform(-3, 3) * s1]), rng.choice([0, rng.uniform(-3, 3) * s2])
        d = rng.choice([0, rng.uniform(-8, 8) * max(s1, s2)])
        case(s1, s2, mu1, mu2, d, shared=rng.random() < 0.1 and s1 == s2 and mu1 == mu2)
    # far-away centres: large offsets whose difference the delay (partly) compensates, and large
    # uncompensated delays -- what decides the overlap is the distance of the centres, delay + mu2 - mu1
    for _ in range(300 if thorough else 50):
        s1 = 10 ** rng.uniform(-15, 0)
        s2 = s1 * rng.choice([1, 1, rng.uniform(0.5, 2)])
        w = max(s1, s2)
        mu1 = rng.choice([0.0, rng.uniform(-40, 40) * w])
        mu2 = rng.uniform(-40, 40) * w
        dist = rng.choice([0.0, rng.uniform(-3, 3) * w, rng.uniform(-15, 15) * w])
        d = (mu1 - mu2) + dist if rng.random() < 0.8 else rng.uniform(-60, 60) * w
        case(s1, s2, mu1, mu2, d)
    # integer-typed parameters (Python int, numpy integer): widths of whole seconds are inside the
    # stated range and must give the same value as the equal float
    for (s1, s2, mu1, mu2, d) in [(1, 1, 0, 0, 0), (2, 2, 0, 0, 0), (2, 2, 0, 0, 1), (2, 3.0, 0, 1, 0.25), (3, 2, 1, 0, 2), (np.int64(2), 2.0, 0, 0, 1),
                                  (1, 2, 0, 0, 0.5), (2, 2, 0, 3, -3), (np.int32(3), np.int32(3), 0, 0, 0), (1.0, 1, 0.5, 0, 1)]:
        case(s1, s2, mu1, mu2, d)
    case(42.45e-15, 42.45e-15, 0.0, 0.0, 0.0)
    L.close()
    cov = {"evaluations": n, "distinct_nontrivial": len(buckets),
           "rule": "grid sigma = 1e-15..1 s x delays 0..20 sigma (both signs, both argument orders) plus seeded random streams with unequal widths and centre offsets (small, and up to 40 sigma with compensating / non-compensating delays up to 60 sigma); shared and self profiles included; distinct = (decade of sigma, equal widths?, zero delay?, offsets?, shared?, self?)",
           "samples": samples, "unequal_width_closed_form": "tested only (the theorem covers equal widths)"}
    return CL.finish(prop, tier, seed, pr, viol, list(pr.problems), cov, t0,
                     ["scipy.integrate.quad is trusted to integrate a smooth integrand over the finite window to 1e-7",
                      "closed form for unequal widths is evaluated, not proved"])
