"""C12: the operator library equals the Lean model's operators (whose identities are the theorems
of PW/Props/C12.lean), for every constructor of _math/ops.py and every Operation(...).operator."""
import math, random, time, zlib
import numpy as np
import jax.numpy as jnp
import checklib as CL
from leanio import Lean, carr, uncarr, f2b, b2f


def lean_op(L, gate, dims, **params):
    r = L.call(op="operator", gate=gate, dims=list(dims), params={k: f2b(v) for k, v in params.items()})
    n = r["n"]
    return uncarr(r["m"]).reshape(n, n)


def cases(rng, thorough):
    import photon_weave._math.ops as O
    angles = [0.0, math.pi / 2, -math.pi / 2, math.pi, -math.pi, 2 * math.pi, 7.3, -9.1] + [rng.uniform(-4 * math.pi, 4 * math.pi) for _ in range(40 if thorough else 10)]
    out = []
    for name, g in [("identity_operator", "I"), ("hadamard_operator", "H"), ("x_operator", "X"), ("y_operator", "Y"), ("z_operator", "Z"),
                    ("s_operator", "S"), ("t_operator", "T"), ("sx_operator", "SX")]:
        out.append((name, (), g, [2], {}, 1e-12))
    for name, g, d in [("controlled_not_operator", "CX", [2, 2]), ("controlled_z_operator", "CZ", [2, 2]), ("swap_operator", "SWAP", [2, 2]),
                       ("controlled_swap_operator", "CSWAP", [2, 2, 2])]:
        out.append((name, (), g, d, {}, 1e-12))
    for th in angles:
        out.append(("rx_operator", (th,), "RX", [2], {"theta": th}, 1e-12))
        out.append(("ry_operator", (th,), "RY", [2], {"theta": th}, 1e-12))
        out.append(("rz_operator", (th,), "RZ", [2], {"theta": th}, 1e-12))
    for _ in range(40 if thorough else 12):
        a, b, c = (rng.uniform(-7, 7) for _ in range(3))
        out.append(("u3_operator", (a, b, c), "U3", [2], {"phi": a, "theta": b, "omega": c}, 1e-12))
    cut = range(1, 41) if thorough else range(1, 13)
    for d in cut:
        out.append(("annihilation_operator", (d,), "Annihilation", [d], {}, 1e-12))
        out.append(("creation_operator", (d,), "Creation", [d], {}, 1e-12))
        out.append(("number_operator", (d,), "Number", [d], {}, 1e-11))
        for th in angles[:4] + [rng.uniform(-7, 7)]:
            out.append(("phase_operator", (d, th), "PhaseShift", [d], {"phi": th}, 1e-11))
    for d in ([3, 6, 12, 20, 30] if thorough else [3, 6, 12]):
        for k in range(8):
            mag = rng.uniform(0.05, 1.5)
            ph = 2 * math.pi * k / 8 + rng.uniform(-0.1, 0.1)
            z = complex(mag * math.cos(ph), mag * math.sin(ph))
            out.append(("displacement_operator", (d, z), "Displace", [d], {"alpha_re": z.real, "alpha_im": z.imag}, 1e-8))
            out.append(("squeezing_operator", (d, z), "Squeeze", [d], {"zeta_re": z.real, "zeta_im": z.imag}, 1e-8))
    return out


def dispatch_cases(rng):
    """Operation(type, ...).operator at the dimension of the target"""
    from photon_weave.operation import Operation, FockOperationType as FO, PolarizationOperationType as PO, CompositeOperationType as CO
    out = []
    for nm, g in [("I", "I"), ("X", "X"), ("Y", "Y"), ("Z", "Z"), ("H", "H"), ("S", "S"), ("T", "T"), ("SX", "SX")]:
        out.append((("PO", nm, {}), g, [2], {}, None))
    th = rng.uniform(-7, 7)
    for nm in ["RX", "RY", "RZ"]:
        out.append((("PO", nm, {"theta": th}), nm, [2], {"theta": th}, None))
    out.append((("PO", "U3", {"phi": 0.3, "theta": th, "omega": -1.1}), "U3", [2], {"phi": 0.3, "theta": th, "omega": -1.1}, None))
    for q in range(0, 5):
        out.append((("FO", "Creation", {}), "Creation", [q + 2], {}, q))
        out.append((("FO", "Annihilation", {}), "Annihilation", [q + 2], {}, q))
        out.append((("FO", "PhaseShift", {"phi": th}), "PhaseShift", [q + 1], {"phi": th}, q))
        out.append((("FO", "Identity", {}), "FockIdentity", [q + 1], {}, q))
    for nm, g, d in [("CXPolarization", "CX", [2, 2]), ("CZPolarization", "CZ", [2, 2]), ("SwapPolarization", "SWAP", [2, 2]), ("CSwapPolarization", "CSWAP", [2, 2, 2])]:
        out.append((("CO", nm, {}), g, d, {}, None))
    for q0, q1 in [(0, 1), (1, 1), (2, 0), (2, 1)]:
        eta = rng.uniform(-3, 3)
        out.append((("CO", "NonPolarizingBeamSplitter", {"eta": eta}), "BS", [q0 + q1 + 1] * 2, {"eta": eta}, [q0, q1]))
    return out


def closed_forms(rng, thorough):
    """tested only: D(alpha)|0> is the Poissonian coherent state, S(zeta)|0> the even-number squeezed vacuum"""
    import photon_weave._math.ops as O
    bad, n = [], 0
    for k in range(16 if thorough else 6):
        mag = rng.uniform(0.1, 1.2); ph = rng.uniform(0, 2 * math.pi)
        z = complex(mag * math.cos(ph), mag * math.sin(ph))
        d = 45
        v = np.asarray(O.displacement_operator(d, z))[:, 0]
        ref = np.array([math.exp(-abs(z) ** 2 / 2) * z ** m / math.sqrt(math.factorial(m)) for m in range(20)])
        n += 1
        if np.abs(v[:20] - ref).max() > 1e-7:
            bad.append((f"displacement_operator({d}, {z})|0> differs from the coherent state by {np.abs(v[:20]-ref).max():.2e}", {"fn": "displacement_operator", "args": [d, [z.real, z.imag]]}))
        r = min(mag, 0.8); zz = complex(r * math.cos(ph), r * math.sin(ph))
        v = np.asarray(O.squeezing_operator(60, zz))[:, 0]
        ref = np.zeros(20, complex)
        for m in range(10):
            ref[2 * m] = (1 / math.sqrt(math.cosh(r))) * (-(np.exp(1j * ph)) * math.tanh(r)) ** m * math.sqrt(math.factorial(2 * m)) / (2 ** m * math.factorial(m))
        n += 1
        if np.abs(v[:20] - ref).max() > 1e-6:
            bad.append((f"squeezing_operator(60, {zz})|0> differs from the squeezed vacuum by {np.abs(v[:20]-ref).max():.2e}", {"fn": "squeezing_operator", "args": [60, [zz.real, zz.imag]]}))
    return n, bad


def run(prop, tier, seed):
    t0 = time.time()
    thorough = tier == "thorough"
    pr = CL.lean_build(prop, thorough)
    print(f"[{prop}] lean: {len(pr.theorems)} theorems audited, build {'ok' if pr.ok else 'BROKEN'}")
    for p in pr.problems:
        print(f"[{prop}] proof obligation problem: {p}")
    rng = random.Random(zlib.crc32(b"C12") + int(seed))
    import photon_weave._math.ops as O
    from photon_weave.operation import Operation, FockOperationType as FO, PolarizationOperationType as PO, CompositeOperationType as CO
    L = Lean()
    viol, n, kinds = [], 0, {}
    samples = []
    for name, args, gate, dims, params, tol in cases(rng, thorough):
        n += 1
        kinds[name] = kinds.get(name, 0) + 1
        try:
            m = np.asarray(getattr(O, name)(*args)).astype(complex)
            ref = lean_op(L, gate, dims, **params)
            err = np.abs(m - ref).max() if m.shape == ref.shape else float("inf")
        except Exception as ex:
            err, m = float("inf"), None
            viol.append((f"{name}{args} raised {type(ex).__name__}: {ex}", {"fn": name, "args": repr(args)}))
            continue
        if len(samples) < 3:
            samples.append({"fn": name, "args": repr(args), "max_abs_diff": float(err)})
        if not err <= tol:
            viol.append((f"{name}{args} differs from its definition (model {gate} at {dims}) by {err:.3e}", {"fn": name, "args": repr(args), "model": gate, "dims": dims}))
    enum = {"PO": PO, "FO": FO, "CO": CO}
    for (cls, nm, kw), gate, dims, params, q in dispatch_cases(rng):
        n += 1
        kinds["Operation:" + nm] = kinds.get("Operation:" + nm, 0) + 1
        try:
            op = Operation(getattr(enum[cls], nm), **kw)
            if cls == "FO":
                st = jnp.zeros((q + 1, 1)).at[q, 0].set(1.0)
                op.compute_dimensions(q, st)
            elif cls == "CO" and nm == "NonPolarizingBeamSplitter":
                op.compute_dimensions(q, [jnp.zeros((x + 1, 1)).at[x, 0].set(1.0) for x in q])
            elif cls == "CO":
                op.compute_dimensions([0] * len(dims), [jnp.array([0])] * len(dims))
            else:
                op.compute_dimensions(0, jnp.array([0]))
            m = np.asarray(op.operator).astype(complex)
            got_dims = list(op.dimensions)
            ref = lean_op(L, gate, dims, **params)
            if cls in ("FO",) and got_dims != dims:
                viol.append((f"Operation({nm}) on highest occupied level {q}: dimension {got_dims}, expected {dims}", {"op": nm, "q": q}))
                continue
            err = np.abs(m - ref).max() if m.shape == ref.shape else float("inf")
        except Exception as ex:
            viol.append((f"Operation({nm}, {kw}).operator raised {type(ex).__name__}: {ex}", {"op": nm, "kw": repr(kw)}))
            continue
        if not err <= 1e-8:
            viol.append((f"Operation({nm}, {kw}).operator differs from the library matrix {gate} at {dims} by {err:.3e}", {"op": nm, "kw": repr(kw), "dims": dims}))
    # the operator is a function of (type, parameters, requested dimensions) only: the same Operation object
    # asked at another dimension list -- in particular one with the same product -- must return what a
    # fresh object returns there (model: PW.Ops builds every operator from its dimension list)
    import photon_weave._math.ops as O

    def bs_expression(eta):
        ctx = {"a": lambda d: O.annihilation_operator(d[0]), "ad": lambda d: O.creation_operator(d[0]),
               "b": lambda d: O.annihilation_operator(d[1]), "bd": lambda d: O.creation_operator(d[1])}
        from photon_weave.state.fock import Fock
        return Operation(CO.Expression, expr=("expm", ("s_mult", 1j, eta, ("add", ("kron", "ad", "b"), ("kron", "a", "bd")))), state_types=(Fock, Fock), context=ctx)

    for mk, seqs in [(lambda: bs_expression(0.7), [([2, 3], [3, 2]), ([2, 6], [3, 4]), ([4, 1], [2, 2]), ([3, 3], [3, 3])]),
                     (lambda: Operation(FO.Displace, alpha=0.3 + 0.2j), [([4], [6]), ([6], [4])]),
                     (lambda: Operation(FO.PhaseShift, phi=0.9), [([3], [5]), ([5], [3])])]:
        for d1, d2 in seqs:
            n += 1
            kinds["Operation:reuse"] = kinds.get("Operation:reuse", 0) + 1
            try:
                op, fresh = mk(), mk()
                op.dimensions = list(d1)
                _ = np.asarray(op.operator)
                op.dimensions = list(d2)
                got = np.asarray(op.operator).astype(complex)
                fresh.dimensions = list(d2)
                want = np.asarray(fresh.operator).astype(complex)
                err = np.abs(got - want).max() if got.shape == want.shape else float("inf")
            except Exception as ex:
                viol.append((f"Operation.operator requested at {d2} after {d1} raised {type(ex).__name__}: {ex}", {"dims": [d1, d2]}))
                continue
            if not err <= 1e-12:
                viol.append((f"Operation.operator requested at dimensions {d2} after a request at {d1} differs from a fresh operation's operator at {d2} by {err:.3e}", {"dims": [d1, d2]}))
    ncf, bad = closed_forms(rng, thorough)
    viol += bad
    n += ncf
    L.close()
    cov = {"evaluations": n, "distinct_nontrivial": len(kinds), "rule": "one case per (constructor / Operation type, parameter value, cutoff); distinct = constructors and operation types exercised; parameter stream seeded from VERIF_SEED",
           "samples": samples, "per_constructor": kinds, "closed_form_cases_tested_only": ncf}
    return CL.finish(prop, tier, seed, pr, viol, list(pr.problems), cov, t0,
                     ["Float arithmetic on both sides; tolerance 1e-12 (tables), 1e-8 (matrix exponentials); Lean's expm is a degree-18 scaling-and-squaring Taylor series",
                      "Poissonian / squeezed-vacuum closed forms are tested on a parameter grid, not proved"])
