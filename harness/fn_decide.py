"""Function-level correspondence for the decision logic modelled in lean/PW/Decide.lean:
  * C08: every `contract` method (Fock, Polarization, CustomState, Envelope, ProductState) on crafted
    density matrices U diag(lambda) U^dagger with pure, nearly pure, mixed and degenerate spectra;
  * C17: `kraus_identity_check` on valid sets and on sets whose completeness defect is scaled,
    diagonal, real off-diagonal or imaginary off-diagonal, of magnitudes on both sides of the tolerance.
A disagreement with the model is a broken tie; the property is then evaluated on that input."""
import math, random, zlib
import numpy as np

from leanio import Lean, f2b, b2f, carr

TOL = 1e-6


def rand_unitary(rs, d):
    a = rs.randn(d, d) + 1j * rs.randn(d, d)
    q, r = np.linalg.qr(a)
    return q * (np.diag(r) / np.abs(np.diag(r)))


def spectrum(rng, d):
    """(kind, eigenvalues summing to 1)"""
    kind = rng.choice(["pure", "near", "near", "near", "near", "mixed", "degenerate", "basis"])
    if kind in ("pure", "basis"):
        lam = [0.0] * d
        lam[rng.randrange(d)] = 1.0
    elif kind == "near":
        eps = 10 ** rng.uniform(-9, -3.5)
        w = [rng.random() for _ in range(d - 1)]
        lam = [eps * x / sum(w) for x in w] + [1 - eps]
        rng.shuffle(lam)
    elif kind == "mixed":
        w = [rng.random() for _ in range(d)]
        lam = [x / sum(w) for x in w]
    else:
        k = rng.choice([2, d]) if d > 2 else 2
        lam = [1.0 / k] * k + [0.0] * (d - k)
        rng.shuffle(lam)
    return kind, lam


def make_rho(rng, rs, d, basis=False):
    kind, lam = spectrum(rng, d)
    u = np.eye(d, dtype=complex) if kind == "basis" else rand_unitary(rs, d)
    rho = (u * np.array(lam)) @ u.conj().T
    rho = (rho + rho.conj().T) / 2
    return kind, rho


SITES = ["Polarization", "Fock", "CustomState", "Envelope", "ProductState"]


def run_site(site, rho, d):
    """place rho in a fresh object of the given kind at density-matrix level, call contract();
    returns (level after, state after as numpy / label, dims)"""
    import jax.numpy as jnp
    from photon_weave.state.envelope import Envelope
    from photon_weave.state.fock import Fock
    from photon_weave.state.polarization import Polarization, PolarizationLabel
    from photon_weave.state.custom_state import CustomState
    from photon_weave.state.composite_envelope import CompositeEnvelope
    from photon_weave.state.expansion_levels import ExpansionLevel as EL
    R = jnp.array(rho)
    if site == "Polarization":
        s = Polarization(); s.state = R; s.expansion_level = EL.Matrix
        s.contract()
        return s.expansion_level, s.state
    if site == "Fock":
        s = Fock(); s.dimensions = d; s.state = R; s.expansion_level = EL.Matrix
        s.contract()
        return s.expansion_level, s.state
    if site == "CustomState":
        s = CustomState(d); s.state = R; s.expansion_level = EL.Matrix
        s.contract()
        return s.expansion_level, s.state
    if site == "Envelope":
        e = Envelope(); e.fock.dimensions = d // 2
        e.combine()
        e.expand() if e.expansion_level != EL.Matrix else None
        e.state = R; e.expansion_level = EL.Matrix
        e.fock.expansion_level = EL.Matrix; e.polarization.expansion_level = EL.Matrix
        e.contract()
        return e.expansion_level, e.state
    if site == "ProductState":
        d1 = 2 if d % 2 == 0 else 3
        c1, c2 = CustomState(d1), CustomState(d // d1)
        ce = CompositeEnvelope(c1, c2)
        ce.combine(c1, c2)
        ps = ce.product_states[0]
        ps.expand() if ps.expansion_level != EL.Matrix else None
        ps.state = R; ps.expansion_level = EL.Matrix
        c1.expansion_level = EL.Matrix; c2.expansion_level = EL.Matrix
        ps.contract()
        return ps.expansion_level, ps.state
    raise ValueError(site)


def as_vector(level, state, d):
    from photon_weave.state.polarization import PolarizationLabel
    from photon_weave.state.expansion_levels import ExpansionLevel as EL
    if level == EL.Matrix:
        return None
    if isinstance(state, PolarizationLabel):
        return {"H": np.array([1, 0], complex), "V": np.array([0, 1], complex), "R": np.array([1, 1j]) / math.sqrt(2), "L": np.array([1, -1j]) / math.sqrt(2)}[state.name]
    if isinstance(state, (int, np.integer)):
        v = np.zeros(d, complex); v[int(state)] = 1
        return v
    return np.asarray(state, dtype=complex).reshape(-1)


def contraction_cases(L, seed, n):
    import photon_weave._math.ops  # enables x64 as the library does
    from photon_weave.photon_weave import Config
    from photon_weave.state.expansion_levels import ExpansionLevel as EL
    Config().set_contraction(True)
    rng = random.Random(zlib.crc32(b"C08-decide") + int(seed))
    rs = np.random.RandomState(rng.randrange(2**31))
    viol, tie, hist, cases = [], [], {}, 0
    for k in range(n):
        site = SITES[k % len(SITES)]
        d = 2 if site == "Polarization" else rng.choice([4, 6]) if site in ("Envelope", "ProductState") else rng.choice([2, 3, 4, 5])
        kind, rho = make_rho(rng, rs, d)
        purity = float(np.real(np.trace(rho @ rho)))
        deficit = 1 - purity
        if 0.8e-6 < abs(deficit) < 1.25e-6:
            continue  # too close to the tolerance for a floating-point comparison to be stable
        ev, evec = np.linalg.eigh(rho)
        if np.any(np.abs(np.abs(ev - 1) - TOL) < 0.2e-6):
            continue
        r = L.call(op="contract_decide", tol=f2b(TOL), purity=f2b(purity), eigs=[f2b(float(x)) for x in ev])
        attempt, index = bool(r["attempt"]), int(r["index"])
        cases += 1
        hist[f"{site}/{kind}/{'contract' if attempt else 'keep'}"] = hist.get(f"{site}/{kind}/{'contract' if attempt else 'keep'}", 0) + 1
        payload = {"site": site, "kind": kind, "dimension": d, "eigenvalues": [float(x) for x in ev], "purity_deficit": deficit,
                   "rho_re": np.real(rho).tolist(), "rho_im": np.imag(rho).tolist(), "model": {"attempt": attempt, "index": index}}
        try:
            level, state = run_site(site, rho, d)
        except Exception as ex:
            viol.append((f"{site}.contract() raised {type(ex).__name__}: {str(ex)[:120]} on a {kind} density matrix (purity deficit {deficit:.2e})", payload))
            continue
        v = as_vector(level, state, d)
        if v is None:
            after = np.asarray(state, dtype=complex)
            changed = float(np.abs(after - rho).max())
            if attempt:
                tie.append(f"{site}.contract(): model contracts (purity deficit {deficit:.2e}) but the implementation kept the matrix")
            if changed > 1e-12:
                viol.append((f"{site}.contract() left the matrix level but changed the matrix by {changed:.2e} (purity deficit {deficit:.2e})", payload))
            continue
        phys = float(np.abs(np.outer(v, v.conj()) - rho).max())
        payload["implementation"] = {"level": int(level), "max_abs_change_of_rho": phys}
        if not attempt:
            tie.append(f"{site}.contract(): model keeps the matrix (purity deficit {deficit:.2e}) but the implementation contracted it")
            if phys > 3 * TOL:
                viol.append((f"{site}.contract() contracted a mixed state (purity deficit {deficit:.2e}, eigenvalues {np.round(ev, 8).tolist()}): the physical state changed by {phys:.2e}", payload))
            continue
        ov = abs(np.vdot(evec[:, index], v / np.linalg.norm(v)))
        if abs(ov - 1) > 1e-6:
            tie.append(f"{site}.contract(): the kept vector is not the eigenvector at the model's index {index} (overlap {ov:.6f})")
            if phys > 3 * TOL:
                viol.append((f"{site}.contract() kept the wrong eigenvector of a nearly pure state (purity deficit {deficit:.2e}, eigenvalues {np.round(ev, 8).tolist()}): the physical state changed by {phys:.2e}", payload))
        elif phys > 3 * TOL:
            viol.append((f"{site}.contract() changed the physical state by {phys:.2e} (purity deficit {deficit:.2e})", payload))
    # vector level: a vector is contracted to a label only if it *is* a basis vector; a nearly-basis
    # vector (second amplitude 1e-9 ... 1e-2, real or complex) must keep its amplitudes
    from photon_weave.state.fock import Fock
    from photon_weave.state.polarization import Polarization
    from photon_weave.state.custom_state import CustomState
    import jax.numpy as jnp
    for site in ("Fock", "Polarization", "CustomState"):
        for eps in (0.0, 1e-9, 1e-7, 1e-5, 1e-4, 1e-3, 1e-2):
            for ph in (1.0, 1j, -1.0):
                d = 2 if site == "Polarization" else 3
                lead = rng.randrange(d)
                v = np.zeros(d, complex)
                v[lead] = math.sqrt(1 - eps * eps)
                v[(lead + 1) % d] = eps * ph
                if site == "Fock":
                    s_ = Fock(); s_.dimensions = d
                elif site == "Polarization":
                    s_ = Polarization()
                else:
                    s_ = CustomState(d)
                s_.state = jnp.array(v.reshape(-1, 1)); s_.expansion_level = EL.Vector
                cases += 1
                key = f"{site}/vector/eps={eps:g}"
                hist[key] = hist.get(key, 0) + 1
                payload = {"site": site, "level": "vector", "vector_re": np.real(v).tolist(), "vector_im": np.imag(v).tolist()}
                try:
                    s_.contract()
                except Exception as ex:
                    viol.append((f"{site}.contract() raised {type(ex).__name__}: {str(ex)[:120]} on a nearly-basis vector (second amplitude {eps:g})", payload))
                    continue
                w_ = as_vector(s_.expansion_level, s_.state, d)
                if w_ is None:
                    viol.append((f"{site}.contract() turned a vector into a matrix", payload))
                    continue
                phys = float(np.abs(np.outer(w_, w_.conj()) - np.outer(v, v.conj())).max())
                if phys > 1e-7:
                    viol.append((f"{site}.contract() at vector level changed the physical state by {phys:.2e}: amplitudes {np.round(v, 9).tolist()} became {'the label ' + str(s_.state) if s_.expansion_level == EL.Label else np.round(w_, 9).tolist()}", payload))
    return {"cases": cases, "violations": viol, "tie": tie, "histogram": hist}


def kraus_cases(L, seed, n):
    import photon_weave._math.ops as O
    import jax.numpy as jnp
    rng = random.Random(zlib.crc32(b"C17-decide") + int(seed))
    rs = np.random.RandomState(rng.randrange(2**31))
    viol, tie, hist, cases = [], [], {}, 0
    for k in range(n):
        d = rng.choice([2, 2, 3, 4])
        nops = rng.choice([1, 2, 3])
        u = rand_unitary(rs, d * nops)
        ops = [u[j * d:(j + 1) * d, :d] for j in range(nops)]
        kind = rng.choice(["valid", "scaled", "diag", "offdiag_real", "offdiag_imag", "one_entry"])
        mag = 0.0
        if kind != "valid":
            mag = 10 ** rng.uniform(-9, -0.5)
            if kind == "scaled":
                B = np.eye(d) * mag
            elif kind == "diag":
                B = np.diag(rs.randn(d)); B = B * (mag / np.abs(B).max())
            elif kind == "offdiag_real":
                a = rs.randn(d, d); B = (a + a.T) - 2 * np.diag(np.diag(a)); B = B * (mag / np.abs(B).max())
            elif kind == "offdiag_imag":
                a = rs.randn(d, d); B = (a - a.T) * 1j; B = B * (mag / np.abs(B).max())
            else:
                B = np.zeros((d, d), complex); i, j = rng.randrange(d), rng.randrange(d)
                z = mag * np.exp(1j * rng.uniform(0, 2 * math.pi)) if i != j else mag
                B[i, j] += z; B[j, i] += np.conj(z)
                if i == j:
                    B[i, i] = mag
            ev, V = np.linalg.eigh(np.eye(d) + B)
            if ev.min() <= 0:
                continue
            T = (V * np.sqrt(ev)) @ V.conj().T
            ops = [K @ T for K in ops]  # sum K^dagger K = T (I) T = I + B
        S = sum(K.conj().T @ K for K in ops)
        D = S - np.eye(d)
        off = float(np.abs(D - np.diag(np.diag(D))).max()) if d > 1 else 0.0
        dia = float(np.abs(np.diag(D)).max())
        if 0.8e-6 < off < 1.25e-6 or 0.8 * 1.1e-5 < dia < 1.25 * 1.1e-5:
            continue
        model = bool(L.call(op="kraus_check", tol=f2b(TOL), d=d, ops=[carr(K) for K in ops])["accept"])
        impl = bool(O.kraus_identity_check([jnp.array(K) for K in ops]))
        cases += 1
        hist[f"{kind}/{'accept' if model else 'reject'}"] = hist.get(f"{kind}/{'accept' if model else 'reject'}", 0) + 1
        payload = {"kind": kind, "dimension": d, "defect_offdiag": off, "defect_diag": dia, "model_accepts": model, "implementation_accepts": impl,
                   "ops_re": [np.real(K).tolist() for K in ops], "ops_im": [np.imag(K).tolist() for K in ops]}
        if model != impl:
            tie.append(f"kraus_identity_check: model {'accepts' if model else 'rejects'}, implementation {'accepts' if impl else 'rejects'} a set with defect {max(off, dia):.2e} ({kind})")
            if impl and max(off, dia) > 3e-5:
                viol.append((f"kraus_identity_check accepts a Kraus set with sum K^dagger K - I of size {max(off, dia):.2e} ({kind} defect, dimension {d})", payload))
    return {"cases": cases, "violations": viol, "tie": tie, "histogram": hist}


def num_quanta_cases(L, seed, n):
    """`num_quanta_vector` / `num_quanta_matrix` against the model (last entry / row / column that is not
    exactly zero) on crafted arrays: leading / trailing zeros, tiny values, negative zero, purely imaginary
    entries, a single non-zero entry"""
    import photon_weave._math.ops as O
    import jax.numpy as jnp
    rng = random.Random(zlib.crc32(b"C10-decide") + int(seed))
    viol, tie, hist, cases = [], [], {}, 0
    specials = [0.0, -0.0, 1e-300, 1e-30, 1e-12, 1.0, -1.0, 1e-5j, 1j, 0.3 - 0.4j]
    for k in range(n):
        d = rng.choice([1, 2, 3, 5, 8])
        mat = k % 2 == 1
        size = d * d if mat else d
        vals = [rng.choice(specials) if rng.random() < 0.55 else 0.0 for _ in range(size)]
        if not any(v != 0 for v in vals):
            vals[rng.randrange(size)] = rng.choice([1.0, 1e-300, 1j])
        a = np.array(vals, dtype=complex).reshape((d, d) if mat else (d, 1))
        r = L.call(op="num_quanta", data=carr(a), n=d, matrix=mat)["q"]
        cases += 1
        kind = "matrix" if mat else "vector"
        hist[kind] = hist.get(kind, 0) + 1
        payload = {"kind": kind, "re": np.real(a).tolist(), "im": np.imag(a).tolist(), "model": r}
        try:
            got = int(O.num_quanta_matrix(jnp.array(a)) if mat else O.num_quanta_vector(jnp.array(a)))
        except Exception as ex:
            viol.append((f"num_quanta_{kind} raised {type(ex).__name__}: {str(ex)[:100]}", payload))
            continue
        if r is None or got != int(r):
            tie.append(f"num_quanta_{kind}: implementation {got}, model {r}")
            top = max(i for i in range(d) if np.any(a[i] != 0) or (mat and np.any(a[:, i] != 0)))
            if got != top:
                viol.append((f"num_quanta_{kind} returns {got} but the highest index holding a non-zero entry is {top}", payload))
    return {"cases": cases, "violations": viol, "tie": tie, "histogram": hist}


def run(prop, seed, thorough, lean=None):
    L = lean or Lean()
    try:
        if prop == "C08":
            return contraction_cases(L, seed, 1500 if thorough else 150)
        if prop == "C17":
            return kraus_cases(L, seed, 3000 if thorough else 300)
        if prop == "C10":
            return num_quanta_cases(L, seed, 3000 if thorough else 300)
    finally:
        if lean is None:
            L.close()
    return {"cases": 0, "violations": [], "tie": [], "histogram": {}}


if __name__ == "__main__":
    import sys, json
    r = run(sys.argv[1], int(sys.argv[2]) if len(sys.argv) > 2 else 0, False)
    print(json.dumps({k: (v if k != "violations" else [m for m, _ in v]) for k, v in r.items()}, indent=1)[:6000])
