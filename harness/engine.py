"""Program-level correspondence: run one program on the implementation (photon_weave, in
process) and on the Lean specification machine (pwdriver), step by step, and report where they
differ.  A *finding* is (property id, message); which findings count for which check is decided
by the caller (`check`)."""
import traceback
import numpy as np
import jax
import jax.numpy as jnp

from world import *  # noqa
from invariants import check_valid_states, check_bookkeeping
from leanio import Lean, LeanError, carr, uncarr, f2b, b2f
from photon_weave.operation import (
    Operation,
    FockOperationType as FO,
    PolarizationOperationType as PO,
    CompositeOperationType as CO,
    CustomStateOperationType as CSO,
)

TOL = 1e-7          # state comparison (entrywise, unit-trace data)
TOL_TRUNC = 5e-3    # displacement / squeezing: documented truncation threshold 1e-6 of the mass
PTOL = 1e-7         # probability vectors

POL_GATES = {"I": PO.I, "X": PO.X, "Y": PO.Y, "Z": PO.Z, "H": PO.H, "S": PO.S, "T": PO.T, "SX": PO.SX,
             "RX": PO.RX, "RY": PO.RY, "RZ": PO.RZ, "U3": PO.U3}
FOCK_GATES = {"Creation": FO.Creation, "Annihilation": FO.Annihilation, "PhaseShift": FO.PhaseShift,
              "Displace": FO.Displace, "Squeeze": FO.Squeeze, "FockIdentity": FO.Identity}
COMP_GATES = {"CX": CO.CXPolarization, "CZ": CO.CZPolarization, "SWAP": CO.SwapPolarization,
              "CSWAP": CO.CSwapPolarization, "BS": CO.NonPolarizingBeamSplitter}
# C01: "re-normalised to unit trace for the operation types that renormalise: ladder operators,
# squeezing and all polarization, custom-state and composite types"
RENORM = {"Creation": True, "Annihilation": True, "Squeeze": True, "PhaseShift": False, "Displace": False,
          "FockIdentity": False, "FockCustom": False}
INEXACT = {"Displace", "Squeeze"}


def mat_of(m):
    return np.array([[complex(x[0], x[1]) for x in row] for row in m], dtype=complex)


def mat_to_json(m):
    return [[[float(np.real(x)), float(np.imag(x))] for x in row] for row in np.asarray(m)]


def make_operation(step):
    g = step["gate"]
    p = step.get("params", {})
    if g in POL_GATES:
        return Operation(POL_GATES[g], **p)
    if g in FOCK_GATES:
        q = dict(p)
        if g == "Displace":
            q = {"alpha": complex(p["alpha_re"], p["alpha_im"])}
        if g == "Squeeze":
            q = {"zeta": complex(p["zeta_re"], p["zeta_im"])}
        return Operation(FOCK_GATES[g], **q)
    if g in COMP_GATES:
        return Operation(COMP_GATES[g], **p)
    if g == "PolCustom":
        return Operation(PO.Custom, operator=jnp.array(mat_of(step["U"])))
    if g == "CustomCustom":
        return Operation(CSO.Custom, operator=jnp.array(mat_of(step["U"])))
    if g == "FockCustom":
        return Operation(FO.Custom, operator=jnp.array(mat_of(step["U"])))
    if g == "ExprFock":
        # exp(i chi n_a (x) n_b^2) on two Fock spaces, written with context entries that depend on the
        # dimension list they are called with
        import photon_weave._math.ops as OPS
        from photon_weave.state.fock import Fock as _F
        chi = float(p["chi"])
        ctx = {"na": lambda dims: OPS.number_operator(dims[0]),
               "nb2": lambda dims: OPS.number_operator(dims[1]) @ OPS.number_operator(dims[1])}
        return Operation(CO.Expression, expr=("expm", ("s_mult", 1j, chi, ("kron", "na", "nb2"))), state_types=(_F, _F), context=ctx)
    if g == "Expr":
        # CompositeOperationType.Expression over fixed factor matrices (one per operand)
        facs = [jnp.array(mat_of(m)) for m in step["factors"]]
        names = [f"m{k}" for k in range(len(facs))]
        ctx = {n: (lambda dims, M=M: M) for n, M in zip(names, facs)}
        return Operation(CO.Expression, expr=expr_tree(step.get("form", "flat"), names), state_types=tuple(step["types"]), context=ctx)
    raise ValueError(g)


def expr_tree(form, names):
    """expression tuple over the factor names whose value is kron(m0, ..., mk-1) in every form"""
    k = len(names)
    if form == "right" and k >= 3:
        return ("kron", names[0], expr_tree("right", names[1:]))
    if form == "left" and k >= 3:
        return ("kron", expr_tree("left", names[:-1]), names[-1])
    if form == "mid" and k >= 3:
        return ("kron", names[0], ("kron", *names[1:-1]), names[-1]) if k > 3 else ("kron", names[0], ("kron", names[1], names[2]))
    return ("kron", *names)


def exprfock_matrix(step, dT):
    chi = float(step["params"]["chi"])
    d0, d1 = dT
    return np.diag([np.exp(1j * chi * m * n * n) for m in range(d0) for n in range(d1)])


def expr_matrix(step):
    U = np.array([[1.0 + 0j]])
    for m in step["factors"]:
        U = np.kron(U, mat_of(m))
    return U


def lean_params(step):
    return {k: f2b(v) for k, v in step.get("params", {}).items()}


def cfg_key():
    """the current PRNG key of the library's Config singleton, read without consuming it"""
    try:
        from photon_weave.photon_weave import Config
        k = Config()._key
        return np.asarray(jax.random.key_data(k) if hasattr(jax.random, "key_data") else k).tolist()
    except Exception:
        return None


class Finding:
    def __init__(self, prop, msg, step_index):
        self.prop, self.msg, self.step = prop, msg, step_index

    def __repr__(self):
        return f"[{self.prop} @step {self.step}] {self.msg}"


class Runner:
    def __init__(self, lean=None):
        self.lean = lean or Lean()
        self.own_lean = lean is None
        self.findings = []
        self.log = []
        self.stats = {}
        self.tol = TOL  # becomes TOL_TRUNC once a displacement / squeezing truncated the space
        self.route_mismatches = []
        self.diverged = False

    # ---- spec helpers -------------------------------------------------------------------
    def spec_get(self):
        r = self.lean.call(op="get")
        dims = r["dims"]
        D = int(np.prod(dims)) if dims else 1
        return r["ids"], dims, uncarr(r["rho"]).reshape(D, D), b2f(r["trace"]), b2f(r["purity"])

    def spec_dim(self, sid):
        r = self.lean.call(op="get")
        return r["dims"][r["ids"].index(sid)]

    def spec_dims(self):
        r = self.lean.call(op="get")
        return dict(zip(r["ids"], r["dims"]))

    def spec_grow(self, sid, dim):
        if self.spec_dims()[sid] < dim:
            self.lean.call(op="resize", id=sid, dim=int(dim))

    def spec_trim(self):
        """shrink spec Fock dimensions towards the implementation's where that loses nothing"""
        sd = self.spec_dims()
        for s in self.w.live():
            if not isinstance(s, Fock):
                continue
            sid = self.w.sid(s)
            d_impl = dims_of(s)
            if sid in sd and sd[sid] > d_impl:
                self.lean.call(op="save")
                lost = b2f(self.lean.call(op="resize", id=sid, dim=int(d_impl))["lost"])
                if abs(lost) > 1e-10:
                    # keep the smallest dimension that loses nothing (search upward)
                    self.lean.call(op="restore")
                    d = d_impl + 1
                    while d < sd[sid]:
                        self.lean.call(op="save")
                        lost = b2f(self.lean.call(op="resize", id=sid, dim=int(d))["lost"])
                        if abs(lost) <= 1e-10:
                            self.lean.call(op="drop")
                            break
                        self.lean.call(op="restore")
                        d += 1
                else:
                    self.lean.call(op="drop")

    # ---- set-up -------------------------------------------------------------------------
    def setup(self, prog):
        self.prog = prog
        C = Config()
        C.set_seed(int(prog.get("seed", 0)))
        C.set_contraction(bool(prog.get("contraction", True)))
        self.w = World()
        self.lean.call(op="reset")
        su = prog["setup"]
        for e in su["envs"]:
            self.w.new_env(e.get("fock", 0), e.get("pol", "H"), e.get("fdim"))
        for c in su.get("customs", []):
            self.w.new_custom(c["dim"], c.get("label", 0))
        for s in self.w.subs:
            sid = self.w.sid(s)
            if isinstance(s, Polarization):
                v = POLV[s.state.name]
            else:
                d = dims_of(s)
                v = np.zeros(d, complex)
                v[int(s.state)] = 1
            self.lean.call(op="add", id=sid, dim=len(v), vec=carr(v))
        for refs in su.get("composites", []):
            self.w.new_composite(refs)

    # ---- comparison ---------------------------------------------------------------------
    def compare_states(self, prop, i, tol=None, what="joint state"):
        tol = self.tol if tol is None else max(tol, self.tol)
        try:
            sids, dims, rho = joint(self.w)
        except Exception as ex:
            # the indices do not lead to the stored states: that is a bookkeeping (C13) failure
            self.findings.append(Finding("C13", f"cannot read the {what} from the object graph (public indices do not name the storage places): {type(ex).__name__}: {ex}", i))
            for m in check_bookkeeping(self.w):
                self.findings.append(Finding("C13", m, i))
            return False
        ids, sdims, srho, tr, pur = self.spec_get()
        if sids != ids:
            self.findings.append(Finding(prop, f"live subsystems differ: implementation {sids}, specification {ids}", i))
            return False
        err = compare(rho, dims, srho, sdims)
        self.last_err = err
        if not (err <= tol):
            self.findings.append(Finding(prop, f"{what} differs from (spec) by {err:.3e} (tolerance {tol:g}); dims impl {dims} spec {sdims}", i))
            return False
        return True

    def resync(self):
        """replace the spec state by the implementation's (after a truncating operation that was
        accepted within its documented tolerance)"""
        sids, dims, rho = joint(self.w)
        tr = np.trace(rho)
        self.lean.call(op="set", ids=sids, dims=dims, rho=carr(rho / tr))
        self.vtol = 1e-5

    def check_invariants(self, i):
        bk = check_bookkeeping(self.w)
        for m in bk:
            self.findings.append(Finding("C13", m, i))
        try:
            for m in check_valid_states(self.w, getattr(self, "vtol", 1e-7)):
                self.findings.append(Finding("C07", m, i))
        except Exception as ex:
            if not bk:
                self.findings.append(Finding("C13", f"stored states cannot be located through the public indices: {type(ex).__name__}: {ex}", i))

    def frame_check(self, i, before, touched_sids, prop="C20"):
        """blocks that contain none of the addressed subsystems must be unchanged"""
        after = snapshot_blocks(self.w)
        amap = {tuple(b["members"]): b for b in after}
        for b in before:
            if any(s in touched_sids for s in b["members"]):
                continue
            a = amap.get(tuple(b["members"]))
            if a is None:
                # same member set in another order?
                self.findings.append(Finding(prop, f"bystander block {b['members']} ({b['kind']}) no longer exists with the same members/order", i))
            elif a["level"] != b["level"] or a["data"] != b["data"] or a["dims"] != b["dims"] or a["kind"] != b["kind"]:
                self.findings.append(Finding(prop, f"bystander block {b['members']} ({b['kind']}) was modified (level {b['level']}->{a['level']}, kind {b['kind']}->{a['kind']}, dims {b['dims']}->{a['dims']}, data changed: {a['data'] != b['data']})", i))

    # ---- routing correspondence (partition model PW.Routing) ---------------------------------
    def containers(self):
        """distinct containers of the world's handles, numbered in order of first appearance"""
        out = []
        for h in self.w.handles:
            c = CompositeEnvelope._containers.get(h.uid)
            if c is not None and not any(c is x for x in out):
                out.append(c)
        return out

    def cont_index(self, handle_index):
        c = CompositeEnvelope._containers.get(self.w.handles[handle_index].uid)
        return ix(self.containers(), c)

    def layout_now(self):
        w = self.w
        out = []
        for ci, cont in enumerate(self.containers()):
            for ps in cont.states:
                out.append({"k": "ps", "c": ci, "m": [w.sid(x) for x in ps.state_objs]})
        for e in w.envs:
            if e.state is not None and not e.measured:
                order = [None, None]
                order[e.fock.index] = w.sid(e.fock)
                order[e.polarization.index] = w.sid(e.polarization)
                out.append({"k": "env", "m": order})
        for s in w.live():
            if s.index is None:
                out.append({"k": "own", "m": [w.sid(s)]})
        return out

    def subs_info(self):
        w = self.w
        out = []
        for s in w.subs:
            p = None
            if not isinstance(s, CustomState) and s.envelope is not None:
                o = s.envelope.polarization if s is s.envelope.fock else s.envelope.fock
                p = w.sid(o)
            out.append({"id": w.sid(s), "fock": isinstance(s, Fock), "custom": isinstance(s, CustomState), "partner": p})
        return out

    @staticmethod
    def canon_layout(lay):
        ps = {}
        for b in lay:
            if b["k"] == "ps":
                ps.setdefault(b["c"], []).append(tuple(b["m"]))
        return (sorted((c, tuple(v)) for c, v in ps.items() if v),
                sorted(tuple(b["m"]) for b in lay if b["k"] == "env"),
                sorted(tuple(b["m"]) for b in lay if b["k"] == "own"))

    def route_predict(self, lay, calls):
        for call in calls:
            lay = self.lean.call(op="route", layout=lay, subs=self._subs_info, call=call)["layout"]
        return lay

    def route_check(self, i, st, lay_before, calls):
        """compare the partition predicted by the routing model with the one found afterwards"""
        if calls is None:
            return
        try:
            pred = self.route_predict(lay_before, calls)
        except LeanError as ex:
            self.route_mismatches.append({"step": i, "error": str(ex)})
            return
        now = self.layout_now()
        self.stats["route_checked"] = self.stats.get("route_checked", 0) + 1
        if self.canon_layout(pred) != self.canon_layout(now):
            self.route_mismatches.append({"step": i, "kind": st["kind"], "what": st.get("what", st.get("gate")), "entry": st.get("entry"),
                                          "before": lay_before, "calls": calls, "model": self.canon_layout(pred), "impl": self.canon_layout(now)})

    def route_calls_for(self, st, lay_before):
        """the sequence of routing-model calls that mirrors a step (None: not modelled)"""
        w = self.w
        kind = st["kind"]
        T = st.get("targets", [])
        en = st.get("entry", "state")
        c = self.cont_index(st["h"]) if "h" in st and w.handles else 0

        def kind_of(t):
            for b in lay_before:
                if t in b["m"]:
                    return b
            return None

        def cont_of(t):
            b = kind_of(t)
            if b is not None and b["k"] == "ps":
                return b["c"]
            # the container that lists the subsystem
            for ci, cont in enumerate(self.containers()):
                if has(cont.state_objs, w.subs[t]):
                    return ci
            return 0

        if kind == "op":
            g = st["gate"]
            # subsystems that the implementation moves to the front of their product space on the way:
            # every operand whose reduced state is read (trace_out -> reorder) and every Fock that is resized
            if g in COMP_GATES or g in ("Expr", "ExprFock"):
                focks = list(T) + ([t for t in T if isinstance(w.subs[t], Fock)] if g == "ExprFock" else []) + ([t for t in T if isinstance(w.subs[t], Fock)] if g == "BS" else [])
            elif g in FOCK_GATES or g == "FockCustom":
                focks = [T[0], T[0]]
            elif g == "CustomCustom":
                focks = [T[0]]
            else:
                focks = []
            cc = c if en == "ce" else cont_of(T[0])
            return [{"what": "op", "c": cc, "T": T, "focks": focks}]
        if kind == "kraus":
            cc = c if en == "ce" else cont_of(T[0])
            return [{"what": "kraus", "c": cc, "entry": en, "T": T}]
        if kind == "trace_out":
            cc = c if en == "ce" else cont_of(T[0])
            return [{"what": "trace_out", "c": cc, "entry": en, "T": T}]
        if kind == "resize":
            # a request that does not grow the space reads the reduced state first (reorders a combined envelope)
            return [{"what": "resize", "T": T, "shrink": int(st["dim"]) <= dims_of(w.subs[T[0]])}]
        if kind == "measure":
            sep, des = bool(st.get("sep", False)), bool(st.get("destructive", True))
            M = list(T)
            if not sep:
                for t in T:
                    s = w.subs[t]
                    if not isinstance(s, CustomState):
                        for x in (w.sid(s.envelope.fock), w.sid(s.envelope.polarization)):
                            if x not in M:
                                M.append(x)
            surv = [t for t in M if (not des) or isinstance(w.subs[t], CustomState)]
            return [{"what": "measure", "M": M, "survivors": surv}]
        if kind == "povm":
            des = bool(st.get("destructive", True))
            t0 = w.subs[T[0]]

            def partner(t):
                s = w.subs[t]
                if isinstance(s, CustomState):
                    return None
                return w.sid(s.envelope.polarization if s is s.envelope.fock else s.envelope.fock)

            def ce_path(cc):
                calls = [{"what": "povm", "c": cc, "T": T}]
                D = [t for t in T if not isinstance(w.subs[t], CustomState)]
                if des and D:
                    M = list(D)
                    for t in D:
                        p = partner(t)
                        if p is not None and p not in M and not getattr(w.subs[p], "measured", False):
                            M.append(p)
                    calls.append({"what": "measure", "M": M, "survivors": []})
                return calls

            b0 = kind_of(T[0])
            in_comp = (not isinstance(t0, CustomState)) and t0.envelope.composite_envelope_id is not None
            if en == "ce":
                return ce_path(c)
            if len(T) == 1:
                if b0["k"] == "ps":
                    return ce_path(b0["c"])
                if b0["k"] == "env":
                    if in_comp:
                        return ce_path(cont_of(T[0]))
                    calls = [{"what": "env_order", "T": T}]
                    if des:
                        calls.append({"what": "measure", "M": [T[0], partner(T[0])], "survivors": [partner(T[0])]})
                    return calls
                # own state
                if en == "state":
                    return [{"what": "measure", "M": T, "survivors": []}] if des and not isinstance(t0, CustomState) else [{"what": "none"}]
                # via the envelope: the partner is measured as well
                p = partner(T[0])
                pl = p is not None and not getattr(w.subs[p], "measured", False)
                if des:
                    return [{"what": "measure", "M": T + ([p] if pl else []), "survivors": []}]
                return [{"what": "measure", "M": [p], "survivors": [p]}] if pl else [{"what": "none"}]
            return None
        if kind == "struct":
            what = st["what"]
            if what == "env_combine":
                e = w.envs[st["env"]]
                return [{"what": "env_combine", "T": [w.sid(e.fock), w.sid(e.polarization)]}]
            if what == "env_reorder":
                return [{"what": "env_order", "T": T}]
            if what == "ce_combine":
                return [{"what": "ce_combine", "c": c, "T": T}]
            if what == "ce_reorder":
                return [{"what": "ce_reorder", "c": c, "T": T}]
            if what in ("expand", "contract", "set_contraction"):
                return [{"what": "none"}]
            return None
        return None

    # ---- the steps ----------------------------------------------------------------------
    def entry_obj(self, step, targets):
        en = step.get("entry", "state")
        if en == "state":
            return targets[0]
        if en == "env":
            return targets[0].envelope
        return self.w.handles[step.get("h", 0)]

    def run(self, prog, stop_on=None):
        """run all steps; returns findings. `stop_on(finding)`: stop the program after the step in
        which a finding satisfying it occurred (default: any finding)."""
        self.setup(prog)
        self.check_invariants(-1)
        self.compare_states("C02", -1, what="initial joint state")
        if self.findings:
            return self.findings
        for i, st in enumerate(prog["steps"]):
            n0 = len(self.findings)
            if st["kind"] == "stop":
                break
            try:
                self.step(i, st)
            except LeanError as ex:
                self.findings.append(Finding("HARNESS", f"spec driver rejected the step: {ex}", i))
            if len(self.findings) > n0 or self.diverged:
                break
        return self.findings

    def step(self, i, st):
        kind = st["kind"]
        w = self.w
        before = snapshot_blocks(w)
        self.stats[kind] = self.stats.get(kind, 0) + 1
        lay_before = self.layout_now()
        self._subs_info = self.subs_info()
        try:
            calls = self.route_calls_for(st, lay_before)
        except Exception:
            calls = None
        n0 = len(self.findings)
        self._rejected = False
        self._key0 = cfg_key()
        self._dead0 = [bool(getattr(x, "measured", False)) for x in w.subs]
        twins = self.value_twins() if self.prog.get("focus") == "C18" else None
        getattr(self, "do_" + kind)(i, st, before)
        focus = self.prog.get("focus")
        if focus == "C05" and len(self.findings) > n0 and kind != "measure" and getattr(self, "_measured_before", False):
            # C05: after a measurement the other subsystems remain fully usable in every continuation
            for f in list(self.findings[n0:]):
                if f.prop not in ("C05", "HARNESS"):
                    self.findings.append(Finding("C05", f"continuation after a measurement: {f.msg}", i))
        if focus == "C05" and kind == "measure" and len(self.findings) > n0:
            for f in list(self.findings[n0:]):
                if f.prop in ("C13", "C07"):
                    self.findings.append(Finding("C05", f"after the measurement the survivors are not left in a usable state: {f.msg}", i))
        if kind == "measure":
            self._measured_before = True
        if focus == "C13" and kind == "struct" and len(self.findings) > n0:
            # C13: a structural (physics-neutral) call after which the stored tensors no longer match what the
            # indices say: the bookkeeping is not truthful even if every list position is consistent
            for f in list(self.findings[n0:]):
                if f.prop == "C02":
                    self.findings.append(Finding("C13", f"after {st.get('what')}: the indices no longer describe the stored tensor ({f.msg})", i))
        if twins and len(self.findings) > n0:
            # C18 programs: a call fails while two different subsystems hold equal values
            for f in list(self.findings[n0:]):
                if f.prop not in ("C18", "HARNESS"):
                    self.findings.append(Finding("C18", f"while subsystems {twins[0]} and {twins[1]} hold equal values: {f.msg}", i))
        if len(self.findings) == n0 and not self._rejected and not self.diverged:
            self.route_check(i, st, lay_before, calls)

    # single- and multi-subsystem operations ------------------------------------------------
    def do_op(self, i, st, before):
        w = self.w
        targets = [w.subs[s] for s in st["targets"]]
        gate = st["gate"]
        multi = len(targets) > 1 or gate in COMP_GATES or gate in ("Expr", "ExprFock")
        prop = "C03" if multi else "C01"
        if self.prog.get("focus") == "C11" and gate in ("BS", "PhaseShift"):
            prop = "C11"
        if self.prog.get("focus") == "C01" and gate == "ExprFock":
            prop = "C01"  # (O_T (x) I) rho (O_T (x) I)^dagger for an operator built from the operands' dimensions
        if any(getattr(t, "measured", False) for t in targets):
            return self.expect_reject(i, st, before, lambda: self.call_op(st, targets), "C05", "operation on a destroyed subsystem")
        dims_before = {w.sid(s): dims_of(s) for s in w.live()}
        err = None
        try:
            self.call_op(st, targets)
        except Exception as ex:
            err = ex
        # mirror on the spec: dimensions first
        sd = self.spec_dims()
        inexact = gate in INEXACT
        for t in targets:
            if isinstance(t, Fock):
                sid = w.sid(t)
                need = max(sd[sid], dims_of(t))
                if gate == "Creation":
                    need = max(need, self.spec_support(sid) + 2)
                elif gate in ("Annihilation", "PhaseShift", "FockIdentity", "ExprFock"):
                    need = max(need, self.spec_support(sid) + 1)
                elif gate == "BS":
                    need = max(need, sum(self.spec_support(w.sid(x)) for x in targets) + 1)
                elif inexact:
                    need = max(need, dims_of(t)) + 14
                self.spec_grow(sid, need)
        self.lean.call(op="save")
        req = dict(op="apply", targets=st["targets"], renorm=self.renorm_of(st))
        if "U" in st or gate in ("Expr", "ExprFock"):
            sd = self.spec_dims()
            dT = [sd[s] for s in st["targets"]]
            U = mat_of(st["U"]) if "U" in st else expr_matrix(st) if gate == "Expr" else exprfock_matrix(st, dT)
            if U.shape[0] != int(np.prod(dT)):
                # custom operator smaller/larger than the spec's (possibly larger) Fock space: embed
                U = embed_op(U, [self.impl_dim_for_custom(t, U) for t in targets], dT)
            req["U"] = carr(U)
        else:
            req["gate"] = gate
            req["params"] = lean_params(st)
        r = self.lean.call(**req)
        tr = b2f(r["trace"])
        zero = abs(tr) < 1e-14
        if err is not None:
            self.lean.call(op="restore")
            if zero and isinstance(err, ValueError):
                # legitimate rejection (e.g. annihilating the vacuum): nothing may have changed
                self.after_reject(i, st, before, "C17")
                return
            self.findings.append(Finding(prop, f"{gate} on {st['targets']} via {st.get('entry','state')} raised {type(err).__name__}: {str(err)[:160]} although the request is valid (spec trace {tr:.3e})", i))
            return
        self.lean.call(op="drop")
        if zero:
            self.findings.append(Finding("C17", f"{gate} on {st['targets']} yields the zero vector but was not rejected", i))
            return
        if inexact:
            # displacement / squeezing: equal to the ideal result only up to the documented
            # truncation threshold; judged here, then the spec is re-synchronised so that the
            # following steps are compared exactly again
            n0 = len(self.findings)
            self.compare_states("C10", i, TOL_TRUNC)
            if len(self.findings) > n0:
                err = getattr(self, "last_err", 1.0)
                if err > 0.15:
                    self.findings[-1].prop = "C10" if self.prog.get("focus") == "C10" else prop
                elif gate == "Squeeze":
                    del self.findings[n0:]
                    self.known("C10", f"Squeeze: the automatically chosen cutoff loses more than the documented threshold (error {err:.1e})", i)
            if len(self.findings) == n0:
                self.resync()
        else:
            self.compare_states(prop, i)
        self.spec_trim()
        self.check_invariants(i)
        touched = self.touched_blocks(before, st["targets"])
        self.frame_check(i, before, touched)
        self.partition_check(i, st, before, multi)

    def renorm_of(self, st):
        g = st["gate"]
        return RENORM.get(g, True)

    def impl_dim_for_custom(self, t, U):
        return dims_of(t)

    def spec_support(self, sid):
        p = [b2f(x) for x in self.lean.call(op="probs", id=sid)["p"]]
        nz = [k for k, x in enumerate(p) if abs(x) > 1e-13]
        return nz[-1] if nz else 0

    def call_op(self, st, targets):
        # "reuse": the Operation object of an earlier step with the same description is applied again
        # (an Operation is a reusable description, C15; a stale cache inside it shows up as a wrong state)
        import json as _json
        key = _json.dumps({k: st[k] for k in ("gate", "params", "U", "factors", "types", "form") if k in st}, sort_keys=True)
        cache = self.__dict__.setdefault("op_cache", {})
        if st.get("reuse") and key in cache:
            op = cache[key]
            self.stats["reused_operations"] = self.stats.get("reused_operations", 0) + 1
        else:
            op = make_operation(st)
            cache[key] = op
        en = st.get("entry", "state")
        if en == "state":
            targets[0].apply_operation(op)
        elif en == "env":
            targets[0].envelope.apply_operation(op, *targets)
        else:
            self.w.handles[st.get("h", 0)].apply_operation(op, *targets)

    def touched_blocks(self, before, sids):
        t = set()
        for b in before:
            if any(s in sids for s in b["members"]):
                t.update(b["members"])
        return t

    def partition_check(self, i, st, before, multi):
        """C20: blocks are joined only when needed"""
        after = snapshot_blocks(self.w)
        sids = set(st["targets"]) if "targets" in st else set()
        bset = [set(b["members"]) for b in before]
        for a in after:
            am = set(a["members"])
            parts = [b for b in bset if b & am]
            if len(parts) > 1:
                # a merge happened: every merged old block must contain an addressed subsystem
                for b in parts:
                    if not (b & sids):
                        self.findings.append(Finding("C20", f"block {sorted(b)} was merged into {a['members']} although it holds none of the addressed subsystems {sorted(sids)}", i))
                if not multi and len(sids) == 1:
                    self.findings.append(Finding("C20", f"an action on the single subsystem {sorted(sids)} enlarged a product space: {a['members']}", i))

    # rejected calls --------------------------------------------------------------------------
    def after_reject(self, i, st, before, prop):
        """after a rejected call the physical state and the object graph must be as before"""
        self._rejected = True
        if getattr(self, "_key0", None) is not None and cfg_key() != self._key0:
            # "the program can continue as if the call had not been made": a rejected request that consumes a random
            # key shifts every later draw of the run
            for pr in dict.fromkeys([prop, "C17", "C14"]):
                self.findings.append(Finding(pr, "a rejected request consumed a random key: the continuation is no longer the one of the same program without that request", i))
        dead1 = [bool(getattr(x, "measured", False)) for x in self.w.subs]
        newly = [k for k, (a, b) in enumerate(zip(getattr(self, "_dead0", dead1), dead1)) if b and not a]
        if newly:
            for pr in dict.fromkeys([prop, "C17"]):
                self.findings.append(Finding(pr, f"a rejected request destroyed subsystem(s) {newly}", i))
            return
        self.compare_states(prop, i, what="joint state after a rejected call")
        for m in check_valid_states(self.w, getattr(self, "vtol", 1e-7)):
            self.findings.append(Finding(prop, "after a rejected call: " + m, i))
        for m in check_bookkeeping(self.w):
            self.findings.append(Finding(prop, "after a rejected call: " + m, i))

    def expect_reject(self, i, st, before, thunk, prop, what):
        try:
            out = thunk()
        except Exception:
            self.after_reject(i, st, before, prop)
            return
        if out is False:
            self.after_reject(i, st, before, prop)
            return
        self.findings.append(Finding(prop, f"{what} was not rejected (returned {out!r})", i))

    # invalid requests (C17) -------------------------------------------------------------------
    def do_invalid(self, i, st, before):
        w = self.w
        what = st["what"]
        targets = [w.subs[s] for s in st.get("targets", [])]
        h = w.handles[st.get("h", 0)] if w.handles else None

        def thunk():
            if what.startswith("kraus_"):
                ops = [jnp.array(mat_of(m)) for m in st["ops"]]
                en = st.get("entry", "state")
                if en == "state":
                    return targets[0].apply_kraus(ops)
                if en == "env":
                    return targets[0].envelope.apply_kraus(ops, *targets)
                return h.apply_kraus(ops, *targets)
            if what == "povm_wrong_size":
                ops = [jnp.array(mat_of(m)) for m in st["ops"]]
                en = st.get("entry", "state")
                if en == "state":
                    return targets[0].measure_POVM(ops)
                if en == "env":
                    return targets[0].envelope.measure_POVM(ops, *targets)
                return h.measure_POVM(ops, *targets)
            if what == "wrong_kind":
                return self.call_op(st, targets)
            if what == "custom_wrong_size":
                return self.call_op(st, targets)
            if what == "outside_container":
                return self.call_op(st, targets)
            if what == "destroyed_operand":
                # a composite-level request whose operands are a live subsystem followed by a destroyed one
                live, dead = targets[0], targets[1]
                c = st["call"]
                if c == "combine":
                    return h.combine(live, dead)
                if c == "kraus":
                    d_ = dims_of(live) * 2
                    return h.apply_kraus([jnp.eye(d_)], live, dead)
                if c == "trace_out":
                    return h.trace_out(live, dead)
                if c == "cx":
                    return h.apply_operation(Operation(CO.CXPolarization), live, dead)
                raise ValueError(c)
            if what == "foreign_member":
                t = targets[0]
                ops = [jnp.array(mat_of(m)) for m in st["ops"]]
                o = w.envs[st["env"]] if st["how"] == "env" else w.handles[st["h"]]
                c = st["call"]
                gate = Operation(FO.PhaseShift, phi=0.4) if isinstance(t, Fock) else Operation(PO.X) if isinstance(t, Polarization) else Operation(CSO.Custom, operator=jnp.eye(t.dimensions))
                if c == "apply_kraus":
                    return o.apply_kraus(ops, t)
                if c == "measure_POVM":
                    return o.measure_POVM(ops, t)
                if c == "apply_operation":
                    return o.apply_operation(gate, t)
                if c == "trace_out":
                    return o.trace_out(t)
                if c == "measure":
                    return o.measure(t)
                if c == "reorder":
                    if st["how"] == "env" and o.state is None:
                        o.combine()
                    return o.reorder(t)
                if c == "combine":
                    return o.combine(w.subs[st["own"]], t)
                if c == "resize_fock":
                    if not isinstance(t, Fock):
                        raise ValueError("not a Fock space")
                    return o.resize_fock(t.dimensions + 1, t)
                raise ValueError(c)
            if what == "shrink_below_support":
                en = st.get("entry", "state")
                if en == "state":
                    return targets[0].resize(st["dim"])
                if en == "env":
                    return targets[0].envelope.resize_fock(st["dim"])
                return h.resize_fock(st["dim"], targets[0])
            raise ValueError(what)

        rprop = "C10" if (self.prog.get("focus") == "C10" and what == "shrink_below_support") else "C17"
        self.expect_reject(i, st, before, thunk, rprop, f"invalid request '{what}'")

    # Kraus ---------------------------------------------------------------------------------
    def do_kraus(self, i, st, before):
        w = self.w
        targets = [w.subs[s] for s in st["targets"]]
        ops = [mat_of(m) for m in st["ops"]]
        en = st.get("entry", "ce")
        if any(getattr(t, "measured", False) for t in targets):
            return self.expect_reject(i, st, before, lambda: self.call_kraus(st, targets, ops), "C05", "channel on a destroyed subsystem")
        if st.get("weak"):
            # a weak channel that leaves the state *nearly* pure: the library contracts a density matrix
            # whose purity is within 1e-6 of 1; the step is only run when the specification's purity
            # deficit is clearly outside that window, so that the expected behaviour is unambiguous
            sd0 = self.spec_dims()
            if [sd0[x] for x in st["targets"]] != [dims_of(t) for t in targets]:
                self.diverged = True
                return
            self.lean.call(op="save")
            self.lean.call(op="kraus", targets=st["targets"], ops=[carr(K) for K in ops])
            deficit = 1 - self.spec_get()[4]
            self.lean.call(op="restore")
            if 1e-9 < deficit < 2.5e-6:
                self.diverged = True
                return
            self.stats["weak_channels"] = self.stats.get("weak_channels", 0) + 1
        err = None
        try:
            self.call_kraus(st, targets, ops)
        except Exception as ex:
            err = ex
        if err is not None:
            self.findings.append(Finding("C06", f"apply_kraus on {st['targets']} via {en} raised {type(err).__name__}: {str(err)[:160]}", i))
            return
        # spec: operators act on the implementation's dimensions; embed if the spec space is larger
        sd = self.spec_dims()
        for t in targets:
            if isinstance(t, Fock):
                self.spec_grow(w.sid(t), dims_of(t))
        sd = self.spec_dims()
        dT = [sd[s] for s in st["targets"]]
        dI = [dims_of(t) for t in targets]
        ops2 = [embed_op(K, dI, dT) if dI != dT else K for K in ops]
        if dI != dT:
            # a channel defined on the truncated space: only valid if the spec state lives there
            pass
        self.lean.call(op="kraus", targets=st["targets"], ops=[carr(K) for K in ops2])
        # nearly pure result: what is judged is whether the automatic contraction kept the state (C08)
        weak_prop = "C02" if self.prog.get("focus") == "C02" else "C08"
        self.compare_states(weak_prop if st.get("weak") else "C06", i, what="joint state after a weak channel (nearly pure)" if st.get("weak") else "joint state")
        # result must be a density matrix unless provably pure
        self.check_invariants(i)
        self.frame_check(i, before, self.touched_blocks(before, st["targets"]))
        self.partition_check(i, st, before, len(targets) > 1)

    def call_kraus(self, st, targets, ops):
        ops = [np.array(K) for K in ops] if st.get("np_ops") else [jnp.array(K) for K in ops]
        en = st.get("entry", "ce")
        if en == "state":
            targets[0].apply_kraus(ops)
        elif en == "env":
            targets[0].envelope.apply_kraus(ops, *targets)
        else:
            self.w.handles[st.get("h", 0)].apply_kraus(ops, *targets)

    # structural calls ------------------------------------------------------------------------
    def do_struct(self, i, st, before):
        w = self.w
        what = st["what"]
        targets = [w.subs[s] for s in st.get("targets", [])]
        prop = "C08" if what in ("expand", "contract") else "C02"
        err = None
        try:
            if what == "env_combine":
                w.envs[st["env"]].combine()
            elif what == "env_reorder":
                w.envs[st["env"]].reorder(*targets)
            elif what == "ce_combine":
                w.handles[st.get("h", 0)].combine(*targets)
            elif what == "ce_reorder":
                w.handles[st.get("h", 0)].reorder(*targets)
            elif what == "expand":
                self.entry_obj(st, targets).expand() if st.get("entry", "state") != "ce" else w.handles[st.get("h", 0)].expand(*targets)
            elif what == "contract":
                o = self.entry_obj(st, targets)
                o.contract() if st.get("entry", "state") != "ce" else w.handles[st.get("h", 0)].contract(*targets)
            elif what == "new_composite":
                w.new_composite(st["args"])
            elif what == "set_contraction":
                Config().set_contraction(bool(st["on"]))
            else:
                raise ValueError(what)
        except Exception as ex:
            err = ex
        if err is not None:
            if st.get("may_reject"):
                self.after_reject(i, st, before, "C17")
                return
            self.findings.append(Finding(prop, f"{what} on {st.get('targets', st.get('env', st.get('args')))} raised {type(err).__name__}: {str(err)[:160]}", i))
            return
        n0 = len(self.findings)
        if st.get("nocheck"):
            return  # a preparation step of a directed program whose effect is judged at the next step
        self.compare_states(prop, i)
        self.check_invariants(i)
        if what == "expand" and targets and len(self.findings) == n0:
            # an expansion request lifts the addressed subsystem's block by exactly one level
            # (label -> vector -> density matrix; a density matrix stays)
            sid0 = st["targets"][0]
            lb = next((b["level"] for b in before if sid0 in b["members"]), None)
            la = next((b["level"] for b in snapshot_blocks(w) if sid0 in b["members"]), None)
            in_ps = any(sid0 in b["members"] and b["kind"] == "ps" for b in before)
            # (CompositeEnvelope.expand only addresses product spaces; other subsystems are ignored by design)
            if lb is not None and la is not None and la != min(lb + 1, 2) and (st.get("entry", "state") != "ce" or in_ps):
                self.findings.append(Finding("C08", f"expand of subsystem {sid0} via {st.get('entry', 'state')}: representation level {lb} -> {la}, expected {min(lb + 1, 2)}", i))
        if what == "new_composite" and len(self.findings) > n0:
            # bookkeeping went wrong in a merge while two different Fock subsystems hold equal values:
            # which subsystems a call registers must not depend on that (C18)
            tw = self.value_twins()
            if tw:
                for f in list(self.findings[n0:]):
                    if f.prop == "C13":
                        self.findings.append(Finding("C18", f"merging composite envelopes {st['args']} while subsystems {tw[0]} and {tw[1]} hold equal values: {f.msg}", i))
        sids = set(st.get("targets", []))
        if what in ("env_combine",):
            e = w.envs[st["env"]]
            sids = {w.sid(e.fock), w.sid(e.polarization)}
        if what in ("expand", "contract") and st.get("entry") == "env":
            e = targets[0].envelope
            sids = {w.sid(e.fock), w.sid(e.polarization)}
        self.frame_check(i, before, self.touched_blocks(before, sids))
        if what not in ("new_composite", "set_contraction"):
            st2 = dict(st)
            st2["targets"] = sorted(sids)
            self.partition_check(i, st2, before, what in ("ce_combine", "env_combine") or len(sids) > 1)

    # partial trace ---------------------------------------------------------------------------
    def do_trace_out(self, i, st, before):
        w = self.w
        targets = [w.subs[s] for s in st["targets"]]
        en = st.get("entry", "ce")
        try:
            if en == "state":
                out = targets[0].trace_out()
            elif en == "env":
                out = targets[0].envelope.trace_out(*targets)
            else:
                out = w.handles[st.get("h", 0)].trace_out(*targets)
        except Exception as ex:
            self.findings.append(Finding("C02", f"trace_out{st['targets']} via {en} raised {type(ex).__name__}: {str(ex)[:160]}", i))
            return
        # the call may combine / reorder: the joint state must be unchanged
        self.compare_states("C02", i)
        r = self.lean.call(op="reduce", targets=st["targets"])
        dT = r["dims"]
        D = int(np.prod(dT))
        red = uncarr(r["rho"]).reshape(D, D)
        dI = [dims_of(t) for t in targets]
        got = self.as_density(out, targets)
        if got is None:
            self.findings.append(Finding("C02", f"trace_out{st['targets']} returned something that is not a state of the addressed subsystems: {type(out).__name__} shape {getattr(out, 'shape', None)}", i))
        else:
            rho, vec_level = got
            err = compare(rho, dI, red, dT)
            if err > TOL:
                if vec_level:
                    self.known("C02", "trace_out at vector level returns the amplitude sum over the discarded subsystems instead of a reduced state", i)
                else:
                    self.findings.append(Finding("C02", f"trace_out{st['targets']} via {en} differs from the partial trace of the joint state by {err:.3e}", i))
        self.check_invariants(i)
        self.frame_check(i, before, self.touched_blocks(before, st["targets"]))

    def as_density(self, out, targets):
        if isinstance(out, PolarizationLabel):
            v = POLV[out.name]
            return np.outer(v, v.conj()), False
        if isinstance(out, (int, np.integer)):
            d = dims_of(targets[0])
            v = np.zeros(max(d, int(out) + 1), complex)
            v[int(out)] = 1
            return np.outer(v, v.conj())[:d, :d] if d > int(out) else np.outer(v, v.conj()), False
        a = np.asarray(out)
        D = int(np.prod([dims_of(t) for t in targets]))
        if a.shape == (D, D) and not (D == 1):
            return a.astype(complex), False
        if a.shape == (D, 1):
            v = a.reshape(-1)
            return np.outer(v, v.conj()), True
        return None

    def known(self, prop, msg, i):
        self.stats.setdefault("known", []).append((prop, msg, i))

    # closed-form probe -------------------------------------------------------------------------
    def do_probe(self, i, st, before):
        """compare the outcome distribution of one subsystem (specification and implementation) with a
        closed form supplied by the program (used for the Mach-Zehnder sweep of C11)"""
        sid = st["targets"][0]
        want = np.array(st["expect"], dtype=float)
        p = self.spec_probs(sid)
        n = max(len(p), len(want))
        p = np.pad(p, (0, n - len(p)))
        want2 = np.pad(want, (0, n - len(want)))
        if np.abs(p - want2).max() > 1e-9:
            self.findings.append(Finding(st.get("prop", "C11"), f"specification gives {np.round(p, 9).tolist()} for subsystem {sid}, closed form {want.tolist()} ({st.get('note', '')})", i))
        sids, dims, rho = joint(self.w)
        k = sids.index(sid)
        d = np.real(np.diag(rho)).reshape(dims)
        marg = d.sum(axis=tuple(a for a in range(len(dims)) if a != k)) if len(dims) > 1 else d
        marg = np.pad(marg, (0, max(0, n - len(marg))))[:n]
        if np.abs(marg - want2).max() > 1e-7:
            self.findings.append(Finding(st.get("prop", "C11"), f"implementation gives {np.round(marg, 7).tolist()} for subsystem {sid}, closed form {want.tolist()} ({st.get('note', '')})", i))

    # resize ------------------------------------------------------------------------------------
    def do_resize(self, i, st, before):
        w = self.w
        t = w.subs[st["targets"][0]]
        sid = st["targets"][0]
        new = int(st["dim"])
        en = st.get("entry", "state")
        d0 = dims_of(t)
        try:
            if en == "state":
                res = t.resize(new)
            elif en == "env":
                res = t.envelope.resize_fock(new)
            else:
                res = w.handles[st.get("h", 0)].resize_fock(new, t)
        except Exception as ex:
            self.findings.append(Finding("C10", f"resize({new}) of fock{sid} via {en} raised {type(ex).__name__}: {str(ex)[:160]}", i))
            return
        d1 = dims_of(t)
        if res:
            if t.dimensions != new:
                self.findings.append(Finding("C10", f"resize({new}) reported success but the dimension is {t.dimensions}", i))
            self.spec_grow(sid, new)
        else:
            if d1 != d0 and not (t.dimensions == new and new == d0):
                self.findings.append(Finding("C10", f"resize({new}) reported failure but the dimension changed {d0}->{d1}", i))
        # in both cases the physical state must be unchanged (nothing lost)
        n0 = len(self.findings)
        self.compare_states("C10", i)
        self.spec_trim()
        self.check_invariants(i)
        for f in list(self.findings[n0:]):
            if f.prop in ("C13", "C07"):
                # the stored array no longer fits the reported dimensions: the resize lost / garbled data
                self.findings.append(Finding("C10", f"after resize({new}) of fock{sid} via {en} (reported {'success' if res else 'failure'}): {f.msg}", i))
        self.frame_check(i, before, self.touched_blocks(before, st["targets"]))
        self.partition_check(i, st, before, False)

    # measurement ---------------------------------------------------------------------------------
    def do_measure(self, i, st, before):
        w = self.w
        targets = [w.subs[s] for s in st["targets"]]
        en = st.get("entry", "ce")
        sep = bool(st.get("sep", False))
        des = bool(st.get("destructive", True))
        if any(getattr(t, "measured", False) for t in targets):
            return self.expect_reject(i, st, before, lambda: self.call_measure(st, targets, sep, des), "C05", "measurement of a destroyed subsystem")
        values_before = {w.sid(s): (s.state if isinstance(s.state, (int, np.integer)) else None) for s in w.subs if isinstance(s, Fock)}
        with Spy(st.get("force")) as spy:
            try:
                out = self.call_measure(st, targets, sep, des)
                err = None
            except Exception as ex:
                err = ex
        if st.get("known_cell"):
            # a measured subsystem sits in a combined envelope (known findings K-C04/K-C05): states
            # and probabilities are not judged there, only which subsystems were measured / reported
            self.diverged = True
            if err is not None:
                return
            expected = set(st["targets"])
            if not sep:
                for t in targets:
                    if isinstance(t, (Fock, Polarization)):
                        expected.add(w.sid(t.envelope.fock)); expected.add(w.sid(t.envelope.polarization))
            got = [w.sid(k) for k in out]
            if len(set(got)) != len(got):
                self.findings.append(Finding("C18", f"outcome dictionary holds two entries for one subsystem: {got}", i))
            missing = expected - set(got)
            for m_ in sorted(missing):
                twin = [x for x in expected if x != m_ and isinstance(w.subs[m_], Fock) and isinstance(w.subs[x], Fock)]
                prop_ = "C18" if twin else "C05"
                self.findings.append(Finding(prop_, f"measure{st['targets']} via ce (sep={sep}, destructive={des}): subsystem {m_} was specified to be measured but is not in the outcome dictionary {sorted(got)}" + (" (another measured Fock holds an equal value)" if twin else ""), i))
            for x_ in sorted(set(got) - expected):
                self.findings.append(Finding("C05", f"measure{st['targets']}: outcome reported for subsystem {x_} which was not to be measured", i))
            return
        if err is not None:
            self.findings.append(Finding("C05", f"measure{st['targets']} via {en} (sep={sep}, destructive={des}) raised {type(err).__name__}: {str(err)[:160]}", i))
            return
        st["_draws"] = len(spy.draws)
        if not self.fresh_keys(i, spy.draws, "C04"):
            return
        # which subsystems had to be measured
        expected = set(st["targets"])
        if not sep:
            for t in targets:
                if isinstance(t, (Fock, Polarization)):
                    expected.add(w.sid(t.envelope.fock))
                    expected.add(w.sid(t.envelope.polarization))
        if en == "env" and not sep:
            pass
        got = {}
        for k, v in out.items():
            sid = w.sid(k)
            if sid in got:
                self.findings.append(Finding("C18", f"outcome dictionary holds two entries for subsystem {sid}", i))
            got[sid] = int(v)
        if set(got) != expected:
            missing = expected - set(got)
            fock_twins = [m_ for m_ in missing if isinstance(w.subs[m_], Fock) and any(isinstance(w.subs[x], Fock) and x != m_ for x in expected)]
            self.findings.append(Finding("C18" if fock_twins else "C05", f"measure{st['targets']} via {en} (sep={sep}): outcomes reported for {sorted(got)}, specified {sorted(expected)}" + (" (a Fock holding the same value as another measured Fock was skipped)" if fock_twins else ""), i))
            extra = sorted(set(got) - expected)
            if extra:
                # a subsystem that was not addressed was measured: its block collapsed / lost a member (C20)
                hit = [b["members"] for b in before if any(x in b["members"] for x in extra) and not any(x in b["members"] for x in expected)]
                self.findings.append(Finding("C20", f"measure{st['targets']} via {en} (sep={sep}): unaddressed subsystem(s) {extra} were measured as well" + (f"; bystander block(s) {hit} changed" if hit else ""), i))
            return
        # Born rule: match the draws to subsystems (order is the implementation's choice)
        ok = self.match_draws(i, spy.draws, got, des)
        if not ok:
            return
        # fate of the measured subsystems
        for sid, o in got.items():
            s = w.subs[sid]
            if isinstance(s, CustomState) or not des:
                if getattr(s, "measured", False):
                    self.findings.append(Finding("C05", f"subsystem {sid} was destroyed by a {'custom-state' if isinstance(s, CustomState) else 'non-destructive'} measurement", i))
                else:
                    # it must be left in the basis state of its outcome, as a usable label
                    lab = s.state.name if isinstance(s.state, PolarizationLabel) else s.state
                    want = ("H" if o == 0 else "V") if isinstance(s, Polarization) else o
                    if s.index is not None or s.expansion_level != EL.Label or isinstance(lab, (np.ndarray, jnp.ndarray)) or lab != want:
                        self.findings.append(Finding("C05", f"non-destructively measured subsystem {sid} (outcome {o}) is not left in its outcome state: index={s.index}, level={s.expansion_level}, state={lab if not hasattr(lab, 'shape') else 'array'}", i))
            else:
                if not s.measured or s.state is not None or s.index is not None:
                    self.findings.append(Finding("C05", f"destructively measured subsystem {sid} is not retired (measured={s.measured}, state={'set' if s.state is not None else None}, index={s.index})", i))
                for h in w.handles:
                    for ps in h.states:
                        if has(ps.state_objs, s):
                            self.findings.append(Finding("C05", f"destructively measured subsystem {sid} is still listed in a product space", i))
        self.compare_states("C05", i, what="post-measurement joint state")
        self.check_invariants(i)
        touched = self.touched_blocks(before, expected)
        self.frame_check(i, before, touched)

    def value_twins(self):
        """a pair of different live Fock subsystems that the library's `==` considers equal"""
        fs = [x for x in self.w.live() if isinstance(x, Fock)]
        for a in range(len(fs)):
            for b in range(a + 1, len(fs)):
                try:
                    if fs[a] is not fs[b] and bool(fs[a] == fs[b]):
                        return (self.w.sid(fs[a]), self.w.sid(fs[b]))
                except Exception:
                    continue
        return None

    def fresh_keys(self, i, draws, prop):
        """every random draw of a program consumes its own key (PW.Rng: the keys along a run are
        pairwise distinct); a reused key makes two outcomes functions of the same random bits, so the
        later one is not drawn with its conditional Born probability"""
        seen = getattr(self, "draw_keys", [])
        ok = True
        for k, d in enumerate(draws):
            key = repr(d["key"])
            if key in seen:
                ok = False
                for pr in (prop, "C14"):
                    self.findings.append(Finding(pr, f"random draw {k} of this call reuses the key of an earlier draw ({d['key']}): the outcomes are correlated instead of independently drawn from their conditional distributions", i))
                break
            seen = seen + [key]
        self.draw_keys = seen
        return ok

    def call_measure(self, st, targets, sep, des):
        en = st.get("entry", "ce")
        if en == "state":
            return targets[0].measure(separate_measurement=sep, destructive=des)
        if en == "env":
            if st.get("noargs"):
                # `env.measure()`: no subsystem named, the whole envelope is measured
                return targets[0].envelope.measure(separate_measurement=sep, destructive=des)
            return targets[0].envelope.measure(*targets, separate_measurement=sep, destructive=des)
        return self.w.handles[st.get("h", 0)].measure(*targets, separate_measurement=sep, destructive=des)

    def spec_probs(self, sid):
        return np.array([b2f(x) for x in self.lean.call(op="probs", id=sid)["p"]])

    def match_draws(self, i, draws, got, destructive, prop="C04"):
        """Find an order of the measured subsystems such that every intercepted probability vector
        equals the spec's conditional distribution; subsystems without a draw must be certain."""
        w = self.w
        sids = list(got)

        def remove_flag(sid):
            return destructive and not isinstance(w.subs[sid], CustomState)

        def rec(k, remaining):
            if k == len(draws):
                # remaining subsystems: outcome must have probability 1
                self.lean.call(op="save")
                for sid in remaining:
                    p = self.spec_probs(sid)
                    o = got[sid]
                    if o >= len(p) or abs(p[o] - 1) > 1e-6:
                        self.lean.call(op="restore")
                        return None, f"subsystem {sid} reported outcome {o} without a random draw, its probability is {p[o] if o < len(p) else 0:.6f}"
                    self.lean.call(op="project", id=sid, outcome=o, remove=remove_flag(sid))
                self.lean.call(op="drop")
                return True, None
            d = draws[k]
            msg = None
            for sid in remaining:
                o = got[sid]
                if d["chosen"] != o:
                    continue
                p = self.spec_probs(sid)
                q = d["p"]
                n = max(len(p), len(q))
                pp = np.pad(p, (0, n - len(p)))
                qq = np.pad(q, (0, n - len(q)))
                if np.abs(pp - qq).max() > PTOL * 10:
                    msg = f"draw {k}: sampler was given p={np.round(q, 6).tolist()} for subsystem {sid}, Born rule gives {np.round(p, 6).tolist()}"
                    continue
                if pp[o] < 1e-9:
                    msg = f"draw {k}: outcome {o} of subsystem {sid} has probability {pp[o]:.2e}"
                    continue
                self.lean.call(op="save")
                self.lean.call(op="project", id=sid, outcome=o, remove=remove_flag(sid))
                okk, m2 = rec(k + 1, [s for s in remaining if s != sid])
                if okk:
                    self.lean.call(op="drop")
                    return True, None
                self.lean.call(op="restore")
                msg = m2 or msg
            return None, msg or f"draw {k}: p={np.round(d['p'], 6).tolist()} chosen {d['chosen']} matches no measured subsystem's Born distribution"

        okk, msg = rec(0, sids)
        if not okk:
            self.findings.append(Finding(prop, msg, i))
            return False
        for d in draws:
            if d["p"] is not None and d["p"][d["chosen"]] <= 0:
                self.findings.append(Finding(prop, f"an outcome of probability zero was reported ({d['chosen']})", i))
        return True

    # POVM ---------------------------------------------------------------------------------------
    def do_povm(self, i, st, before):
        w = self.w
        targets = [w.subs[s] for s in st["targets"]]
        ops = [mat_of(m) for m in st["ops"]]
        en = st.get("entry", "ce")
        des = bool(st.get("destructive", True))
        if any(getattr(t, "measured", False) for t in targets):
            return self.expect_reject(i, st, before, lambda: self.call_povm(st, targets, ops, des), "C05", "POVM on a destroyed subsystem")
        with Spy(st.get("force")) as spy:
            try:
                out = self.call_povm(st, targets, ops, des)
                err = None
            except Exception as ex:
                err = ex
        if err is not None:
            self.findings.append(Finding("C09", f"measure_POVM on {st['targets']} via {en} (destructive={des}) raised {type(err).__name__}: {str(err)[:160]}", i))
            return
        if not self.fresh_keys(i, spy.draws, "C09"):
            return
        if not spy.draws:
            self.findings.append(Finding("C09", "POVM made no random draw", i))
            return
        d0 = spy.draws[0]
        for t in targets:
            if isinstance(t, Fock):
                self.spec_grow(w.sid(t), dims_of(t))
        sd = self.spec_dims()
        dT = [sd[s] for s in st["targets"]]
        dI = [ops[0].shape[0]] if len(targets) == 1 else None
        dI = self.op_dims(ops[0], targets, dT)
        ops2 = [embed_op(M, dI, dT) if dI != dT else M for M in ops]
        p = np.array([b2f(x) for x in self.lean.call(op="povm_probs", targets=st["targets"], ops=[carr(M) for M in ops2])["p"]])
        p = p / p.sum()
        q = d0["p"]
        if len(q) != len(p) or np.abs(p - q).max() > PTOL * 10:
            self.findings.append(Finding("C09", f"POVM probabilities {np.round(q, 6).tolist()} differ from Tr(M rho M^dagger) = {np.round(p, 6).tolist()}", i))
            return
        outcome = int(out[0])
        if outcome != d0["chosen"]:
            self.findings.append(Finding("C09", f"POVM returned outcome {outcome} but the sampler chose {d0['chosen']}", i))
            return
        if p[outcome] < 1e-9:
            self.findings.append(Finding("C09", f"POVM reported outcome {outcome} of probability {p[outcome]:.2e}", i))
            return
        self.lean.call(op="apply", targets=st["targets"], U=carr(ops2[outcome]), renorm=True)
        others = {w.sid(k): int(v) for k, v in out[1].items()}
        own_target = any(b["kind"] == "own" and st["targets"][0] in b["members"] for b in before)
        if st.get("partial") and en == "state" and others and own_target:
            # `partial=True` restricts the POVM to the addressed member: nothing else may be measured
            hit = [b["members"] for b in before if any(x in b["members"] for x in others) and not any(x in b["members"] for x in st["targets"])]
            for pr in ("C09", "C20"):
                self.findings.append(Finding(pr, f"measure_POVM(partial=True, destructive={des}) on subsystem {st['targets']} also measured {sorted(others)}" + (f"; bystander block(s) {hit} changed" if hit else ""), i))
            return
        if des:
            # destructive: the addressed subsystems are measured away (their own outcomes are not
            # reported), partners reported in the second component
            got = dict(others)
            destroyed = [s for s in st["targets"] if not isinstance(w.subs[s], CustomState)]
            rest_draws = spy.draws[1:]
            # outcomes of the targets themselves are hidden: marginalise by trying all
            ok = self.match_hidden(i, rest_draws, got, destroyed)
            if not ok:
                return
            for sid in destroyed:
                s = w.subs[sid]
                if not s.measured:
                    self.findings.append(Finding("C09", f"destructive POVM left subsystem {sid} alive", i))
        else:
            if len(spy.draws) > 1 and not others:
                self.findings.append(Finding("C09", f"non-destructive POVM made {len(spy.draws)} draws but reports no other outcome", i))
            if others:
                ok = self.match_draws(i, spy.draws[1:], others, False, prop="C09")
                if not ok:
                    return
            for s in w.subs:
                pass
            for sid in st["targets"]:
                if getattr(w.subs[sid], "measured", False):
                    self.findings.append(Finding("C09", f"non-destructive POVM destroyed subsystem {sid}", i))
            for sid in others:
                if getattr(w.subs[sid], "measured", False):
                    self.findings.append(Finding("C09", f"non-destructive POVM destroyed partner subsystem {sid}", i))
        self.compare_states("C09", i, what="post-POVM joint state")
        self.check_invariants(i)
        touched = self.touched_blocks(before, set(st["targets"]) | set(others))
        self.frame_check(i, before, touched)

    def op_dims(self, M, targets, dT):
        dI = [dims_of(t) if not getattr(t, "measured", False) else None for t in targets]
        if any(d is None for d in dI) or int(np.prod(dI)) != M.shape[0]:
            # measured away already (destructive) -> recover from operator size for single target
            if len(targets) == 1:
                return [M.shape[0]]
            return dT
        return dI

    def match_hidden(self, i, draws, got, destroyed):
        """destructive POVM: afterwards each addressed (destroyable) subsystem is gone; its own
        outcome is not reported.  Two unravelings are accepted: the subsystem is discarded (partial
        trace, no draw), or measured projectively with a hidden outcome (one draw) and removed.
        Partners reported in the second component must be Born-rule draws."""
        hidden = [s for s in destroyed if s not in got]

        def rec(j, assign, discard):
            if j == len(hidden):
                full = dict(got)
                full.update(assign)
                n0 = len(self.findings)
                self.lean.call(op="save")
                for sid in discard:
                    self.lean.call(op="discard", id=sid)
                ok = self.match_draws(i, draws, full, True, prop="C09")
                if ok:
                    self.lean.call(op="drop")
                    return True
                self.lean.call(op="restore")
                del self.findings[n0:]
                return False
            sid = hidden[j]
            p = self.spec_probs(sid)
            cands = [c for c in dict.fromkeys(d["chosen"] for d in draws) if c < len(p)]
            for c in cands:
                if rec(j + 1, {**assign, sid: c}, discard):
                    return True
            return rec(j + 1, assign, discard + [sid])

        if rec(0, {}, []):
            return True
        self.findings.append(Finding("C09", f"destructive POVM: the follow-up draws {[(np.round(d['p'], 4).tolist(), d['chosen']) for d in draws]} are neither Born-rule measurements of the addressed subsystems / partners nor absent", i))
        return False

    def call_povm(self, st, targets, ops, des):
        # operators may be handed over as numpy arrays (the API accepts both)
        ops = [np.array(M) for M in ops] if st.get("np_ops") else [jnp.array(M) for M in ops]
        en = st.get("entry", "ce")
        if en == "state":
            return targets[0].measure_POVM(ops, destructive=des, **({"partial": True} if st.get("partial") else {}))
        if en == "env":
            return targets[0].envelope.measure_POVM(ops, *targets, destructive=des)
        return self.w.handles[st.get("h", 0)].measure_POVM(ops, *targets, destructive=des)

    def close(self):
        if self.own_lean:
            self.lean.close()


def embed_op(M, dI, dT):
    """embed an operator on dimensions dI into the larger dimensions dT (identity on the extra
    levels is NOT added: zero block; the spec state has no population there when this is used)"""
    M = np.asarray(M)
    n = len(dI)
    t = M.reshape(list(dI) + list(dI))
    padw = [(0, b - a) for a, b in zip(dI, dT)] * 2
    t = np.pad(t, padw)
    D = int(np.prod(dT))
    out = t.reshape(D, D)
    # identity on the added levels so that trace-preservation is kept for channels / unitaries
    if n == 1 and dT[0] > dI[0]:
        for k in range(dI[0], dT[0]):
            out[k, k] = 1
    return out
