"""C14: key hygiene and reproducibility.

(1) every key handed to jax.random.choice in a program equals the key at the model's path
    (PW.Rng: n-th draw after set_seed s = left(right^n(root s))), computed with the real
    jax.random.split; the key left in Config afterwards is right^N(root) for N draws;
(2) the same program gives the same outcomes and final states when run twice in one process after
    re-seeding, after unrelated activity, and in a fresh process."""
import json, os, random, subprocess, sys, time, zlib
import numpy as np
import checklib as CL


def key_at(seed, path):
    import jax
    k = jax.random.PRNGKey(seed)
    for ch in path:
        a, b = jax.random.split(k)
        k = a if ch == "L" else b
    return np.asarray(jax.random.key_data(k) if hasattr(jax.random, "key_data") else k).tolist()


def run_prog_collect(prog):
    """run a program on the implementation only; returns (draw keys, outcomes, final snapshot, final key)"""
    import warnings
    warnings.filterwarnings("ignore")
    from engine import Runner
    from world import snapshot_blocks
    from photon_weave.photon_weave import Config
    import jax

    class NoLean:
        def call(self, **kw):
            return {"ok": True, "dims": [], "ids": [], "rho": {"re": [], "im": []}, "trace": 0, "purity": 0, "p": [], "lost": 0}

    import world
    keys, outs = [], []
    W = world.World()
    C = Config()
    C.set_seed(int(prog["seed"]))
    C.set_contraction(bool(prog.get("contraction", True)))
    su = prog["setup"]
    for e in su["envs"]:
        W.new_env(e.get("fock", 0), e.get("pol", "H"), e.get("fdim"))
    for c in su.get("customs", []):
        W.new_custom(c["dim"], c.get("label", 0))
    for refs in su.get("composites", []):
        W.new_composite(refs)
    R = Runner.__new__(Runner)
    R.w = W
    R.lean = None
    err = None
    for st in prog["steps"]:
        targets = [W.subs[s] for s in st.get("targets", [])]
        with world.Spy() as spy:
            try:
                k = st["kind"]
                if k == "op":
                    R.call_op(st, targets)
                elif k == "kraus":
                    from engine import mat_of
                    R.call_kraus(st, targets, [mat_of(m) for m in st["ops"]])
                elif k == "measure":
                    out = R.call_measure(st, targets, bool(st.get("sep")), bool(st.get("destructive", True)))
                    outs.append(sorted((W.sid(a), int(b)) for a, b in out.items()))
                elif k == "povm":
                    from engine import mat_of
                    out = R.call_povm(st, targets, [mat_of(m) for m in st["ops"]], bool(st.get("destructive", True)))
                    outs.append([int(out[0]), sorted((W.sid(a), int(b)) for a, b in out[1].items())])
                elif k == "struct":
                    what = st["what"]
                    if what == "env_combine":
                        W.envs[st["env"]].combine()
                    elif what == "ce_combine":
                        W.handles[st.get("h", 0)].combine(*targets)
                    elif what == "expand":
                        en = st.get("entry", "state")
                        (targets[0] if en == "state" else targets[0].envelope if en == "env" else None).expand() if en != "ce" else W.handles[st.get("h", 0)].expand(*targets)
                    elif what == "set_contraction":
                        Config().set_contraction(bool(st["on"]))
            except Exception as ex:
                err = f"{type(ex).__name__}"
                outs.append(err)
        keys += [d["key"] for d in spy.draws]
    snap = [(b["kind"], b["members"], b["level"], b["dims"], None if b["data"][0] == "label" else np.frombuffer(b["data"][2], dtype=complex).round(9).view(np.float64).tolist(), b["data"][1] if b["data"][0] == "label" else None) for b in snapshot_blocks(W)]
    fk = np.asarray(jax.random.key_data(C._key) if hasattr(jax.random, "key_data") else C._key).tolist()
    return keys, outs, snap, fk


def site_programs():
    """one hand-built program per sampling site x representation level (key discipline only: known
    defective cells such as Envelope.measure on a combined envelope are included on purpose)"""
    H = lambda t, en="state": {"kind": "op", "targets": [t], "entry": en, "gate": "H"}
    RY = lambda t: {"kind": "op", "targets": [t], "entry": "state", "gate": "RY", "params": {"theta": 1.1}}
    CR = lambda t: {"kind": "op", "targets": [t], "entry": "state", "gate": "Creation"}
    DI = lambda t: {"kind": "op", "targets": [t], "entry": "state", "gate": "Displace", "params": {"alpha_re": 0.4, "alpha_im": 0.3}}
    EX = lambda t, en="state", **k: {"kind": "struct", "what": "expand", "entry": en, "targets": [t], **k}
    M = lambda ts, en="ce", sep=False, des=True: {"kind": "measure", "targets": ts, "entry": en, "sep": sep, "destructive": des, "h": 0}
    import numpy as np
    proj = [[[[1, 0], [0, 0]], [[0, 0], [0, 0]]], [[[0, 0], [0, 0]], [[0, 0], [1, 0]]]]
    P = lambda ts, en="ce", des=True: {"kind": "povm", "targets": ts, "entry": en, "ops": proj, "destructive": des, "h": 0}
    two = {"envs": [{"fock": 1, "pol": "R", "fdim": 3}, {"fock": 0, "pol": "L", "fdim": 2}], "customs": [{"dim": 2, "label": 1}], "composites": [["e0", "e1", "c0"]]}
    one = {"envs": [{"fock": 1, "pol": "R", "fdim": 3}], "customs": [{"dim": 2, "label": 0}], "composites": []}
    progs = []

    def add(setup, steps, con=True):
        progs.append({"seed": 11, "contraction": con, "setup": setup, "steps": steps})

    for con in (True, False):
        add(one, [DI(0), M([0], "state", True)], con)                       # Fock.measure vector
        add(one, [DI(0), EX(0), M([0], "state", True)], False)               # Fock.measure matrix
        add(one, [RY(1), M([1], "state", True)], con)                        # Polarization vector
        add(one, [RY(1), EX(1), EX(1), M([1], "state", True)], False)        # Polarization matrix
        add(one, [M([0], "state", False)], con)                              # Fock + partner
        add(one, [{"kind": "op", "targets": [2], "entry": "state", "gate": "CustomCustom", "U": [[[0.6, 0], [0.8, 0]], [[0.8, 0], [-0.6, 0]]]}, M([2], "state")], con)
        add(one, [RY(1), P([1], "state", False), P([1], "state", True)], con)  # own-state POVM
        add(one, [RY(1), {"kind": "struct", "what": "env_combine", "env": 0}, M([0, 1], "env")], con)            # Envelope.measure vector
        add(one, [RY(1), {"kind": "struct", "what": "env_combine", "env": 0}, EX(0, "env"), M([0, 1], "env")], False)  # matrix
        add(one, [RY(1), {"kind": "struct", "what": "env_combine", "env": 0}, P([1], "env", False)], con)         # Envelope POVM
        add(two, [RY(1), RY(3), {"kind": "struct", "what": "ce_combine", "h": 0, "targets": [1, 3, 4]}, M([1, 3, 4], "ce", True)], con)  # ps vector, 3 draws
        add(two, [RY(1), RY(3), {"kind": "struct", "what": "ce_combine", "h": 0, "targets": [1, 3, 4]}, EX(1, "ce", h=0), M([1, 3, 4], "ce", True, False)], False)  # ps matrix, 3 draws
        add(two, [RY(1), RY(3), {"kind": "struct", "what": "ce_combine", "h": 0, "targets": [1, 3]}, EX(1, "ce", h=0), M([3, 1], "ce", False)], False)  # ps matrix + partners
        add(two, [RY(1), RY(3), {"kind": "struct", "what": "ce_combine", "h": 0, "targets": [1, 3]}, P([3], "ce", False), P([1], "ce", True)], con)     # ps POVM
    return progs


def make_programs(rng, n):
    """measurement-heavy programs (generated online against a scratch world, without the spec)"""
    import campaign
    campaign._init()
    progs = []
    for i in range(n):
        r = campaign.run_generated((rng.randrange(2**30), rng.choice(["C04", "C05", "C09", "C04"]), 7, True))
        p = r["program"]
        p["steps"] = [s for s in p["steps"] if s["kind"] in ("op", "kraus", "measure", "povm")]
        for s in p["steps"]:
            s.pop("force", None)
        if any(s["kind"] in ("measure", "povm") for s in p["steps"]) and not r["findings"]:
            progs.append(p)
    return progs


def run(prop, tier, seed):
    if os.environ.get("PW_C14_CHILD"):
        prog = json.load(sys.stdin)
        k, o, s, fk = run_prog_collect(prog)
        print("RESULT " + json.dumps({"keys": k, "outs": o, "snap": s, "fk": fk}))
        return 0
    from leanio import Lean
    t0 = time.time()
    thorough = tier == "thorough"
    pr = CL.lean_build(prop, thorough)
    print(f"[{prop}] lean: {len(pr.theorems)} theorems audited, build {'ok' if pr.ok else 'BROKEN'}")
    for p in pr.problems:
        print(f"[{prop}] proof obligation problem: {p}")
    rng = random.Random(zlib.crc32(b"C14") + int(seed))
    progs = site_programs() + make_programs(rng, 60 if thorough else 12)
    L = Lean()
    viol, n, ndraws, samples = [], 0, 0, []
    for prog in progs:
        # seeds: the program's own, a small one, the legal extremes 0 and 2^31 - 1 (alternating), a large one
        for sd in ([prog["seed"], 7, 0, 2**31 - 1, 123456] if thorough else [prog["seed"], 7, (0 if n % 2 == 0 else 2**31 - 1)]):
            p = dict(prog)
            p["seed"] = sd
            n += 1
            keys, outs, snap, fk = run_prog_collect(p)
            ndraws += len(keys)
            m = L.call(op="rng", seed=sd, n=len(keys))
            exp = [key_at(sd, path) for path in m["keys"]]
            desc = {"program": p}
            if len(samples) < 2:
                samples.append({"seed": sd, "draws": len(keys), "paths": m["keys"][:4], "steps": [s["kind"] for s in p["steps"]]})
            if keys != exp:
                bad = next((i for i, (a, b) in enumerate(zip(keys, exp)) if a != b), None)
                viol.append((f"draw {bad}: the sampler received key {keys[bad] if bad is not None else '?'}, the fresh key at path {m['keys'][bad] if bad is not None else '?'} after set_seed({sd}) is {exp[bad] if bad is not None else '?'} (a key was reused or skipped)", desc))
                continue
            if fk != key_at(sd, m["state"]):
                viol.append((f"after {len(keys)} draws the configuration key is not right^{len(keys)}(root): a read did not advance the key exactly once per draw", desc))
                continue
            # (a) twice in one process after re-seeding, (c) after unrelated activity
            keys2, outs2, snap2, _ = run_prog_collect(p)
            if outs2 != outs or snap2 != snap:
                viol.append((f"re-running the program after set_seed({sd}) in the same process gave different outcomes/final states", desc))
                continue
            other = dict(progs[(progs.index(prog) + 1) % len(progs)])
            run_prog_collect(other)
            keys3, outs3, snap3, _ = run_prog_collect(p)
            if outs3 != outs or snap3 != snap:
                viol.append((f"the program's outcomes depend on unrelated earlier activity in the process (seed {sd})", desc))
                continue
    # (b) fresh process
    for prog in progs[: (8 if thorough else 3)]:
        n += 1
        keys, outs, snap, fk = run_prog_collect(prog)
        env = dict(os.environ, PW_C14_CHILD="1")
        pr2 = subprocess.run(["/venv/bin/python", os.path.join(CL.HERE, "check.py"), "C14"], input=json.dumps(prog), env=env, stdout=subprocess.PIPE, stderr=subprocess.DEVNULL, text=True, timeout=600)
        line = [l for l in pr2.stdout.splitlines() if l.startswith("RESULT ")]
        if not line:
            viol.append(("fresh-process run failed", {"program": prog}))
            continue
        r = json.loads(line[0][7:])
        if r["outs"] != json.loads(json.dumps(outs)) or r["keys"] != keys:
            viol.append((f"a fresh process gives different outcomes for seed {prog['seed']}", {"program": prog}))
    L.close()
    cov = {"evaluations": n, "distinct_nontrivial": len(progs), "rule": "measurement / POVM programs from the C04/C05/C09 generators run under 2-3 seeds; distinct = programs; every intercepted key compared exactly with the key at the model's path; twin runs in-process, after unrelated activity and in a fresh process",
           "samples": samples, "draws_checked": ndraws}
    return CL.finish(prop, tier, seed, pr, viol, list(pr.problems), cov, t0,
                     ["jax.random.split yields distinct, independent keys along distinct paths (JAX's property)",
                      "statistical independence of draws is not tested, only key freshness"])
