"""Generate-and-run campaigns of programs, in parallel worker processes (one Lean driver each)."""
import json, os, random, sys, time, traceback
import multiprocessing as mp

HERE = os.path.dirname(os.path.abspath(__file__))
sys.path.insert(0, HERE)

_runner_lean = None


def _init():
    global _runner_lean
    import warnings
    warnings.filterwarnings("ignore")
    from leanio import Lean
    _runner_lean = Lean()


def strip(st):
    return {k: v for k, v in st.items() if not k.startswith("_")}


class ProgramTimeout(Exception):
    pass


def _alarm(signum, frame):
    raise ProgramTimeout()


PROGRAM_TIME_LIMIT = 60  # seconds per program; a slower one is dropped (counted), never a finding


def _restart_lean():
    global _runner_lean
    try:
        _runner_lean.p.kill()
    except Exception:
        pass
    from leanio import Lean
    _runner_lean = Lean()


def run_generated(args):
    """generate a program online from (seed, focus, nsteps) and run it; returns a result dict"""
    import signal
    signal.signal(signal.SIGALRM, _alarm)
    signal.alarm(PROGRAM_TIME_LIMIT)
    try:
        return _run_generated(args)
    except ProgramTimeout:
        _restart_lean()
        seed, focus, nsteps, avoid_known = args
        return {"seed": seed, "focus": focus, "findings": [], "cells": [], "known": [], "route_mismatches": [], "timeout": True,
                "program": {"seed": seed, "setup": {"envs": [], "customs": [], "composites": []}, "steps": []}, "nontrivial": False, "stats": {}}
    finally:
        signal.alarm(0)


def _run_generated(args):
    seed, focus, nsteps, avoid_known = args
    from engine import Runner, Finding
    from gen import Gen
    from photon_weave.photon_weave import Config
    rng = random.Random(seed)
    g = Gen(rng, focus, avoid_known)
    prog = {"seed": seed % (2**31), "contraction": rng.random() < 0.6, "focus": focus, "setup": g.setup(), "steps": []}
    R = Runner(_runner_lean)
    t0 = time.time()
    res = {"seed": seed, "focus": focus, "findings": [], "cells": [], "known": []}
    try:
        R.setup(prog)
        R.check_invariants(-1)
        R.compare_states("C02", -1, what="initial joint state")
        i = 0
        pre = g.scenario(R.w) if rng.random() < 0.45 else []
        if not pre:
            pre = g.prelude(R.w) if rng.random() < 0.7 else []
        while i < nsteps + len(pre) and not R.findings and not R.diverged:
            st = pre.pop(0) if pre else g.next_step(R.w)
            if st is None or st["kind"] == "stop":
                break
            if not valid_now(R.w, st):
                continue
            cell = describe(R.w, st)
            prog["steps"].append(strip(st))
            try:
                R.step(i, st)
            except ProgramTimeout:
                raise
            except Exception as ex:
                tb = traceback.format_exc(limit=4)
                R.findings.append(Finding("HARNESS", f"{type(ex).__name__}: {ex} :: {tb[-400:]}", i))
            prog["steps"][-1] = strip(st)
            res["cells"].append(cell)
            i += 1
    except ProgramTimeout:
        raise
    except Exception as ex:
        R.findings.append(Finding("HARNESS", f"setup: {type(ex).__name__}: {ex} :: {traceback.format_exc(limit=4)[-400:]}", -1))
    res["findings"] = [(f.prop, f.msg, f.step) for f in R.findings]
    res["known"] = R.stats.get("known", [])
    res["route_mismatches"] = R.route_mismatches
    res["program"] = prog
    res["nontrivial"] = nontrivial(R)
    res["wall"] = time.time() - t0
    res["stats"] = {k: v for k, v in R.stats.items() if k != "known"}
    return res


def valid_now(w, st):
    """a prelude step may have become inapplicable (e.g. the envelope was absorbed meanwhile)"""
    try:
        if st["kind"] == "struct" and st["what"] == "env_combine":
            e = w.envs[st["env"]]
            return e.state is None and e.fock.index is None and e.polarization.index is None and not e.measured
        if st["kind"] == "struct" and st["what"] == "env_reorder":
            return w.envs[st["env"]].state is not None
        if st.get("entry") == "env":
            t = w.subs[st["targets"][0]]
            return not getattr(t, "measured", False) and t.envelope is not None and not t.envelope.measured
        return True
    except Exception:
        return False


def run_fixed(prog):
    """replay a recorded program"""
    import signal
    signal.signal(signal.SIGALRM, _alarm)
    signal.alarm(PROGRAM_TIME_LIMIT)
    try:
        return _run_fixed(prog)
    except ProgramTimeout:
        _restart_lean()
        return {"findings": [], "known": [], "program": prog, "route_mismatches": [], "nontrivial": False, "stats": {}, "timeout": True}
    finally:
        signal.alarm(0)


def _run_fixed(prog):
    from engine import Runner, Finding
    R = Runner(_runner_lean)
    try:
        R.run(json.loads(json.dumps(prog)))
    except ProgramTimeout:
        raise
    except Exception as ex:
        R.findings.append(Finding("HARNESS", f"{type(ex).__name__}: {ex} :: {traceback.format_exc(limit=4)[-400:]}", -1))
    return {"findings": [(f.prop, f.msg, f.step) for f in R.findings], "known": R.stats.get("known", []), "program": prog, "route_mismatches": R.route_mismatches,
            "nontrivial": nontrivial(R), "stats": {k: v for k, v in R.stats.items() if k != "known"}}


def nontrivial(R):
    """a world is non-trivial if some block is entangled/multi-member or mixed"""
    try:
        from world import blocks
        from photon_weave.state.expansion_levels import ExpansionLevel as EL
        for b in blocks(R.w):
            if len(b["members"]) > 1 or b["level"] == EL.Matrix:
                return True
    except Exception:
        pass
    return False


def describe(w, st):
    """cell of a step: (kind/what/gate, entry, locations, levels)"""
    from world import dims_of
    t = [w.subs[s] for s in st.get("targets", [])]
    loc = ["dead" if getattr(x, "measured", False) else "own" if x.index is None else "env" if isinstance(x.index, int) else "ps" for x in t]
    lvl = [None if x.expansion_level is None else int(x.expansion_level) for x in t]
    name = st["kind"] + ":" + str(st.get("gate", st.get("what", "")))
    return [name, st.get("entry", "-"), loc, lvl]


def pool(nproc=None):
    nproc = nproc or min(16, os.cpu_count() or 4)
    ctx = mp.get_context("spawn")
    return ctx.Pool(nproc, initializer=_init)


if __name__ == "__main__":
    focus = sys.argv[1]
    n = int(sys.argv[2])
    nsteps = int(sys.argv[3]) if len(sys.argv) > 3 else 8
    base = int(sys.argv[4]) if len(sys.argv) > 4 else 0
    import collections
    cnt = collections.Counter()
    ex = {}
    t0 = time.time()
    with pool() as p:
        for r in p.imap_unordered(run_generated, [(base + s, focus, nsteps, True) for s in range(n)]):
            if not r["findings"]:
                cnt["ok"] += 1
            for f in r["findings"][:1]:
                cell = r["cells"][f[2]] if 0 <= f[2] < len(r["cells"]) else None
                key = f"{f[0]} | {cell[0] if cell else '-'} | {f[1][:110]}"
                cnt[key] += 1
                ex.setdefault(key, (r["seed"], cell, f[2]))
            for k in r["known"]:
                cnt["KNOWN " + k[1][:60]] += 1
            for m in r.get("route_mismatches", [])[:1]:
                key = f"ROUTE {m.get('kind')}:{m.get('what')} entry={m.get('entry')}"
                cnt[key] += 1
                ex.setdefault(key, (r["seed"], m.get("step"), str(m.get("model"))[:150], str(m.get("impl"))[:150]))
    for k, v in sorted(cnt.items(), key=lambda kv: -kv[1]):
        print(v, k, ex.get(k, ""))
    print("wall", time.time() - t0)
