"""State-validity (C07) and bookkeeping (C13) predicates evaluated on the real object graph."""
import numpy as np
from photon_weave.state.composite_envelope import CompositeEnvelope
from photon_weave.state.custom_state import CustomState
from photon_weave.state.expansion_levels import ExpansionLevel as EL
from photon_weave.state.fock import Fock
from photon_weave.state.polarization import Polarization, PolarizationLabel

from world import blocks, dims_of, ix, has

TOL = 1e-7


def check_valid_states(world, TOL=TOL):
    """C07: every stored state is a valid normalised state of its claimed form.
    Returns a list of problem strings."""
    bad = []
    for b in blocks(world):
        mem = b["members"]
        names = [f"{world.kind(m)}{world.sid(m)}" for m in mem]
        lvl = b["level"]
        arr = b["array"]
        for m in mem:
            if m.expansion_level != lvl:
                bad.append(f"member {world.kind(m)}{world.sid(m)} reports level {m.expansion_level}, its {b['kind']} block {names} reports {lvl}")
        if lvl is None:
            bad.append(f"block {names} has no expansion level")
            continue
        D = int(np.prod([dims_of(m) for m in mem]))
        if lvl == EL.Label:
            if b["kind"] != "own":
                bad.append(f"{b['kind']} block {names} at label level")
                continue
            m = mem[0]
            if isinstance(m, Polarization):
                if not isinstance(arr, PolarizationLabel):
                    bad.append(f"{names[0]}: label level but state is {type(arr).__name__}")
            else:
                if not (isinstance(arr, (int, np.integer)) and not isinstance(arr, bool)):
                    bad.append(f"{names[0]}: label level but state is {type(arr).__name__}")
                elif arr < 0 or (m.dimensions is not None and m.dimensions > 0 and arr >= m.dimensions):
                    bad.append(f"{names[0]}: label {arr} outside dimension {m.dimensions}")
            continue
        if isinstance(arr, (int, np.integer, PolarizationLabel)) or arr is None:
            bad.append(f"block {names}: level {lvl.name} but state is {type(arr).__name__}")
            continue
        a = np.asarray(arr)
        if lvl == EL.Vector:
            if a.shape != (D, 1):
                bad.append(f"block {names}: vector level but shape {a.shape}, member dimensions give {D}")
                continue
            nrm = float(np.linalg.norm(a))
            if abs(nrm - 1) > TOL:
                bad.append(f"block {names}: vector of norm {nrm:.9f}")
        else:
            if a.shape != (D, D):
                bad.append(f"block {names}: matrix level but shape {a.shape}, member dimensions give {D}")
                continue
            tr = complex(np.trace(a))
            if abs(tr - 1) > TOL:
                bad.append(f"block {names}: matrix of trace {tr:.9f}")
            if np.abs(a - a.conj().T).max() > TOL:
                bad.append(f"block {names}: matrix not Hermitian")
            else:
                ev = np.linalg.eigvalsh((a + a.conj().T) / 2)
                if ev.min() < -TOL:
                    bad.append(f"block {names}: matrix has eigenvalue {ev.min():.3e}")
    return bad


def check_bookkeeping(world):
    """C13: the object graph's bookkeeping is truthful. Returns a list of problem strings."""
    bad = []
    for s in world.live():
        nm = f"{world.kind(s)}{world.sid(s)}"
        idx = s.index
        places = 0
        if s.state is not None:
            places += 1
        env = getattr(s, "envelope", None)
        in_env = env is not None and env.state is not None and (env.fock is s or env.polarization is s) and isinstance(idx, int)
        # where is it really stored?
        stored_ps = []
        for h in world.handles:
            try:
                cont = CompositeEnvelope._containers[h.uid]
            except KeyError:
                bad.append(f"handle h{ix(world.handles, h)} has uid without container")
                continue
            for k, ps in enumerate(cont.states):
                for j, so in enumerate(ps.state_objs):
                    if so is s and not any(c is cont and kk == k for c, kk, _ in stored_ps):
                        stored_ps.append((cont, k, j))
        if idx is None:
            if s.state is None:
                bad.append(f"{nm}: index None but holds no state")
            if stored_ps:
                bad.append(f"{nm}: index None but listed in a product space")
        elif isinstance(idx, int):
            if s.state is not None:
                bad.append(f"{nm}: envelope index {idx} but still holds its own state")
            if env is None or env.state is None:
                bad.append(f"{nm}: envelope index {idx} but the envelope holds no state")
            elif idx not in (0, 1):
                bad.append(f"{nm}: envelope index {idx}")
            else:
                other = env.polarization if env.fock is s else env.fock
                if other.index == idx:
                    bad.append(f"{nm}: both members of the envelope have index {idx}")
            if stored_ps:
                bad.append(f"{nm}: envelope index but listed in a product space")
        else:
            if s.state is not None:
                bad.append(f"{nm}: product-space index {idx} but still holds its own state")
            ce = s.composite_envelope
            if ce is None:
                bad.append(f"{nm}: product-space index {idx} but no composite envelope")
            else:
                sts = ce.states
                if not (0 <= idx[0] < len(sts)) or not (0 <= idx[1] < len(sts[idx[0]].state_objs)) or sts[idx[0]].state_objs[idx[1]] is not s:
                    bad.append(f"{nm}: index {idx} does not name its place in the composite envelope")
            if len(stored_ps) != 1:
                bad.append(f"{nm}: stored in {len(stored_ps)} product spaces")
    # containers
    seen_cont = {}
    for hi, h in enumerate(world.handles):
        cont = CompositeEnvelope._containers.get(h.uid)
        if cont is None:
            continue
        seen_cont.setdefault(id(cont), (cont, []))[1].append(hi)
    for cid, (cont, his) in seen_cont.items():
        nm = "container(h" + ",h".join(map(str, his)) + ")"
        ids_ps = [id(p) for p in cont.states]
        if len(set(ids_ps)) != len(ids_ps):
            bad.append(f"{nm}: a product space is listed twice")
        for p in cont.states:
            if getattr(p, "container", cont) is not cont:
                bad.append(f"{nm}: a product space listed here points back to another container (its index refresh would use that one)")
            if len(p.state_objs) == 0:
                bad.append(f"{nm}: an empty product space is kept")
            for so in p.state_objs:
                ce = so.composite_envelope
                if ce is None or CompositeEnvelope._containers.get(ce.uid) is not cont:
                    bad.append(f"{nm}: {world.kind(so)}{world.sid(so)} in a product space does not point back to this composite")
        # every live member of a member envelope is registered exactly once (by identity)
        for e in cont.envelopes:
            for so in (e.fock, e.polarization):
                if getattr(so, "measured", False) or getattr(e, "measured", False):
                    continue
                k = sum(1 for x in cont.state_objs if x is so)
                if k != 1:
                    bad.append(f"{nm}: {world.kind(so)}{world.sid(so)} of member envelope e{ix(world.envs, e)} is registered {k} times in the container's subsystem list")
        ids_env = [id(e) for e in cont.envelopes]
        if len(set(ids_env)) != len(ids_env):
            bad.append(f"{nm}: an envelope is listed twice")
        for e in cont.envelopes:
            ce = e.composite_envelope
            if ce is None or CompositeEnvelope._containers.get(ce.uid) is not cont:
                bad.append(f"{nm}: member envelope e{ix(world.envs, e)} does not point back to this composite")
    # containers of different uids share no object
    conts = [c for c, _ in seen_cont.values()]
    for i in range(len(conts)):
        for j in range(i + 1, len(conts)):
            a, b = conts[i], conts[j]
            for x in a.state_objs:
                if has(b.state_objs, x):
                    bad.append(f"{world.kind(x)}{world.sid(x)} is a member of two different composite containers")
            for p in a.states:
                if any(p is q for q in b.states):
                    bad.append("a product space is shared by two different composite containers")
    return bad
