"""Directed cell matrix: one short program per (call kind, entry point, storage location, level) of a
single addressed subsystem, so that every such cell is exercised on *every* run of a check instead
of with some probability.

World of every program: two envelopes (e0: Fock |1> of dimension 3, polarization R; e1: Fock |0> of
dimension 2, polarization H), one custom state of dimension 3 in |1>, all registered in one composite.
sids: 0 = e0.fock, 1 = e0.polarization, 2 = e1.fock, 3 = e1.polarization, 4 = custom.

  location  own | env-ff (combined envelope, Fock first) | env-pf (polarization first) |
            ps0 (first member of a product space) | ps1 (second member) | ps2 (member of the *second*
            product space of the composite)
  level     vector | matrix-pure (contraction off, expanded) | matrix-mixed (a channel on a partner)
  entry     state | env | ce
All random matrices come from one RandomState per property, so the programs are the same on every run.
"""
import math
import numpy as np

from gen import rand_unitary, rand_kraus, mj

SETUP = {"envs": [{"fock": 1, "pol": "R", "fdim": 3}, {"fock": 0, "pol": "H", "fdim": 2}],
         "customs": [{"dim": 3, "label": 1}], "composites": [["e0", "e1", "c0"]]}
DIM = {0: 3, 1: 2, 2: 2, 3: 2, 4: 3}
LOCS = ["own", "env-ff", "env-pf", "ps0", "ps1", "ps2", "ps-from-env-pf"]
LEVELS = ["vector", "matrix-pure", "matrix-mixed"]


def superpose(rs, t):
    """put the target into a generic (complex) superposition, exactly"""
    if t in (1, 3):
        return {"kind": "op", "targets": [t], "entry": "state", "gate": "U3", "params": {"phi": 0.7 + 0.3 * t, "theta": 1.1 - 0.2 * t, "omega": 0.4}}
    if t == 4:
        return {"kind": "op", "targets": [4], "entry": "state", "gate": "CustomCustom", "U": mj(rand_unitary(rs, 3))}
    return {"kind": "op", "targets": [t], "entry": "state", "gate": "FockCustom", "U": mj(rand_unitary(rs, DIM[t]))}


def prepare(rs, t, loc, level):
    """steps that bring subsystem t to the location / level; returns (steps, partner sid or None)"""
    steps = [superpose(rs, t)]
    partner = None
    if loc in ("env-ff", "env-pf"):
        if t not in (0, 1):
            return None, None
        partner = 1 - t
        steps.append({"kind": "struct", "what": "env_combine", "env": 0})
        # entangle the two members of the envelope (a one-operator channel is a unitary)
        steps.append({"kind": "kraus", "targets": [0, 1], "entry": "env", "ops": [mj(rand_unitary(rs, 6))]})
        if loc == "env-pf":
            steps.append({"kind": "struct", "what": "env_reorder", "env": 0, "targets": [1, 0]})
        else:
            steps.append({"kind": "struct", "what": "env_reorder", "env": 0, "targets": [0, 1]})
    elif loc == "ps-from-env-pf":
        # the envelope is combined, stored polarization first, and only then absorbed into a product space
        if t not in (0, 1):
            return None, None
        partner = 1 - t
        steps.append({"kind": "struct", "what": "env_combine", "env": 0})
        steps.append({"kind": "kraus", "targets": [0, 1], "entry": "env", "ops": [mj(rand_unitary(rs, 6))]})
        steps.append({"kind": "struct", "what": "env_reorder", "env": 0, "targets": [1, 0]})
        steps.append({"kind": "struct", "what": "ce_combine", "h": 0, "targets": [t, 3], "nocheck": True})
    elif loc in ("ps0", "ps1", "ps2"):
        partner = 3 if t != 3 else 1
        if loc == "ps2":
            other = [x for x in (4, 1, 0) if x != t][:2]
            steps.append({"kind": "struct", "what": "ce_combine", "h": 0, "targets": [2, other[1]] if other[1] != partner else [2, other[0]]})
        pair = [t, partner] if loc != "ps1" else [partner, t]
        steps.append({"kind": "struct", "what": "ce_combine", "h": 0, "targets": pair})
        steps.append({"kind": "kraus", "targets": pair, "entry": "ce", "h": 0, "ops": [mj(rand_unitary(rs, DIM[pair[0]] * DIM[pair[1]]))]})
        steps.append({"kind": "struct", "what": "ce_reorder", "h": 0, "targets": pair})
    if level == "matrix-pure":
        steps.insert(0, {"kind": "struct", "what": "set_contraction", "on": False})
        en = "state" if loc == "own" else "env" if loc.startswith("env") else "ce"
        st = {"kind": "struct", "what": "expand", "entry": en, "targets": [t], "nocheck": loc == "ps-from-env-pf"}
        if en == "ce":
            st["h"] = 0
        steps.append(st)
        if loc == "own":
            steps.append(dict(st))  # label/vector -> matrix needs up to two requests
    elif level == "matrix-mixed":
        who = partner if partner is not None else t
        en = "state"
        steps.append({"kind": "kraus", "targets": [who], "entry": en, "ops": [mj(K) for K in rand_kraus(rs, DIM[who], 2)]})
    return steps, partner


def entries(t, loc):
    en = ["state", "ce"]
    if t != 4:
        en.insert(1, "env")
    return en


def with_entry(st, en):
    st = dict(st)
    st["entry"] = en
    if en == "ce":
        st["h"] = 0
    return st


def calls(rs, prop, t, loc, level):
    """the calls under test for this property on target t (without entry)"""
    d = DIM[t]
    out = []
    if prop in ("C01", "C07", "C13", "C20"):
        if t == 1:
            out.append({"kind": "op", "targets": [1], "gate": "U3", "params": {"phi": -2.2, "theta": 0.9, "omega": 3.3}})
            out.append({"kind": "op", "targets": [1], "gate": "PolCustom", "U": mj(rs.randn(2, 2) + 1j * rs.randn(2, 2))})
        elif t == 4:
            out.append({"kind": "op", "targets": [4], "gate": "CustomCustom", "U": mj(rs.randn(3, 3) + 1j * rs.randn(3, 3))})
        else:
            out.append({"kind": "op", "targets": [t], "gate": "PhaseShift", "params": {"phi": 1.234}})
            out.append({"kind": "op", "targets": [t], "gate": "Creation"})
            out.append({"kind": "op", "targets": [t], "gate": "Annihilation"})
    if prop in ("C06", "C07", "C20"):
        out.append({"kind": "kraus", "targets": [t], "ops": [mj(K) for K in rand_kraus(rs, d, 2)]})
    if prop in ("C09", "C20"):
        for des in (True, False):
            out.append({"kind": "povm", "targets": [t], "ops": [mj(K) for K in rand_kraus(rs, d, 2)], "destructive": des, "partial": True})
    if prop in ("C04", "C05", "C18") and not loc.startswith("env"):
        for sep, des in ((True, True), (True, False), (False, True)):
            out.append({"kind": "measure", "targets": [t], "sep": sep, "destructive": des})
    if prop == "C02":
        out.append({"kind": "trace_out", "targets": [t]})
    if prop in ("C10", "C07") and t in (0, 2):
        for delta in (2, 0, -1):
            out.append({"kind": "resize", "targets": [t], "dim": d + delta})
    if prop == "C08":
        out.append({"kind": "struct", "what": "expand", "targets": [t]})
        out.append({"kind": "struct", "what": "contract", "targets": [t]})
    if prop == "C17":
        K = rand_kraus(rs, d, 2)
        out.append({"kind": "invalid", "what": "kraus_not_tp", "targets": [t], "ops": [mj(K[0]), mj(0.5 * K[1])]})
        out.append({"kind": "invalid", "what": "kraus_wrong_size", "targets": [t], "ops": [mj(x) for x in rand_kraus(rs, d + 1, 2)]})
        out.append({"kind": "invalid", "what": "povm_wrong_size", "targets": [t], "ops": [mj(x) for x in rand_kraus(rs, d + 1, 2)]})
        out.append({"kind": "invalid", "what": "wrong_kind", "targets": [t], "gate": "X" if t in (0, 2) else "Creation"})
        if t not in (0, 2):
            out.append({"kind": "invalid", "what": "custom_wrong_size", "targets": [t], "gate": "PolCustom" if t in (1, 3) else "CustomCustom", "U": mj(rs.randn(d + 1, d + 1))})
        if t in (0, 2):
            out.append({"kind": "invalid", "what": "shrink_below_support", "targets": [t], "dim": 1})
    return out


def allowed(call, en, t, loc, level):
    """requests that the library documents as unsupported / that belong to a known finding are left out"""
    k = call["kind"]
    if k == "struct" and call.get("what") == "contract":
        if en == "ce":
            return False  # CompositeEnvelope.contract is a documented no-op
        if en == "env" and not (loc.startswith("env") and level != "vector"):
            return False
        if en == "state" and loc != "own" and not (t == 1 and loc.startswith("env") and level != "vector"):
            return False
    if k == "struct" and call.get("what") == "expand" and en == "ce" and not loc.startswith("ps"):
        return False
    if k == "measure" and en == "env" and (call.get("sep") or not call.get("destructive")):
        return False  # uncombined Envelope.measure ignores its flags (known finding)
    if k == "trace_out" and en == "ce" and not loc.startswith("ps"):
        return False
    if k == "trace_out" and level == "vector" and loc != "own":
        return False  # vector-level trace_out (known finding K-C02)
    if k in ("resize",) and level == "vector" and loc != "own":
        return False  # level estimate from vector-level trace_out (K-C01-guard): entangled vector states are left out
    if k == "op" and call.get("gate") in ("Creation", "Annihilation", "PhaseShift") and level == "vector" and loc != "own":
        return False  # same guard
    if k == "invalid" and call.get("what") == "shrink_below_support" and level == "vector" and loc != "own":
        return False
    return True


PAIR_LOCS = ["own-own", "env", "ps-same", "ps-same-rev", "ps-diff", "ps-own"]


def prepare_pair(rs, a, b, loc, level):
    """steps that bring the ordered pair (a, b) into a joint storage configuration"""
    steps = [superpose(rs, a), superpose(rs, b)]
    free = [x for x in (0, 1, 2, 3, 4) if x not in (a, b)]
    same_env = {a, b} == {0, 1}
    if loc == "env":
        # at least one of them inside the combined envelope e0 (stored polarization first)
        if not ({a, b} & {0, 1}):
            return None
        steps.append({"kind": "struct", "what": "env_combine", "env": 0})
        steps.append({"kind": "kraus", "targets": [0, 1], "entry": "env", "ops": [mj(rand_unitary(rs, 6))]})
        steps.append({"kind": "struct", "what": "env_reorder", "env": 0, "targets": [1, 0]})
    elif loc in ("ps-same", "ps-same-rev"):
        pair = [a, b] if loc == "ps-same" else [b, a]
        steps.append({"kind": "struct", "what": "ce_combine", "h": 0, "targets": pair + free[:1]})
        steps.append({"kind": "struct", "what": "ce_reorder", "h": 0, "targets": [free[0]] + pair})
    elif loc == "ps-diff":
        steps.append({"kind": "struct", "what": "ce_combine", "h": 0, "targets": [free[0], a]})
        steps.append({"kind": "struct", "what": "ce_combine", "h": 0, "targets": [b, free[1]]})
        steps.append({"kind": "kraus", "targets": [free[0], a], "entry": "ce", "h": 0, "ops": [mj(rand_unitary(rs, DIM[free[0]] * DIM[a]))]})
    elif loc == "ps-own":
        steps.append({"kind": "struct", "what": "ce_combine", "h": 0, "targets": [free[0], a]})
        steps.append({"kind": "kraus", "targets": [free[0], a], "entry": "ce", "h": 0, "ops": [mj(rand_unitary(rs, DIM[free[0]] * DIM[a]))]})
    if level == "matrix-pure":
        steps.insert(0, {"kind": "struct", "what": "set_contraction", "on": False})
        for t in (a, b):
            en = "ce" if loc.startswith("ps") and not (loc == "ps-own" and t == b) else "env" if (loc == "env" and t in (0, 1)) else "state"
            st = {"kind": "struct", "what": "expand", "entry": en, "targets": [t]}
            if en == "ce":
                st["h"] = 0
            steps.append(st)
    elif level == "matrix-mixed":
        steps.append({"kind": "kraus", "targets": [a], "entry": "state", "ops": [mj(K) for K in rand_kraus(rs, DIM[a], 2)]})
    return steps


def pair_calls(rs, prop, a, b, loc):
    d = DIM[a] * DIM[b]
    out = []
    both_pol = a in (1, 3) and b in (1, 3)
    both_fock = a in (0, 2) and b in (0, 2)
    if prop in ("C03", "C20", "C13") and both_pol:
        for g in ("CX", "CZ", "SWAP"):
            out.append(({"kind": "op", "targets": [a, b], "gate": g}, ["ce"]))
    if prop in ("C03", "C11") and both_fock:
        for eta in (0.7, -0.9, 3.6):
            out.append(({"kind": "op", "targets": [a, b], "gate": "BS", "params": {"eta": eta}}, ["ce"]))
    if prop == "C03" and not (a in (0, 2) or b in (0, 2)):
        fa = rand_unitary(rs, DIM[a])
        fb = rs.randn(DIM[b], DIM[b]) + 1j * rs.randn(DIM[b], DIM[b])
        names = {1: "Polarization", 3: "Polarization", 4: "CustomState"}
        out.append(({"kind": "op", "targets": [a, b], "gate": "Expr", "factors": [mj(fa), mj(fb)], "types": [names[a], names[b]], "form": "flat"}, ["ce"]))
    ens = ["ce"] + (["env"] if {a, b} == {0, 1} else [])
    if prop == "C06":
        out.append(({"kind": "kraus", "targets": [a, b], "ops": [mj(K) for K in rand_kraus(rs, d, 2)]}, ens))
    if prop == "C09" and d <= 9:
        for des in (True, False):
            out.append(({"kind": "povm", "targets": [a, b], "ops": [mj(K) for K in rand_kraus(rs, d, 2)], "destructive": des}, ens))
    if prop == "C02" and loc.startswith("ps") and loc != "ps-own":
        out.append(({"kind": "trace_out", "targets": [a, b]}, ["ce"]))
    if prop in ("C04", "C05", "C18") and loc != "env":
        for sep, des in ((True, True), (True, False)):
            out.append(({"kind": "measure", "targets": [a, b], "sep": sep, "destructive": des}, ["ce"]))
    return out


def pair_programs(prop):
    rs = np.random.RandomState(2000 + sum(map(ord, prop)))
    progs = []
    for (a, b) in ((0, 1), (1, 0), (1, 3), (3, 1), (1, 4), (0, 2), (2, 0), (4, 1)):
        for loc in PAIR_LOCS:
            for level in LEVELS:
                prep = prepare_pair(rs, a, b, loc, level)
                if prep is None:
                    continue
                for call, ens in pair_calls(rs, prop, a, b, loc):
                    if call["kind"] == "op" and call.get("gate") == "BS" and level == "vector" and loc != "own-own":
                        continue  # Fock level estimate of an entangled vector state (K-C01-guard)
                    if call["kind"] == "trace_out" and level == "vector":
                        continue  # K-C02
                    for en in ens:
                        progs.append({"seed": 7, "contraction": True, "focus": prop,
                                      "cell": f"{call['kind']}:{call.get('gate', '')}|{en}|t{a}+{b}|{loc}|{level}",
                                      "setup": SETUP, "steps": prep + [with_entry(call, en)]})
    return progs


def triple_programs(prop):
    """three operands spread over two product spaces ([1, 4] and [3, 2]), requested in orders that
    differ from the storage order"""
    if prop not in ("C02", "C06", "C20"):
        return []
    rs = np.random.RandomState(3000 + sum(map(ord, prop)))
    progs = []
    for order in ((4, 3, 1), (3, 4, 1), (2, 1, 3), (1, 3, 4), (3, 1, 4), (1, 2, 4)):
        for level in ("matrix-pure", "matrix-mixed"):
            steps = [superpose(rs, t) for t in (1, 3, 4)]
            if level == "matrix-pure":
                steps.insert(0, {"kind": "struct", "what": "set_contraction", "on": False})
            steps.append({"kind": "struct", "what": "ce_combine", "h": 0, "targets": [1, 4]})
            steps.append({"kind": "struct", "what": "ce_combine", "h": 0, "targets": [3, 2]})
            steps.append({"kind": "kraus", "targets": [1, 4], "entry": "ce", "h": 0, "ops": [mj(rand_unitary(rs, 6))]})
            steps.append({"kind": "kraus", "targets": [3, 2], "entry": "ce", "h": 0, "ops": [mj(rand_unitary(rs, 4))]})
            if level == "matrix-pure":
                steps.append({"kind": "struct", "what": "expand", "entry": "ce", "h": 0, "targets": [1]})
                steps.append({"kind": "struct", "what": "expand", "entry": "ce", "h": 0, "targets": [3]})
            else:
                steps.append({"kind": "kraus", "targets": [1], "entry": "state", "ops": [mj(K) for K in rand_kraus(rs, 2, 2)]})
                steps.append({"kind": "kraus", "targets": [2], "entry": "state", "ops": [mj(K) for K in rand_kraus(rs, 2, 2)]})
            T = list(order)
            d = int(np.prod([DIM[t] for t in T]))
            if prop in ("C02", "C20"):
                call = {"kind": "trace_out", "targets": T, "entry": "ce", "h": 0}
            else:
                call = {"kind": "kraus", "targets": T, "entry": "ce", "h": 0, "ops": [mj(K) for K in rand_kraus(rs, d, 2)]}
            progs.append({"seed": 7, "contraction": True, "focus": prop, "cell": f"{call['kind']}:|ce|t{'+'.join(map(str, T))}|two-ps|{level}",
                          "setup": SETUP, "steps": steps + [call]})
    return progs


def envelope_measure_programs(prop):
    """`env.measure()` on a combined envelope is a known finding (K-C04 / K-C05) for most layouts and
    levels; the sub-cell that is correct in the repaired tree -- whole envelope, destructive, Fock
    first, density-matrix level, pure entangled state -- is exercised here so that it stays correct"""
    if prop not in ("C04", "C05"):
        return []
    rs = np.random.RandomState(4000 + sum(map(ord, prop)))
    progs = []
    for t in (0, 1):
        for k in range(3):
            prep, _ = prepare(rs, t, "env-ff", "matrix-pure")
            st = {"kind": "measure", "targets": [0, 1], "entry": "env", "sep": False, "destructive": True, "noargs": True}
            progs.append({"seed": 7 + k, "contraction": True, "focus": prop, "cell": f"measure:whole-envelope|env|t0+1|env-ff|matrix-pure|{k}",
                          "setup": SETUP, "steps": prep + [st]})
    return progs


def reuse_programs(prop):
    """one Operation object applied twice: an Expression operation whose context entries depend on the
    dimension list, on Fock spaces of dimensions (3, 2) and then -- the same object -- on (2, 3)"""
    if prop not in ("C01", "C03"):
        return []
    rs = np.random.RandomState(5000 + sum(map(ord, prop)))
    progs = []
    for loc in ("own-own", "ps-same", "ps-diff"):
        for level in LEVELS:
            prep = prepare_pair(rs, 0, 2, loc, level)
            chi = 0.9
            first = {"kind": "op", "gate": "ExprFock", "targets": [0, 2], "entry": "ce", "h": 0, "params": {"chi": chi}, "reuse": True}
            second = {"kind": "op", "gate": "ExprFock", "targets": [2, 0], "entry": "ce", "h": 0, "params": {"chi": chi}, "reuse": True}
            if level == "vector" and loc != "own-own":
                continue  # K-C01-guard
            progs.append({"seed": 7, "contraction": True, "focus": prop, "cell": f"op:ExprFock-reused|ce|t0+2|{loc}|{level}",
                          "setup": SETUP, "steps": prep + [first, second]})
    return progs


def foreign_programs(prop):
    """requests through an envelope / composite envelope that name a subsystem of *another* envelope /
    composite which holds exactly the same value as the corresponding member (labels, and equal vectors)"""
    if prop != "C17":
        return []
    rs = np.random.RandomState(6000)
    setup = {"envs": [{"fock": 1, "pol": "R", "fdim": 2}, {"fock": 1, "pol": "R", "fdim": 2}], "customs": [], "composites": [["e0"], ["e1"]]}
    progs = []
    for level in ("label", "vector"):
        prep = []
        if level == "vector":
            prep = [{"kind": "struct", "what": "expand", "entry": "state", "targets": [t]} for t in (0, 1, 2, 3)]
        for how, calls_ in (("env", ["apply_kraus", "measure_POVM", "apply_operation", "trace_out", "measure", "reorder"]),
                            ("ce", ["apply_kraus", "measure_POVM", "apply_operation", "trace_out", "measure", "combine", "reorder", "resize_fock"])):
            for c in calls_:
                for t in (2, 3):
                    if c == "resize_fock" and t == 3:
                        continue
                    st = {"kind": "invalid", "what": "foreign_member", "how": how, "env": 0, "h": 0, "own": 0, "targets": [t], "call": c,
                          "ops": [mj(K) for K in rand_kraus(rs, 2, 2)]}
                    progs.append({"seed": 7, "contraction": False, "focus": prop, "cell": f"invalid:foreign_member:{c}|{how}|t{t}|equal-{level}",
                                  "setup": setup, "steps": prep + [st]})
    return progs


def twin_programs(prop):
    """calls that address two *different* Fock spaces holding exactly the same value (label, vector or
    density matrix), own-stored or in one product space"""
    if prop != "C18":
        return []
    rs = np.random.RandomState(7000)
    setup = {"envs": [{"fock": 1, "pol": "R", "fdim": 2}, {"fock": 1, "pol": "R", "fdim": 2}], "customs": [], "composites": [["e0", "e1"]]}
    progs = []
    for level in ("label", "vector", "matrix"):
        prep = []
        if level != "label":
            prep = [{"kind": "struct", "what": "set_contraction", "on": False}]
            prep += [{"kind": "struct", "what": "expand", "entry": "state", "targets": [t]} for t in (0, 2)]
        if level == "matrix":
            prep += [{"kind": "struct", "what": "expand", "entry": "state", "targets": [t]} for t in (0, 2)]
        calls_ = [{"kind": "kraus", "targets": [0, 2], "entry": "ce", "h": 0, "ops": [mj(K) for K in rand_kraus(rs, 4, 2)]},
                  {"kind": "povm", "targets": [0, 2], "entry": "ce", "h": 0, "ops": [mj(K) for K in rand_kraus(rs, 4, 2)], "destructive": False},
                  {"kind": "op", "gate": "BS", "targets": [0, 2], "entry": "ce", "h": 0, "params": {"eta": 0.6}},
                  {"kind": "struct", "what": "ce_combine", "h": 0, "targets": [0, 2]},
                  {"kind": "measure", "targets": [0, 2], "entry": "ce", "h": 0, "sep": True, "destructive": False},
                  {"kind": "measure", "targets": [2, 0], "entry": "ce", "h": 0, "sep": True, "destructive": True},
                  {"kind": "op", "gate": "CX", "targets": [1, 3], "entry": "ce", "h": 0},
                  {"kind": "kraus", "targets": [3, 1], "entry": "ce", "h": 0, "ops": [mj(K) for K in rand_kraus(rs, 4, 2)]}]
        for c in calls_:
            progs.append({"seed": 7, "contraction": level == "label", "focus": prop, "cell": f"{c['kind']}:{c.get('gate', c.get('what', ''))}|ce|twins|own|{level}",
                          "setup": setup, "steps": prep + [c]})
    return progs


def combine_programs(prop):
    """a combine that has to lift one operand: a vector-level subsystem with complex amplitudes joined with
    a partner that is already a (pure or mixed) density matrix -- through the composite and, for the two
    members of one envelope, through the envelope"""
    if prop not in ("C02", "C08"):
        return []
    rs = np.random.RandomState(8000 + sum(map(ord, prop)))
    progs = []
    for (a, b) in ((0, 3), (1, 2), (4, 1), (0, 1), (1, 0), (2, 4)):
        for kind in ("matrix-mixed", "matrix-pure"):
            steps = [superpose(rs, a), superpose(rs, b)]
            if kind == "matrix-pure":
                steps.insert(0, {"kind": "struct", "what": "set_contraction", "on": False})
                steps += [{"kind": "struct", "what": "expand", "entry": "state", "targets": [b]}] * 2
            else:
                steps.append({"kind": "kraus", "targets": [b], "entry": "state", "ops": [mj(K) for K in rand_kraus(rs, DIM[b], 2)]})
            joins = [{"kind": "struct", "what": "ce_combine", "h": 0, "targets": [a, b]}, {"kind": "struct", "what": "ce_combine", "h": 0, "targets": [b, a]}]
            if {a, b} == {0, 1}:
                joins.append({"kind": "struct", "what": "env_combine", "env": 0})
            for j in joins:
                progs.append({"seed": 7, "contraction": True, "focus": prop, "cell": f"struct:{j['what']}|-|t{a}(vector)+{b}({kind})",
                              "setup": SETUP, "steps": steps + [j]})
    return progs


def special_programs(prop):
    """single hand-built situations that random amplitudes do not reach"""
    progs = []
    if prop in ("C17", "C10"):
        # (|0> + i|1> - |2>)/sqrt3 : the squares of the amplitudes that a shrink to one level would cut
        # cancel (i^2 + (-1)^2 = 0); the request must be refused
        w3 = np.exp(2j * np.pi / 3)
        F3 = np.array([[1, 1, 1], [1, w3, w3 ** 2], [1, w3 ** 2, w3 ** 4]]) / np.sqrt(3)
        setup = {"envs": [{"fock": 0, "pol": "H", "fdim": 3}], "customs": [], "composites": [["e0"]]}
        for en in ("state", "env", "ce"):
            for dim in (1, 2):
                steps = [{"kind": "op", "targets": [0], "entry": "state", "gate": "FockCustom", "U": mj(F3)},
                         {"kind": "op", "targets": [0], "entry": "state", "gate": "PhaseShift", "params": {"phi": np.pi / 2}},
                         with_entry({"kind": "invalid", "what": "shrink_below_support", "targets": [0], "dim": dim}, en)]
                progs.append({"seed": 7, "contraction": True, "focus": prop, "cell": f"invalid:shrink-quadrature|{en}|t0|own|vector|{dim}", "setup": setup, "steps": steps})
    if prop == "C10":
        # displacement of a high number state (almost no vacuum component afterwards), both levels
        for n, a in ((16, 0.5), (20, 0.6)):
            setup = {"envs": [{"fock": n, "pol": "H", "fdim": n + 1}], "customs": [], "composites": []}
            for level in ("vector", "matrix"):
                steps = [{"kind": "struct", "what": "set_contraction", "on": False}, {"kind": "struct", "what": "expand", "entry": "state", "targets": [0]}]
                if level == "matrix":
                    steps.append({"kind": "struct", "what": "expand", "entry": "state", "targets": [0]})
                steps.append({"kind": "op", "targets": [0], "entry": "state", "gate": "Displace", "params": {"alpha_re": a, "alpha_im": 0.0}})
                progs.append({"seed": 7, "contraction": False, "focus": prop, "cell": f"op:Displace|state|t0|own|{level}|n={n}", "setup": setup, "steps": steps})
    if prop in ("C10", "C17"):
        # (|0> + |2> - |3>)/sqrt3 : the amplitudes that a shrink to two levels would cut cancel when summed
        v = np.array([1, 0, 1, -1], dtype=complex) / np.sqrt(3)
        e0 = np.array([1, 0, 0, 0], dtype=complex)
        u_ = (e0 - v) / np.linalg.norm(e0 - v)
        Hh = np.eye(4) - 2 * np.outer(u_, u_.conj())  # Householder reflection: H e0 = v
        setup = {"envs": [{"fock": 0, "pol": "H", "fdim": 4}], "customs": [], "composites": [["e0"]]}
        for en in ("state", "env", "ce"):
            for level in ("vector", "matrix"):
                steps = [{"kind": "struct", "what": "set_contraction", "on": False},
                         {"kind": "op", "targets": [0], "entry": "state", "gate": "FockCustom", "U": mj(Hh)}]
                if level == "matrix":
                    steps.append({"kind": "struct", "what": "expand", "entry": "state", "targets": [0]})
                steps.append(with_entry({"kind": "invalid", "what": "shrink_below_support", "targets": [0], "dim": 2}, en))
                progs.append({"seed": 7, "contraction": False, "focus": prop, "cell": f"invalid:shrink-cancelling-sum|{en}|t0|own|{level}", "setup": setup, "steps": steps})
    if prop == "C17":
        # a composite-level request naming a live subsystem of a mixed product space *followed by* a destroyed one
        rs = np.random.RandomState(9300)
        for c in ("combine", "kraus", "trace_out"):
            steps = [superpose(rs, 1), superpose(rs, 3),
                     {"kind": "struct", "what": "ce_combine", "h": 0, "targets": [1, 3]},
                     {"kind": "op", "gate": "CX", "targets": [1, 3], "entry": "ce", "h": 0},
                     {"kind": "kraus", "targets": [3], "entry": "state", "ops": [mj(K) for K in rand_kraus(rs, 2, 2)]},
                     {"kind": "measure", "targets": [2], "entry": "state", "sep": True, "destructive": True},
                     {"kind": "invalid", "what": "destroyed_operand", "h": 0, "targets": [1, 2], "call": c},
                     {"kind": "op", "gate": "CZ", "targets": [3, 1], "entry": "ce", "h": 0}]
            progs.append({"seed": 7, "contraction": True, "focus": prop, "cell": f"invalid:destroyed_operand:{c}|ce|t1+dead2|ps|matrix-mixed", "setup": SETUP, "steps": steps})
    if prop in ("C17", "C05"):
        # a destroyed subsystem named on its own, through every entry point, for every kind of request; its envelope
        # partner alive (own state / member of a product space) and usable afterwards
        rs = np.random.RandomState(9400)
        reqs = [{"kind": "measure", "targets": [0], "sep": sp, "destructive": d_} for sp in (False, True) for d_ in (True, False)]
        reqs += [{"kind": "op", "gate": "Creation", "targets": [0]},
                 {"kind": "kraus", "targets": [0], "ops": [mj(np.eye(3))]},
                 {"kind": "povm", "targets": [0], "ops": [mj(np.eye(3))], "destructive": True}]
        for loc in ("own", "ps"):
            for en in ("state", "env", "ce"):
                for q in reqs:
                    steps = [superpose(rs, 1), superpose(rs, 3),
                             {"kind": "measure", "targets": [0], "entry": "state", "sep": True, "destructive": True}]
                    if loc == "ps":
                        steps.append({"kind": "struct", "what": "ce_combine", "h": 0, "targets": [1, 3]})
                    steps.append(with_entry(dict(q), en))
                    steps.append({"kind": "op", "gate": "CZ", "targets": [3, 1], "entry": "ce", "h": 0})
                    tag = q["kind"] + ("" if q["kind"] != "measure" else f":sep={q['sep']}:des={q['destructive']}")
                    progs.append({"seed": 7, "contraction": True, "focus": prop, "cell": f"destroyed:{tag}|{en}|dead0|partner-{loc}|vector", "setup": SETUP, "steps": steps})
    if prop in ("C04", "C05", "C06", "C09"):
        # three members at density-matrix level whose storage was rotated cyclically by an earlier request
        rs = np.random.RandomState(9100 + sum(map(ord, prop)))
        for order in ((3, 4, 1), (4, 1, 3)):
            steps = [superpose(rs, t) for t in (1, 3, 4)]
            steps.append({"kind": "struct", "what": "ce_combine", "h": 0, "targets": [1, 3, 4]})
            steps.append({"kind": "kraus", "targets": [1, 3, 4], "entry": "ce", "h": 0, "ops": [mj(rand_unitary(rs, 12))]})
            steps.append({"kind": "kraus", "targets": [4], "entry": "state", "ops": [mj(K) for K in rand_kraus(rs, 3, 2)]})
            # first a known storage order, then a cyclic rotation of it (a permutation that is not its own inverse)
            steps.append({"kind": "struct", "what": "ce_reorder", "h": 0, "targets": [1, 3, 4]})
            steps.append({"kind": "struct", "what": "ce_reorder", "h": 0, "targets": list(order), "nocheck": True})
            if prop in ("C04", "C05"):
                calls_ = [{"kind": "measure", "targets": [t], "entry": "ce", "h": 0, "sep": True, "destructive": d_} for t in (1, 4) for d_ in (True, False)]
            elif prop == "C06":
                calls_ = [{"kind": "kraus", "targets": [t], "entry": "ce", "h": 0, "ops": [mj(K) for K in rand_kraus(rs, DIM[t], 2)]} for t in (1, 3, 4)]
            else:
                calls_ = [{"kind": "povm", "targets": [t], "entry": "ce", "h": 0, "ops": [mj(K) for K in rand_kraus(rs, DIM[t], 2)], "destructive": False} for t in (1, 4)]
            for c in calls_:
                progs.append({"seed": 7, "contraction": True, "focus": prop, "cell": f"{c['kind']}:|ce|t{c['targets'][0]}|ps-rotated{order}|matrix-mixed",
                              "setup": SETUP, "steps": steps + [c]})
    if prop == "C05":
        # continuation after a measurement that shrinks (but does not empty) a product space: the survivor
        # Fock space is resized by the next operation
        rs = np.random.RandomState(9200)
        for des in (True, False):
            for en in ("state", "ce"):
                steps = [superpose(rs, 0), superpose(rs, 2), superpose(rs, 3),
                         {"kind": "struct", "what": "ce_combine", "h": 0, "targets": [0, 2, 3]},
                         {"kind": "kraus", "targets": [0, 2, 3], "entry": "ce", "h": 0, "ops": [mj(rand_unitary(rs, 12))]},
                         {"kind": "struct", "what": "ce_reorder", "h": 0, "targets": [0, 2, 3]},
                         {"kind": "measure", "targets": [0], "entry": "ce", "h": 0, "sep": True, "destructive": des},
                         with_entry({"kind": "op", "targets": [2], "gate": "Creation"}, en),
                         {"kind": "op", "gate": "CX", "targets": [3, 1], "entry": "ce", "h": 0}]
                progs.append({"seed": 7, "contraction": True, "focus": prop, "cell": f"measure-then-Creation|{en}|t0 then t2|ps|vector|des={des}", "setup": SETUP, "steps": steps})
    if prop == "C03":
        # three members at density-matrix level, storage rotated cyclically, then a two-operand gate
        rs = np.random.RandomState(9000)
        for order in ((3, 4, 1), (4, 1, 3)):
            for level in ("matrix-pure", "matrix-mixed"):
                steps = [superpose(rs, t) for t in (1, 3, 4)]
                if level == "matrix-pure":
                    steps.insert(0, {"kind": "struct", "what": "set_contraction", "on": False})
                steps.append({"kind": "struct", "what": "ce_combine", "h": 0, "targets": [1, 3, 4]})
                steps.append({"kind": "kraus", "targets": [1, 3, 4], "entry": "ce", "h": 0, "ops": [mj(rand_unitary(rs, 12))]})
                if level == "matrix-pure":
                    steps.append({"kind": "struct", "what": "expand", "entry": "ce", "h": 0, "targets": [1]})
                else:
                    steps.append({"kind": "kraus", "targets": [4], "entry": "state", "ops": [mj(K) for K in rand_kraus(rs, 3, 2)]})
                steps.append({"kind": "struct", "what": "ce_reorder", "h": 0, "targets": [1, 3, 4]})
                steps.append({"kind": "struct", "what": "ce_reorder", "h": 0, "targets": list(order), "nocheck": True})
                for g, T in (("CX", [1, 3]), ("CX", [3, 1]), ("CZ", [1, 3])):
                    progs.append({"seed": 7, "contraction": True, "focus": prop, "cell": f"op:{g}|ce|t{T[0]}+{T[1]}|ps-rotated{order}|{level}",
                                  "setup": SETUP, "steps": steps + [{"kind": "op", "gate": g, "targets": T, "entry": "ce", "h": 0}]})
    return progs


def cell_programs(prop, seed=0):
    return (special_programs(prop) + combine_programs(prop) + foreign_programs(prop) + twin_programs(prop) + single_programs(prop) + pair_programs(prop) + triple_programs(prop) + envelope_measure_programs(prop)
            + reuse_programs(prop) + free_programs(prop))


def single_programs(prop, seed=0):
    rs = np.random.RandomState(1000 + sum(map(ord, prop)))
    progs = []
    for t in (0, 1, 4):
        for loc in LOCS:
            for level in LEVELS:
                for en in entries(t, loc):
                    prep, partner = prepare(rs, t, loc, level)
                    if prep is None:
                        continue
                    for call in calls(rs, prop, t, loc, level):
                        if not allowed(call, en, t, loc, level):
                            continue
                        st = with_entry(call, en)
                        progs.append({"seed": 7, "contraction": True, "focus": prop, "cell": f"{call['kind']}:{call.get('gate', call.get('what', ''))}|{en}|t{t}|{loc}|{level}",
                                      "setup": SETUP, "steps": prep + [st]})
    return progs


SETUP_FREE = {"envs": [{"fock": 1, "pol": "R", "fdim": 3}, {"fock": 0, "pol": "H", "fdim": 2}],
              "customs": [{"dim": 3, "label": 1}], "composites": []}


def free_programs(prop):
    """the same single-target cells in a world *without* any composite envelope: requests on a member of an
    envelope are then served by the envelope's own code instead of being forwarded to the composite"""
    rs = np.random.RandomState(1500 + sum(map(ord, prop)))
    progs = []
    for t in (0, 1, 4):
        for loc in ("own", "env-ff", "env-pf"):
            for level in LEVELS:
                for en in ("state", "env"):
                    if t == 4 and en == "env":
                        continue
                    prep, partner = prepare(rs, t, loc, level)
                    if prep is None:
                        continue
                    for call in calls(rs, prop, t, loc, level):
                        if not allowed(call, en, t, loc, level):
                            continue
                        st = with_entry(call, en)
                        progs.append({"seed": 7, "contraction": True, "focus": prop,
                                      "cell": f"{call['kind']}:{call.get('gate', call.get('what', ''))}|{en}|t{t}|{loc}|{level}|no-composite",
                                      "setup": SETUP_FREE, "steps": prep + [st]})
    return progs


if __name__ == "__main__":
    import sys, collections
    for p in sys.argv[1:]:
        ps = special_programs(p) + combine_programs(p)
        print(p, len(ps), collections.Counter(x["cell"].split("|")[0] for x in ps))
