"""Online generator of structured, mostly-valid programs.  Every random choice comes from one
`random.Random(seed)`; the generated program is a plain JSON object that replays exactly.

The generator looks at the current world (public attributes only) to pick applicable steps, so
that programs reach entangled / mixed states in many storage layouts instead of dying early.
"""
import math
import numpy as np

from world import *  # noqa

POL1 = ["X", "Y", "Z", "H", "S", "T", "SX", "RX", "RY", "RZ", "U3", "PolCustom"]
FOCK1 = ["Creation", "Annihilation", "PhaseShift", "FockIdentity", "Displace", "Squeeze"]


def rand_unitary(rs, d):
    a = rs.randn(d, d) + 1j * rs.randn(d, d)
    q, r = np.linalg.qr(a)
    return q * (np.diag(r) / np.abs(np.diag(r)))


def rand_kraus(rs, D, k):
    """k Kraus operators on dimension D from a random isometry (unitary dilation)"""
    u = rand_unitary(rs, D * k)
    return [u[j * D:(j + 1) * D, :D] for j in range(k)]


def mj(m):
    return [[[float(np.real(x)), float(np.imag(x))] for x in row] for row in np.asarray(m)]


class Gen:
    CAP = 160  # bound on the joint Hilbert-space dimension of a program's world (spec cost ~ D^2)

    def joint_dim(self, w):
        return int(np.prod([dims_of(s) for s in w.live()])) if w.live() else 1

    def __init__(self, rng, focus="C01", avoid_known=True):
        self.rng = rng
        self.focus = focus
        self.avoid_known = avoid_known
        self.rs = np.random.RandomState(rng.randrange(2**31))

    # ---- set-up -----------------------------------------------------------------------------
    def setup(self):
        r = self.rng
        nenv = r.choice([1, 2, 2, 2, 3])
        ncs = r.choice([0, 0, 1, 1, 2]) if nenv < 3 else r.choice([0, 0, 1])
        if self.focus in ("C11",):
            nenv, ncs = r.choice([2, 2, 3]), r.choice([0, 0, 1])
        envs = []
        for _ in range(nenv):
            e = {"fock": (r.choice([0, 0, 1, 1, 2]) if nenv < 3 else r.choice([0, 0, 1])), "pol": r.choice(["H", "V", "R", "L"])}
            if r.random() < 0.3:
                e["fdim"] = e["fock"] + r.choice([1, 2, 3] if nenv < 3 else [1, 2])
            envs.append(e)
        customs = [{"dim": r.choice([1, 2, 2, 3, 3, 3, 4, 5] if nenv < 3 else [1, 2, 3]), "label": 0} for _ in range(ncs)]
        for c in customs:
            c["label"] = r.randrange(c["dim"])
        refs = [f"e{i}" for i in range(nenv)] + [f"c{i}" for i in range(ncs)]
        comps = []
        mode = r.random()
        if mode < 0.7 or len(refs) == 1:
            comps = [refs]
        elif mode < 0.85 and len(refs) >= 2:
            k = r.randrange(1, len(refs))
            comps = [refs[:k], refs[k:]]
        else:
            comps = []
        if self.focus == "C13" and len(refs) >= 2 and r.random() < 0.6:
            k = r.randrange(1, len(refs))
            comps = [refs[:k], refs[k:]]
        if self.focus == "C18" and nenv >= 2 and r.random() < 0.5:
            # two composites whose Fock spaces hold equal values, merged later
            k = r.randrange(1, nenv)
            comps = [refs[:k], refs[k:]]
            lab = r.choice([0, 1, 1, 2])
            for e in envs:
                e["fock"] = lab
                e.pop("fdim", None)
        return {"envs": envs, "customs": customs, "composites": comps}

    # ---- helpers ----------------------------------------------------------------------------
    def handle_of(self, w, s):
        """index of a handle whose container lists subsystem s, or None"""
        for hi, h in enumerate(w.handles):
            if has(h.state_objs, s):
                return hi
        return None

    def live(self, w, cls=None):
        return [s for s in w.live() if cls is None or isinstance(s, cls)]

    def pick(self, cands):
        """choose a target, preferring subsystems stored in an envelope / product space and at
        density-matrix level (the own-state label cells are reached anyway)"""
        r = self.rng
        wts = []
        for s in cands:
            x = 1.0
            if s.index is not None:
                x *= 3.0
            if s.expansion_level == EL.Matrix:
                x *= 2.0
            wts.append(x)
        return r.choices(cands, wts)[0]

    def loc(self, s):
        return "own" if s.index is None else "env" if isinstance(s.index, int) else "ps"

    def entries_for(self, w, s):
        en = ["state"]
        if not isinstance(s, CustomState) and not s.envelope.measured:
            en.append("env")
        if self.handle_of(w, s) is not None:
            en.append("ce")
        return en

    def in_combined_env(self, s):
        return isinstance(s.index, int)

    # ---- step constructors --------------------------------------------------------------------
    def op1(self, w):
        r = self.rng
        cands = self.live(w)
        if not cands:
            return None
        t = self.pick(cands)
        sid = w.sid(t)
        en = r.choice(self.entries_for(w, t))
        st = {"kind": "op", "targets": [sid], "entry": en}
        if en == "ce":
            st["h"] = self.handle_of(w, t)
        if isinstance(t, Polarization):
            g = r.choice(POL1)
            st["gate"] = g
            if g in ("RX", "RY", "RZ"):
                st["params"] = {"theta": r.choice([r.uniform(-4 * math.pi, 4 * math.pi), r.choice([0.0, math.pi / 2, -math.pi, 2 * math.pi, 0.3])])}
            elif g == "U3":
                st["params"] = {"phi": r.uniform(-4, 4), "theta": r.uniform(-4, 4), "omega": r.uniform(-4, 4)}
            elif g == "PolCustom":
                m = self.rs.randn(2, 2) + 1j * self.rs.randn(2, 2)
                st["U"] = mj(m)
        elif isinstance(t, Fock):
            g = r.choice(FOCK1 if self.focus in ("C10", "C12") else FOCK1[:4] + ["Creation", "PhaseShift"] + (["Displace", "Squeeze"] if r.random() < 0.25 else []))
            st["gate"] = g
            if not self.guard_ok(w, t):
                return None
            D, d = self.joint_dim(w), dims_of(t)
            rest = D // max(d, 1)
            if g == "Creation" and rest * (max(d, self.support(t) + 2) + 1) > self.CAP:
                return None
            if g in ("Displace", "Squeeze") and rest * (d + 22) > self.CAP:
                return None
            if g == "PhaseShift":
                st["params"] = {"phi": r.uniform(-4, 4)}
            elif g == "Displace":
                a = r.uniform(0.1, 0.9)
                ph = r.uniform(0, 2 * math.pi)
                st["params"] = {"alpha_re": a * math.cos(ph), "alpha_im": a * math.sin(ph)}
            elif g == "Squeeze":
                a = r.uniform(0.1, 0.5)
                ph = r.uniform(0, 2 * math.pi)
                st["params"] = {"zeta_re": a * math.cos(ph), "zeta_im": a * math.sin(ph)}
        else:
            d = t.dimensions
            m = self.rs.randn(d, d) + 1j * self.rs.randn(d, d)
            if r.random() < 0.5:
                m = rand_unitary(self.rs, d)
            st["gate"] = "CustomCustom"
            st["U"] = mj(m)
            if en == "env":
                st["entry"] = "state"
        return st

    def opn(self, w):
        r = self.rng
        if not w.handles:
            return None
        hi = r.randrange(len(w.handles))
        h = w.handles[hi]
        mem = [s for s in h.state_objs if not getattr(s, "measured", False)]
        pols = [s for s in mem if isinstance(s, Polarization)]
        focks = [s for s in mem if isinstance(s, Fock)]
        opts = []
        if len(pols) >= 2:
            opts += ["CX", "CZ", "SWAP", "CX"]
        if len(pols) >= 3:
            opts += ["CSWAP"]
        if len(focks) >= 2:
            opts += ["BS", "BS"] if self.focus not in ("C11",) else ["BS"] * 6
        if len(focks) >= 2:
            opts += ["EXPRF"] * (3 if self.focus in ("C03", "C01", "C15") else 1)
        nonf = [s for s in mem if not isinstance(s, Fock)]
        if len(nonf) >= 2:
            opts += ["EXPR"] * (4 if self.focus in ("C03", "C16") else 1)
        if not opts:
            return None
        g = r.choice(opts)
        if g == "EXPRF":
            ts = r.sample(focks, 2)
            if not all(self.guard_ok(w, t) for t in ts):
                return None
            prev = [x for x in getattr(self, "exprf_history", []) if True]
            chi = r.choice(prev) if prev and r.random() < 0.7 else round(r.uniform(0.3, 2.5), 3)
            self.exprf_history = getattr(self, "exprf_history", []) + [chi]
            return {"kind": "op", "gate": "ExprFock", "targets": [w.sid(t) for t in ts], "entry": "ce", "h": hi,
                    "params": {"chi": chi}, "reuse": True}
        if g == "EXPR":
            k = min(len(nonf), r.choice([2, 3, 3, 3, 4]))
            ts = r.sample(nonf, k)
            if int(np.prod([dims_of(t) for t in ts])) > 24:
                ts = ts[:2]
            facs = []
            for t in ts:
                d = dims_of(t)
                facs.append(rand_unitary(self.rs, d) if r.random() < 0.6 else self.rs.randn(d, d) + 1j * self.rs.randn(d, d))
            return {"kind": "op", "gate": "Expr", "targets": [w.sid(t) for t in ts], "entry": "ce", "h": hi,
                    "factors": [mj(m) for m in facs], "types": [type(t).__name__ for t in ts],
                    "form": r.choice(["flat", "flat", "right", "left", "mid"])}
        if g == "BS":
            ts = r.sample(focks, 2)
            if not all(self.guard_ok(w, t) for t in ts):
                return None
            tot = sum(self.support(t) for t in ts) + 1
            rest = self.joint_dim(w) // max(1, dims_of(ts[0]) * dims_of(ts[1]))
            if tot > 5 or rest * max(tot, dims_of(ts[0])) * max(tot, dims_of(ts[1])) > self.CAP:
                return None
            st = {"kind": "op", "gate": g, "targets": [w.sid(t) for t in ts], "entry": "ce", "h": hi,
                  "params": {"eta": r.choice([r.uniform(-3, 3), math.pi / 4])}}
        else:
            k = 3 if g == "CSWAP" else 2
            ts = r.sample(pols, k)
            st = {"kind": "op", "gate": g, "targets": [w.sid(t) for t in ts], "entry": "ce", "h": hi}
        return st

    def support(self, t):
        try:
            return int(t._num_quanta)
        except Exception:
            return 3

    def true_support(self, w, t):
        """highest occupied level of a Fock according to the joint state (not the library's own
        estimate, which is computed from amplitude sums at vector level)"""
        sids, dims, rho = joint(w)
        k = sids.index(w.sid(t))
        n = len(dims)
        d = np.real(np.diag(rho)).reshape(dims)
        marg = d.sum(axis=tuple(a for a in range(n) if a != k)) if n > 1 else d
        nz = np.nonzero(marg > 1e-14)[0]
        return int(nz[-1]) if len(nz) else 0

    def guard_ok(self, w, t):
        """known finding K-C01-guard: for a Fock stored in a vector-level envelope / product space the
        library computes the highest occupied level from amplitude sums over the other members;
        when these cancel the estimate is wrong (or raises IndexError). Such cells are not entered."""
        if not isinstance(t, Fock) or t.index is None or not self.avoid_known:
            return True
        try:
            return int(t._num_quanta) == self.true_support(w, t)
        except Exception:
            return False

    def kraus(self, w):
        r = self.rng
        cands = self.live(w)
        if not cands:
            return None
        k = r.choice([1, 1, 2])
        if k == 1:
            t = self.pick(cands)
            en = r.choice(self.entries_for(w, t))
            ts = [t]
            hi = self.handle_of(w, t)
        else:
            if not w.handles:
                # both members of one envelope, through the envelope
                es = [e for e in w.envs if not e.measured and not e.fock.measured and not e.polarization.measured]
                if not es:
                    return None
                e = r.choice(es)
                ts = [e.fock, e.polarization]
                r.shuffle(ts)
                dims = [dims_of(x) for x in ts]
                if e.fock.dimensions < 0 or int(np.prod(dims)) > 12:
                    return None
                ops = rand_kraus(self.rs, int(np.prod(dims)), r.choice([1, 2, 2]))
                return {"kind": "kraus", "targets": [w.sid(x) for x in ts], "entry": "env", "ops": [mj(K) for K in ops]}
            hi = r.randrange(len(w.handles))
            mem = [s for s in w.handles[hi].state_objs if not getattr(s, "measured", False)]
            if len(mem) < 2:
                return None
            ts = r.sample(mem, 3 if len(mem) >= 3 and r.random() < 0.25 else 2)
            en = "ce"
            if len(ts) == 2 and not isinstance(ts[0], CustomState) and not isinstance(ts[1], CustomState) and ts[0].envelope is ts[1].envelope and r.random() < 0.5 and not ts[0].envelope.measured:
                en = "env"
        dims = []
        for t in ts:
            if isinstance(t, Fock) and t.dimensions < 0:
                return None
            dims.append(dims_of(t))
        D = int(np.prod(dims))
        if D > 12:
            return None
        ops = rand_kraus(self.rs, D, r.choice([1, 2, 2, 3]))
        st = {"kind": "kraus", "targets": [w.sid(t) for t in ts], "entry": en, "ops": [mj(K) for K in ops]}
        if en == "ce":
            st["h"] = hi
        if r.random() < 0.3:
            st["np_ops"] = True
        return st

    def measure(self, w):
        r = self.rng
        cands = self.live(w)
        if not cands:
            return None
        t = r.choice(cands)
        en = r.choice(self.entries_for(w, t))
        ts = [t]
        hi = self.handle_of(w, t)
        if en == "ce" and r.random() < 0.35:
            mem = [s for s in w.handles[hi].state_objs if not getattr(s, "measured", False) and s is not t]
            if mem:
                ts.append(r.choice(mem))
        sep = r.random() < 0.5
        des = r.random() < 0.6
        st = {"kind": "measure", "targets": [w.sid(x) for x in ts], "entry": en, "sep": sep, "destructive": des}
        if en == "ce":
            st["h"] = hi
        if self.avoid_known:
            involved = list(ts)
            if not sep:
                for x in ts:
                    if not isinstance(x, CustomState):
                        involved += [x.envelope.fock, x.envelope.polarization]
            # known finding: Envelope.measure on a combined envelope (post-measurement states): only
            # *which* subsystems are measured / reported is checked there (composite entry point)
            if any(self.in_combined_env(x) for x in involved if not getattr(x, "measured", False)):
                if en == "ce" and not any(getattr(x, "measured", False) for x in involved) and self.focus in ("C18", "C05", "C13"):
                    st["known_cell"] = True
                    return st
                return None
            # known finding: Envelope.measure on an uncombined envelope ignores its flags
            if en == "env" and (sep or not des):
                return None
            # a partner that was destroyed earlier
            if any(getattr(x, "measured", False) for x in involved):
                return None
        return st

    def povm(self, w):
        r = self.rng
        cands = self.live(w)
        if not cands:
            return None
        k = r.choice([1, 1, 1, 2])
        if k == 1:
            t = r.choice(cands)
            ts = [t]
            en = r.choice(self.entries_for(w, t))
            hi = self.handle_of(w, t)
        else:
            es = [e for e in w.envs if not e.measured and not e.fock.measured and not e.polarization.measured]
            if es and (not w.handles or r.random() < 0.4):
                # both members of one envelope, through the envelope (either operand order)
                e = r.choice(es)
                ts = [e.fock, e.polarization]
                r.shuffle(ts)
                en = "env"
                hi = None
            else:
                if not w.handles:
                    return None
                hi = r.randrange(len(w.handles))
                mem = [s for s in w.handles[hi].state_objs if not getattr(s, "measured", False)]
                if len(mem) < 2:
                    return None
                ts = r.sample(mem, 3 if len(mem) >= 3 and r.random() < 0.2 else 2)
                en = "ce"
        dims = []
        for t in ts:
            if isinstance(t, Fock) and t.dimensions < 0:
                return None
            dims.append(dims_of(t))
        D = int(np.prod(dims))
        if D > 9:
            return None
        nops = r.choice([2, 2, 3])
        if r.random() < 0.4:
            # projective: random orthonormal basis grouped into projectors
            u = rand_unitary(self.rs, D)
            groups = [[] for _ in range(min(nops, D))]
            for j in range(D):
                groups[j % len(groups)].append(j)
            ops = [sum(np.outer(u[:, j], u[:, j].conj()) for j in g) for g in groups]
        else:
            ops = rand_kraus(self.rs, D, nops)
        des = r.random() < 0.5
        st = {"kind": "povm", "targets": [w.sid(t) for t in ts], "entry": en, "ops": [mj(M) for M in ops], "destructive": des}
        if en == "ce":
            st["h"] = hi
        if en == "state":
            st["partial"] = True
        if r.random() < 0.3:
            st["np_ops"] = True
        return st

    def struct(self, w):
        r = self.rng
        opts = ["env_combine", "env_reorder", "ce_combine", "ce_combine", "ce_reorder", "ce_reorder", "expand", "expand", "contract", "set_contraction"]
        if self.focus in ("C13", "C02", "C18") and len(w.handles) >= 1:
            opts += ["new_composite"] * 2
        what = r.choice(opts)
        st = {"kind": "struct", "what": what}
        if what == "env_combine":
            es = [i for i, e in enumerate(w.envs) if not e.measured and e.state is None and e.fock.index is None and e.polarization.index is None
                  and not e.fock.measured and not e.polarization.measured]
            if not es:
                return None
            st["env"] = r.choice(es)
        elif what == "env_reorder":
            es = [i for i, e in enumerate(w.envs) if not e.measured and e.state is not None]
            if not es:
                return None
            st["env"] = r.choice(es)
            e = w.envs[st["env"]]
            order = [e.fock, e.polarization]
            r.shuffle(order)
            st["targets"] = [w.sid(x) for x in order[: r.choice([1, 2])]]
        elif what in ("ce_combine", "ce_reorder"):
            if not w.handles:
                return None
            hi = r.randrange(len(w.handles))
            mem = [s for s in w.handles[hi].state_objs if not getattr(s, "measured", False)]
            if not mem:
                return None
            k = min(len(mem), r.choice([1, 2, 2, 3]))
            ts = r.sample(mem, k)
            tot = int(np.prod([dims_of(x) if not (isinstance(x, Fock) and x.dimensions < 0) else x.state + 3 for x in mem]))
            if tot > 150:
                return None
            st["h"] = hi
            st["targets"] = [w.sid(x) for x in ts]
        elif what in ("expand", "contract"):
            cands = self.live(w)
            if not cands:
                return None
            t = self.pick(cands) if r.random() < 0.6 else r.choice(cands)
            en = r.choice(self.entries_for(w, t))
            st["entry"] = en
            st["targets"] = [w.sid(t)]
            if en == "ce":
                st["h"] = self.handle_of(w, t)
            if what == "contract":
                # documented behaviour: contraction of a vector-level envelope / extracted member is
                # an assertion error today (known finding row 32); only request where defined
                if en == "env" and (t.envelope.state is None or t.envelope.expansion_level != EL.Matrix):
                    return None
                if en == "state" and t.index is not None and not isinstance(t, Polarization):
                    return None
                if en == "state" and isinstance(t, Polarization) and isinstance(t.index, int) and t.envelope.expansion_level != EL.Matrix:
                    return None
        elif what == "new_composite":
            refs = []
            pool = [f"h{i}" for i in range(len(w.handles))] + [f"e{i}" for i, e in enumerate(w.envs) if not e.measured]
            k = r.choice([1, 2, 2])
            refs = r.sample(pool, min(k, len(pool)))
            if not refs:
                return None
            st["args"] = refs
        elif what == "set_contraction":
            st["on"] = r.random() < 0.5
        return st

    def trace_out(self, w):
        r = self.rng
        cands = self.live(w)
        if not cands:
            return None
        t = r.choice(cands)
        en = r.choice(self.entries_for(w, t))
        ts = [t]
        hi = self.handle_of(w, t)
        if en == "ce":
            if not isinstance(t.index, tuple):
                return None
            mem = [s for s in w.handles[hi].state_objs if not getattr(s, "measured", False) and s is not t and isinstance(s.index, tuple)]
            other = [s for s in mem if s.index[0] != t.index[0]]
            if other and r.random() < 0.6:
                # operands in two different product spaces: exactly those two are joined
                ts.append(r.choice(other))
            elif mem and r.random() < 0.5:
                ts.append(r.choice(mem))
            rest3 = [s for s in mem if not any(s is x for x in ts)]
            if len(ts) == 2 and rest3 and r.random() < 0.45:
                # three operands, possibly spread over several product spaces, in an order of their own
                ts.append(r.choice(rest3))
                r.shuffle(ts)
        if en == "env":
            e = t.envelope
            if r.random() < 0.4 and not e.fock.measured and not e.polarization.measured:
                ts = [e.fock, e.polarization]
                r.shuffle(ts)
        st = {"kind": "trace_out", "targets": [w.sid(x) for x in ts], "entry": en}
        if en == "ce":
            st["h"] = hi
        return st

    def resize(self, w):
        r = self.rng
        cands = self.live(w, Fock)
        if not cands:
            return None
        t = r.choice(cands)
        if not self.guard_ok(w, t):
            return None
        en = r.choice(self.entries_for(w, t))
        d = dims_of(t)
        new = max(1, d + r.choice([-2, -1, -1, 1, 2, 3]))
        if (self.joint_dim(w) // max(d, 1)) * new > self.CAP:
            return None
        if r.random() < 0.2:
            new = r.choice([0, 1, d])
        st = {"kind": "resize", "targets": [w.sid(t)], "entry": en, "dim": new}
        if en == "ce":
            st["h"] = self.handle_of(w, t)
        return st

    def invalid(self, w):
        r = self.rng
        what = r.choice(["kraus_not_tp", "kraus_imag_defect", "kraus_offdiag_defect", "kraus_wrong_size", "povm_wrong_size", "foreign_member", "foreign_member", "destroyed_operand", "wrong_kind", "custom_wrong_size", "shrink_below_support", "annihilate_vacuum", "destroyed"])
        cands = self.live(w)
        if not cands:
            return None
        t = r.choice(cands)
        en = r.choice(self.entries_for(w, t))
        st = {"kind": "invalid", "what": what, "targets": [w.sid(t)], "entry": en}
        if en == "ce":
            st["h"] = self.handle_of(w, t)
        if isinstance(t, Fock) and t.dimensions < 0 and (what.startswith("kraus_") or what == "povm_wrong_size"):
            return None
        d = dims_of(t)
        if what == "kraus_not_tp":
            ops = rand_kraus(self.rs, d, 2)
            ops[1] = ops[1] * 0.5
            st["ops"] = [mj(K) for K in ops]
        elif what in ("kraus_imag_defect", "kraus_offdiag_defect"):
            # sum K^dagger K = I + B with B Hermitian, zero on the diagonal (so the trace and the
            # diagonal are those of the identity) and either purely imaginary or purely real
            if d < 2:
                return None
            a = self.rs.randn(d, d)
            B = (a - a.T) * 1j if what == "kraus_imag_defect" else (a + a.T) - 2 * np.diag(np.diag(a))
            B = B * (r.uniform(0.3, 0.8) / np.linalg.norm(B, 2))
            ev, V = np.linalg.eigh(np.eye(d) + B)
            K = (V * np.sqrt(ev)) @ V.conj().T
            if r.random() < 0.5:
                q = r.uniform(0.2, 0.8)
                u = rand_unitary(self.rs, d)
                ops = [math.sqrt(q) * K, math.sqrt(1 - q) * (u @ K)]
            else:
                ops = [K]
            st["ops"] = [mj(x) for x in ops]
        elif what == "destroyed_operand":
            dead = [x for x in w.subs if getattr(x, "measured", False) and isinstance(x, Polarization)]
            if not dead or not w.handles:
                return None
            dd = r.choice(dead)
            hs = [k for k, h_ in enumerate(w.handles) if has(h_.state_objs, dd) or True]
            hi = r.choice(hs)
            live = [x for x in w.handles[hi].state_objs if not getattr(x, "measured", False) and isinstance(x, Polarization)]
            if not live:
                return None
            lv = self.pick(live)
            return {"kind": "invalid", "what": "destroyed_operand", "h": hi, "targets": [w.sid(lv), w.sid(dd)], "call": r.choice(["combine", "kraus", "trace_out", "cx"])}
        elif what == "foreign_member":
            # a request through an envelope / composite envelope that names a subsystem which is not one of
            # its members -- preferably one that holds the same value as a member (value equality must not help)
            how = r.choice(["env", "env", "ce"])
            if how == "env":
                es = [e for e in w.envs if not e.measured and not e.fock.measured and not e.polarization.measured]
                if len(es) < 2:
                    return None
                ea, eb = r.sample(es, 2)
                t = r.choice([eb.fock, eb.polarization])
                st = {"kind": "invalid", "what": "foreign_member", "how": "env", "env": ix(w.envs, ea), "targets": [w.sid(t)],
                      "call": r.choice(["apply_kraus", "measure_POVM", "apply_operation", "trace_out", "measure", "reorder"])}
            else:
                if len(w.handles) < 1:
                    return None
                hi = r.randrange(len(w.handles))
                out = [x for x in self.live(w) if not has(w.handles[hi].state_objs, x)]
                own = [x for x in w.handles[hi].state_objs if not getattr(x, "measured", False)]
                if not out or not own:
                    return None
                t = r.choice(out)
                st = {"kind": "invalid", "what": "foreign_member", "how": "ce", "h": hi, "targets": [w.sid(t)], "own": w.sid(r.choice(own)),
                      "call": r.choice(["apply_kraus", "measure_POVM", "apply_operation", "trace_out", "measure", "combine", "reorder", "resize_fock"])}
            if isinstance(t, Fock) and t.dimensions < 0:
                return None
            dt = dims_of(t)
            st["ops"] = [mj(K) for K in rand_kraus(self.rs, dt, 2)]
            return st
        elif what == "kraus_wrong_size":
            st["ops"] = [mj(K) for K in rand_kraus(self.rs, d + 1, 2)]
        elif what == "povm_wrong_size":
            st["ops"] = [mj(K) for K in rand_kraus(self.rs, d + 1, 2)]
        elif what == "wrong_kind":
            st["gate"] = "Creation" if not isinstance(t, Fock) else "X"
            if isinstance(t, CustomState) and en == "env":
                st["entry"] = "state"
        elif what == "custom_wrong_size":
            if isinstance(t, Fock):
                return None
            st["gate"] = "PolCustom" if isinstance(t, Polarization) else "CustomCustom"
            m = self.rs.randn(d + 1, d + 1)
            st["U"] = mj(m)
            if isinstance(t, CustomState) and en == "env":
                st["entry"] = "state"
        elif what == "shrink_below_support":
            fs = [f for f in self.live(w, Fock) if self.support(f) >= 1 and self.guard_ok(w, f)]
            if not fs:
                return None
            t = r.choice(fs)
            en = r.choice(self.entries_for(w, t))
            st.update({"targets": [w.sid(t)], "entry": en, "dim": r.randrange(1, self.support(t) + 1)})
            if en == "ce":
                st["h"] = self.handle_of(w, t)
        elif what == "annihilate_vacuum":
            fs = [f for f in self.live(w, Fock) if self.support(f) == 0 and self.guard_ok(w, f)]
            if not fs:
                return None
            t = r.choice(fs)
            en = r.choice(self.entries_for(w, t))
            st = {"kind": "op", "gate": "Annihilation", "targets": [w.sid(t)], "entry": en}
            if en == "ce":
                st["h"] = self.handle_of(w, t)
        elif what == "destroyed":
            dead = [s for s in w.subs if getattr(s, "measured", False)]
            if not dead:
                return None
            t = r.choice(dead)
            k = r.choice(["op", "measure", "measure", "kraus", "povm"])
            # a destroyed subsystem must be refused at every entry point, not only when asked itself
            ens = ["state"]
            if not isinstance(t, CustomState):
                ens.append("env")
            hd = self.handle_of(w, t)
            if hd is not None:
                ens += ["ce", "ce"]
            en = r.choice(ens)
            d = int(getattr(t, "dimensions", 2) or 2)
            if k == "op":
                st = {"kind": "op", "gate": "X" if isinstance(t, Polarization) else "Creation", "targets": [w.sid(t)], "entry": en}
            elif k == "measure":
                st = {"kind": "measure", "targets": [w.sid(t)], "entry": en, "sep": bool(r.getrandbits(1)), "destructive": bool(r.getrandbits(1))}
            elif k == "povm":
                st = {"kind": "povm", "targets": [w.sid(t)], "entry": en, "ops": [mj(np.eye(d))], "destructive": bool(r.getrandbits(1))}
            else:
                st = {"kind": "kraus", "targets": [w.sid(t)], "entry": en, "ops": [mj(np.eye(d))]}
            if en == "ce":
                st["h"] = hd
        return st

    def prelude(self, w):
        """0-3 layout-building steps from templates, so that interesting storage layouts (combined
        envelope stored polarization-first, matrix-level / mixed product spaces, several product
        spaces) are reached at the start of many programs and not only by luck"""
        r = self.rng
        out = []
        envs = [i for i, e in enumerate(w.envs)]
        if envs and r.random() < 0.45:
            i = r.choice(envs)
            e = w.envs[i]
            fs, ps = w.sid(e.fock), w.sid(e.polarization)
            out.append({"kind": "struct", "what": "env_combine", "env": i})
            k = r.random()
            if k < 0.45:
                out.append({"kind": "struct", "what": "env_reorder", "env": i, "targets": [ps, fs]})
            elif k < 0.7:
                out.append({"kind": "op", "targets": [ps], "entry": "env", "gate": r.choice(["H", "S", "RY"]), **({"params": {"theta": 1.3}})})
                if out[-1]["gate"] != "RY":
                    out[-1].pop("params")
            if r.random() < 0.3:
                out.append({"kind": "struct", "what": "expand", "entry": "env", "targets": [fs]})
        if w.handles and r.random() < 0.4:
            hi = r.randrange(len(w.handles))
            mem = [s for s in w.handles[hi].state_objs]
            if len(mem) >= 2:
                ts = r.sample(mem, min(len(mem), r.choice([2, 2, 3])))
                # do not pull a member of an envelope combined above into this space: keep both layouts
                out.append({"kind": "struct", "what": "ce_combine", "h": hi, "targets": [w.sid(x) for x in ts]})
                if r.random() < 0.35:
                    out.append({"kind": "struct", "what": "expand", "entry": "ce", "h": hi, "targets": [w.sid(ts[0])]})
        if r.random() < 0.25:
            pols = [s for s in w.subs if isinstance(s, Polarization)]
            if pols:
                t = r.choice(pols)
                ops = rand_kraus(self.rs, 2, 2)
                out.append({"kind": "kraus", "targets": [w.sid(t)], "entry": "state", "ops": [mj(K) for K in ops]})
        r.shuffle(out) if r.random() < 0.2 else None
        return out

    def scenario(self, w):
        """focus-specific opening: a short hand-written skeleton (with random parameters) that
        reaches the layouts a property is most sensitive to; the random continuation follows"""
        r = self.rng
        f = self.focus
        E = w.envs
        H = 0 if w.handles else None
        sid = w.sid
        out = []

        def members(hi):
            return [x for x in w.handles[hi].state_objs]

        def cplx_op(t):
            s = w.subs[t]
            if isinstance(s, Polarization):
                return {"kind": "op", "targets": [t], "entry": "state", "gate": "U3", "params": {"phi": r.uniform(0.4, 2.5), "theta": r.uniform(0.5, 2.5), "omega": r.uniform(0.4, 2.5)}}
            if isinstance(s, CustomState):
                return {"kind": "op", "targets": [t], "entry": "state", "gate": "CustomCustom", "U": mj(rand_unitary(self.rs, s.dimensions))}
            a, ph = r.uniform(0.3, 0.7), r.uniform(0.3, 2.8)
            d = dims_of(s)
            if (self.joint_dim(w) // max(d, 1)) * (d + 22) > self.CAP:
                return {"kind": "op", "targets": [t], "entry": "state", "gate": "PhaseShift", "params": {"phi": ph}}
            return {"kind": "op", "targets": [t], "entry": "state", "gate": "Displace", "params": {"alpha_re": a * math.cos(ph), "alpha_im": a * math.sin(ph)}}

        if f in ("C04", "C05") and H is not None and len(members(0)) >= 2:
            ts = r.sample(members(0), min(len(members(0)), r.choice([2, 3])))
            T = [sid(x) for x in ts]
            pols = [t for t in T if isinstance(w.subs[t], Polarization)]
            out += [{"kind": "op", "targets": [t], "entry": "state", "gate": "RY", "params": {"theta": r.uniform(0.4, 2.6)}} for t in pols]
            out.append({"kind": "struct", "what": "ce_combine", "h": 0, "targets": T})
            if r.random() < 0.7:
                out.append({"kind": "struct", "what": "expand", "entry": "ce", "h": 0, "targets": [T[0]]})
            m = r.sample(T, r.choice([1, 1, 2]))
            out.append({"kind": "measure", "targets": m, "entry": r.choice(["ce", "ce", "state"]), "h": 0, "sep": True, "destructive": r.random() < 0.4})
            if out[-1]["entry"] == "state":
                out[-1]["targets"] = m[:1]
        elif f in ("C03", "C01") and H is not None and r.random() < 0.35 and len([x for x in members(0) if isinstance(x, Fock)]) >= 2:
            # one Expression operation object (context entries depend on the dimensions) applied to two
            # Fock spaces of unequal occupation, then -- the same object -- to the same pair in the other order
            fs = [x for x in members(0) if isinstance(x, Fock)][:2]
            a, b2 = sid(fs[0]), sid(fs[1])
            if self.joint_dim(w) <= 72:
                chi = round(r.uniform(0.4, 2.2), 3)
                for t in (a, b2):
                    if dims_of(w.subs[t]) >= 2 or w.subs[t].dimensions < 0:
                        out.append({"kind": "op", "targets": [t], "entry": "state", "gate": "Creation"}) if r.random() < 0.5 else None
                out.append({"kind": "op", "gate": "ExprFock", "targets": [a, b2], "entry": "ce", "h": 0, "params": {"chi": chi}, "reuse": True})
                out.append({"kind": "op", "gate": "ExprFock", "targets": [b2, a], "entry": "ce", "h": 0, "params": {"chi": chi}, "reuse": True})
        elif f in ("C08", "C02") and r.random() < (0.35 if f == "C08" else 0.2):
            # nearly pure state: a weak channel (mixing probability 2e-6 .. 5e-5) on a subsystem in
            # superposition, own / combined-envelope / product-space storage, followed by a few
            # purity-preserving steps; automatic contraction must leave it alone (or contract it exactly)
            nf = [x for x in w.subs if not isinstance(x, Fock)]
            t = r.choice(nf)
            ts = sid(t)
            out.append(cplx_op(ts))
            where = r.choice(["own", "env", "ps", "ps"])
            other = None
            if where == "env" and not isinstance(t, CustomState):
                out.append({"kind": "struct", "what": "env_combine", "env": ix(w.envs, t.envelope)})
            elif where == "ps" and H is not None and has(members(0), t):
                others = [x for x in members(0) if x is not t and not (isinstance(x, Fock) and x.dimensions < 0)]
                if others:
                    other = r.choice(others)
                    if not isinstance(other, Fock):
                        out.append(cplx_op(sid(other)))
                    pair = [ts, sid(other)]
                    r.shuffle(pair)
                    out.append({"kind": "struct", "what": "ce_combine", "h": 0, "targets": pair})
                    if isinstance(other, Polarization) and isinstance(t, Polarization):
                        out.append({"kind": "op", "gate": "CX", "targets": pair, "entry": "ce", "h": 0})
            out.append({"kind": "struct", "what": "set_contraction", "on": r.random() < 0.8})
            d = dims_of(t)
            pmix = 10 ** r.uniform(-5.7, -4.3)
            U = rand_unitary(self.rs, d)
            en = r.choice(["state", "ce"] if H is not None and has(members(0), t) else ["state"])
            st = {"kind": "kraus", "targets": [ts], "entry": en, "weak": True,
                  "ops": [mj(math.sqrt(1 - pmix) * np.eye(d)), mj(math.sqrt(pmix) * U)]}
            if en == "ce":
                st["h"] = 0
            out.append(st)
            for _ in range(r.choice([0, 1, 2])):
                k = r.random()
                if k < 0.5:
                    out.append(cplx_op(r.choice([ts] + ([sid(other)] if other is not None and not isinstance(other, Fock) else []))))
                elif k < 0.75:
                    out.append({"kind": "struct", "what": "expand", "entry": "state", "targets": [ts]})
                else:
                    out.append({"kind": "struct", "what": "set_contraction", "on": True})
            out.append({"kind": "stop"})
        elif f == "C08":
            cands = [sid(x) for x in w.subs]
            t = r.choice(cands)
            out.append(cplx_op(t))
            k = r.random()
            if k < 0.5:
                out += [{"kind": "struct", "what": "expand", "entry": "state", "targets": [t]}] * 1
                out.append({"kind": "struct", "what": "expand", "entry": "state", "targets": [t]})
                out.append({"kind": "struct", "what": "contract", "entry": "state", "targets": [t]})
            elif H is not None:
                others = [sid(x) for x in members(0) if sid(x) != t]
                if others and t in [sid(x) for x in members(0)]:
                    out.append({"kind": "struct", "what": "ce_combine", "h": 0, "targets": [t, r.choice(others)]})
                    out.append({"kind": "struct", "what": "expand", "entry": "ce", "h": 0, "targets": [t]})
                    out.append({"kind": "struct", "what": "set_contraction", "on": True})
        elif f == "C09" and E:
            e = E[0]
            fs, ps = sid(e.fock), sid(e.polarization)
            if e.fock.dimensions > 0 and e.fock.dimensions * 2 <= 8:
                d = e.fock.dimensions * 2
                out.append({"kind": "kraus", "targets": [fs, ps], "entry": "env", "ops": [mj(rand_unitary(self.rs, d))]})
                t = r.choice([fs, ps])
                dt = dims_of(w.subs[t])
                out.append({"kind": "povm", "targets": [t], "entry": r.choice(["env", "state"]), "ops": [mj(K) for K in rand_kraus(self.rs, dt, 2)],
                            "destructive": r.random() < 0.7, "partial": True})
        elif f == "C11" and H is not None:
            focks = [sid(x) for x in members(0) if isinstance(x, Fock)]
            tot = sum(self.support(w.subs[t]) for t in focks[:2]) + 1 if len(focks) >= 2 else 99
            rest = self.joint_dim(w) // max(1, dims_of(w.subs[focks[0]]) * dims_of(w.subs[focks[1]])) if len(focks) >= 2 else 99
            if len(focks) >= 2 and tot <= 3 and rest * tot * tot <= 48:
                a, b2 = focks[:2]
                out.append({"kind": "op", "gate": "BS", "targets": [a, b2], "entry": "ce", "h": 0, "params": {"eta": math.pi / 4}})
                if r.random() < 0.6:
                    out.append({"kind": "struct", "what": "set_contraction", "on": False})
                    out.append({"kind": "struct", "what": "expand", "entry": "ce", "h": 0, "targets": [a]})
                out.append({"kind": "op", "targets": [r.choice([a, b2])], "entry": r.choice(["state", "ce"]), "h": 0, "gate": "PhaseShift", "params": {"phi": r.uniform(0.3, 2.8)}})
                out.append({"kind": "op", "gate": "BS", "targets": [a, b2], "entry": "ce", "h": 0, "params": {"eta": math.pi / 4}})
        elif f == "C10" and H is not None and len(members(0)) >= 4 and r.random() < 0.5:
            # a Fock space in the *second* product space of a composite, at density-matrix level,
            # then resized explicitly or by an operation
            focks = [x for x in members(0) if isinstance(x, Fock)]
            t = r.choice(focks)
            rest = [x for x in members(0) if x is not t]
            r.shuffle(rest)
            first, partner = rest[:2], rest[2]
            if self.joint_dim(w) <= 48:
                out.append({"kind": "struct", "what": "ce_combine", "h": 0, "targets": [sid(x) for x in first]})
                pair = [sid(t), sid(partner)]
                r.shuffle(pair)
                out.append({"kind": "struct", "what": "ce_combine", "h": 0, "targets": pair})
                if r.random() < 0.5:
                    out.append({"kind": "struct", "what": "set_contraction", "on": False})
                    out.append({"kind": "struct", "what": "expand", "entry": "ce", "h": 0, "targets": [sid(t)]})
                elif not (isinstance(partner, Fock) and partner.dimensions < 0):
                    out.append({"kind": "kraus", "targets": [sid(partner)], "entry": "ce", "h": 0, "ops": [mj(K) for K in rand_kraus(self.rs, dims_of(partner), 2)]})
                d = dims_of(t)
                k = r.random()
                en = r.choice(["state", "env", "ce"])
                if k < 0.6:
                    st = {"kind": "resize", "targets": [sid(t)], "entry": en, "dim": d + r.choice([1, 2, 3])}
                else:
                    st = {"kind": "op", "targets": [sid(t)], "entry": en, "gate": "Creation"}
                if en == "ce":
                    st["h"] = 0
                out.append(st)
        elif f == "C10" and E and r.random() < 0.55:
            # combined envelope stored polarization-first (or fock-first), then the Fock space is resized
            i0 = r.randrange(len(E))
            e = E[i0]
            fs, ps_ = sid(e.fock), sid(e.polarization)
            d = dims_of(e.fock)
            if self.joint_dim(w) // max(d, 1) * (d + 5) <= self.CAP:
                g_ = r.choice([1, 2, 3])
                out.append({"kind": "resize", "targets": [fs], "entry": "state", "dim": d + g_})
                out.append({"kind": "struct", "what": "env_combine", "env": i0})
                if r.random() < 0.7:
                    out.append({"kind": "struct", "what": "env_reorder", "env": i0, "targets": [ps_, fs]})
                if r.random() < 0.5:
                    out.append({"kind": "struct", "what": "set_contraction", "on": False})
                    out.append({"kind": "struct", "what": "expand", "entry": "env", "targets": [fs]})
                # shrink, keep (a request for the current size), or grow
                out.append({"kind": "resize", "targets": [fs], "entry": r.choice(["env", "env", "state"]), "dim": d + g_ + r.choice([-2, -1, 0, 1, 1, 2])})
        elif f == "C10":
            # repeated displacements along one (complex) direction: the state is a superposition when
            # the cutoff for the second one is estimated
            focks = [x for x in w.subs if isinstance(x, Fock)]
            t = r.choice(focks)
            d = dims_of(t)
            if (self.joint_dim(w) // max(d, 1)) <= 4 and d <= 6:
                a, ph = r.uniform(0.5, 0.9), r.choice([math.pi, math.pi / 2, -math.pi / 2, r.uniform(0.5, 5.8)])
                en = r.choice(self.entries_for(w, t))
                for k in range(2):
                    a2 = a * (1.0 if k == 0 else r.uniform(0.7, 1.1))
                    st = {"kind": "op", "targets": [sid(t)], "entry": en, "gate": "Displace", "params": {"alpha_re": a2 * math.cos(ph), "alpha_im": a2 * math.sin(ph)}}
                    if en == "ce":
                        st["h"] = self.handle_of(w, t)
                    out.append(st)
                if r.random() < 0.4:
                    out.insert(1, {"kind": "struct", "what": "expand", "entry": "state", "targets": [sid(t)]})
        elif f == "C13" and H is not None and len(members(0)) >= 4:
            ms = r.sample(members(0), 4)
            A, B = [sid(x) for x in ms[:2]], [sid(x) for x in ms[2:]]
            out.append({"kind": "struct", "what": "ce_combine", "h": 0, "targets": A})
            out.append({"kind": "struct", "what": "ce_combine", "h": 0, "targets": B})
            out.append({"kind": "measure", "targets": A, "entry": "ce", "h": 0, "sep": True, "destructive": r.random() < 0.7})
        elif f == "C17":
            fs = [x for x in w.subs if isinstance(x, Fock) and isinstance(x.state, int) and x.state == 0]
            if fs:
                t = sid(r.choice(fs))
                k = r.choice([0, 1, 2])
                out += [{"kind": "struct", "what": "expand", "entry": "state", "targets": [t]}] * k
                if k == 2:
                    out.insert(0, {"kind": "struct", "what": "set_contraction", "on": False})
                out.append({"kind": "op", "gate": "Annihilation", "targets": [t], "entry": r.choice(["state", "env"])})
                out.append({"kind": "op", "gate": "Creation", "targets": [t], "entry": "state"})
        elif f == "C18" and len(w.handles) >= 2 and len(E) >= 2:
            # merge the composites (their Fock spaces hold equal values), then act on members of both
            out.append({"kind": "struct", "what": "new_composite", "args": [f"h{k}" for k in range(len(w.handles))] if r.random() < 0.7 else ["h1", "h0"]})
            fa, fb = sid(E[0].fock), sid(E[-1].fock)
            tot = self.support(E[0].fock) + self.support(E[-1].fock) + 1
            rest = self.joint_dim(w) // max(1, dims_of(E[0].fock) * dims_of(E[-1].fock))
            if r.random() < 0.5 and rest * max(tot, dims_of(E[0].fock)) * max(tot, dims_of(E[-1].fock)) <= self.CAP:
                out.append({"kind": "op", "gate": "BS", "targets": [fa, fb], "entry": "ce", "h": len(w.handles), "params": {"eta": r.uniform(0.3, 1.2)}})
            out.append({"kind": "measure", "targets": [fa, fb], "entry": "ce", "h": len(w.handles), "sep": True, "destructive": r.random() < 0.5})
        elif f == "C18" and H is not None and len(E) >= 2:
            # two Focks holding the same value, one of them inside a combined envelope / product space
            i0, i1 = r.sample(range(len(E)), 2)
            f0, f1 = sid(E[i0].fock), sid(E[i1].fock)
            k = r.random()
            if k < 0.5:
                out.append({"kind": "struct", "what": "env_combine", "env": i0})
            elif k < 0.8:
                out.append({"kind": "struct", "what": "ce_combine", "h": 0, "targets": [f0, sid(E[i0].polarization)]})
            order = [f0, f1] if r.random() < 0.7 else [f1, f0]
            out.append({"kind": "measure", "targets": order, "entry": "ce", "h": 0, "sep": r.random() < 0.5, "destructive": r.random() < 0.4,
                        **({"known_cell": True} if k < 0.5 else {})})
        elif f == "C20" and H is not None and len(members(0)) >= 4:
            ms = r.sample(members(0), 4)
            A = [sid(x) for x in ms[:2]]
            c1, c2 = sid(ms[2]), sid(ms[3])
            out.append({"kind": "struct", "what": "ce_combine", "h": 0, "targets": A})
            t = w.subs[c1]
            if not (isinstance(t, Fock) and t.dimensions < 0):
                out.append({"kind": "kraus", "targets": [c1], "entry": "state", "ops": [mj(K) for K in rand_kraus(self.rs, dims_of(t), 2)]})
            out.append({"kind": "struct", "what": "ce_combine", "h": 0, "targets": [c1, c2]})
            if r.random() < 0.5:
                out.append({"kind": "trace_out", "targets": [r.choice(A), r.choice([c1, c2])], "entry": "ce", "h": 0})
        return out

    WEIGHTS = {
        "C01": dict(op1=8, opn=2, kraus=1, measure=0.5, struct=3, resize=0.5),
        "C02": dict(op1=3, opn=2, kraus=1, struct=7, trace_out=3),
        "C03": dict(op1=3, opn=7, kraus=1, struct=3),
        "C04": dict(op1=4, opn=3, kraus=1, measure=5, struct=2),
        "C05": dict(op1=4, opn=3, kraus=1, measure=5, struct=2, invalid=1),
        "C06": dict(op1=3, opn=2, kraus=6, struct=3),
        "C07": dict(op1=4, opn=2, kraus=2, measure=2, povm=1, struct=3, resize=1),
        "C08": dict(op1=4, opn=2, kraus=2, struct=6, measure=1),
        "C09": dict(op1=4, opn=3, kraus=1, povm=5, struct=2),
        "C10": dict(op1=6, opn=2, resize=5, struct=2, kraus=1),
        "C11": dict(op1=3, opn=8, struct=2),
        "C13": dict(op1=2, opn=2, kraus=1, measure=2, povm=1, struct=6),
        "C17": dict(op1=4, opn=2, kraus=1, struct=2, invalid=5, measure=1),
        "C18": dict(op1=2, opn=1, measure=8, struct=4, kraus=0.5),
        "C20": dict(op1=4, opn=3, kraus=2, measure=2, povm=1, struct=4, trace_out=3, resize=1),
    }

    def next_step(self, w):
        wts = self.WEIGHTS.get(self.focus, self.WEIGHTS["C07"])
        kinds = list(wts)
        for _ in range(30):
            k = self.rng.choices(kinds, [wts[x] for x in kinds])[0]
            st = getattr(self, k)(w)
            if st is not None:
                return st
        return None
