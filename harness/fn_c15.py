"""C15: Operation objects are pure, reusable descriptions.

* the dimension rule of every operation type against the Lean model (PW.OpModel.dimsFor);
* reuse: one operation object applied several times, to targets of different size and in different
  containers, acts every time like a freshly constructed one (joint states compared);
* interleaving construction / application of other operations changes nothing;
* arrays supplied by the user (custom operators, expression leaves, context values) are unchanged."""
import copy, itertools, math, random, time, zlib
import numpy as np
import jax.numpy as jnp
import photon_weave._math.ops as OPS
import checklib as CL
from leanio import Lean


def fresh_world(labels, dims=None, customs=()):
    from world import World
    w = World()
    for i, (f, p) in enumerate(labels):
        w.new_env(f, p, None if dims is None else dims[i])
    for d in customs:
        w.new_custom(d)
    w.new_composite([f"e{i}" for i in range(len(labels))] + [f"c{i}" for i in range(len(customs))])
    return w


def state_of(w):
    from world import joint
    return joint(w)


def same_state(a, b, tol=1e-9):
    from world import compare
    return a[0] == b[0] and compare(a[2], a[1], b[2], b[1]) <= tol


def run(prop, tier, seed):
    import warnings
    warnings.filterwarnings("ignore")
    from photon_weave.operation import Operation, FockOperationType as FO, PolarizationOperationType as PO, CompositeOperationType as CO, CustomStateOperationType as CSO
    from photon_weave.state.fock import Fock
    from photon_weave.state.polarization import Polarization
    from photon_weave.photon_weave import Config
    t0 = time.time()
    thorough = tier == "thorough"
    pr = CL.lean_build(prop, thorough)
    print(f"[{prop}] lean: {len(pr.theorems)} theorems audited, build {'ok' if pr.ok else 'BROKEN'}")
    for p in pr.problems:
        print(f"[{prop}] proof obligation problem: {p}")
    rng = random.Random(zlib.crc32(b"C15") + int(seed))
    Config().set_contraction(True)
    L = Lean()
    viol, n, samples, kinds = [], 0, [], set()

    # ---- 1. dimension rules ------------------------------------------------------------------
    def vec(q):
        return jnp.zeros((q + 1, 1)).at[q, 0].set(1.0)

    for q in range(0, 6):
        for (ty, mk) in [("Creation", lambda: Operation(FO.Creation)), ("Annihilation", lambda: Operation(FO.Annihilation)),
                         ("PhaseShift", lambda: Operation(FO.PhaseShift, phi=0.3)), ("FockIdentity", lambda: Operation(FO.Identity))]:
            n += 1
            kinds.add("dims:" + ty)
            op = mk()
            op._dimensions = [17]  # stale cache must not matter
            op.compute_dimensions(q, vec(q))
            ref = L.call(op="dims", type=ty, q=[q], sizes=[q + 1], old=[17])["dims"]
            if list(op.dimensions) != ref:
                viol.append((f"{ty} on highest occupied level {q}: dimension {list(op.dimensions)}, rule gives {ref}", {"type": ty, "q": q}))
    for q0, q1 in itertools.product(range(0, 4), repeat=2):
        n += 1
        kinds.add("dims:BS")
        op = Operation(CO.NonPolarizingBeamSplitter, eta=0.4)
        op.compute_dimensions([q0, q1], [vec(q0), vec(q1)])
        ref = L.call(op="dims", type="BS", q=[q0, q1], sizes=[q0 + 1, q1 + 1], old=[])["dims"]
        if list(op.dimensions) != ref:
            viol.append((f"beam splitter on levels ({q0},{q1}): dimensions {list(op.dimensions)}, rule gives {ref}", {"type": "BS", "q": [q0, q1]}))
    opc = Operation(FO.Custom, operator=jnp.eye(4))
    opc.compute_dimensions(1, vec(1))
    ref = L.call(op="dims", type="FockCustom", q=[1], sizes=[2], old=[4])["dims"]
    n += 1
    if list(opc.dimensions) != ref:
        viol.append((f"Fock custom operator: dimension {list(opc.dimensions)}, rule gives {ref}", {"type": "FockCustom"}))

    # ---- 2. reuse against fresh operations ---------------------------------------------------
    def expr_ops(theta):
        ctx = {"a": lambda d: OPS.annihilation_operator(d[0]) + OPS.creation_operator(d[0]),
               "b": lambda d: OPS.annihilation_operator(d[1]) + OPS.creation_operator(d[1])}
        return lambda: Operation(CO.Expression, expr=("expm", ("s_mult", 1j, theta, ("kron", "a", "b"))), state_types=(Fock, Fock), context=ctx)

    makers = [
        ("Creation", lambda: Operation(FO.Creation), "fock1"),
        ("Annihilation", lambda: Operation(FO.Annihilation), "fock1"),
        ("PhaseShift", lambda: Operation(FO.PhaseShift, phi=0.7), "fock1"),
        ("Displace", lambda: Operation(FO.Displace, alpha=0.3 + 0.2j), "fock1"),
        ("RX", lambda: Operation(PO.RX, theta=1.234), "pol1"),
        ("H", lambda: Operation(PO.H), "pol1"),
        ("BS", lambda: Operation(CO.NonPolarizingBeamSplitter, eta=0.9), "fock2"),
        ("CX", lambda: Operation(CO.CXPolarization), "pol2"),
        ("Expression", expr_ops(0.37), "fock2"),
        # custom Fock operators of two different sizes (each is interleaved with the construction of the others)
        ("FockCustom4", lambda: Operation(FO.Custom, operator=jnp.array(np.diag(np.exp(1j * np.arange(4) * 0.4)))), "fock1"),
        ("FockCustom5", lambda: Operation(FO.Custom, operator=jnp.array(np.roll(np.eye(5), 1, axis=0).astype(complex))), "fock1"),
    ]
    label_sets = [[(1, "H"), (2, "V")], [(2, "R"), (1, "L")], [(0, "H"), (3, "V")], [(2, "H"), (1, "V")], [(1, "R"), (1, "R")]]
    rounds = 6 if thorough else 3
    for name, mk, kind in makers:
        kinds.add("reuse:" + name)
        shared = mk()
        for rnd in range(rounds):
            n += 1
            # round 0 and 1: operand sizes swapped (same total size), then random operand sets
            labels = label_sets[0] if rnd == 0 else label_sets[3] if rnd == 1 else label_sets[rng.randrange(len(label_sets))]
            w1, w2 = fresh_world(labels), fresh_world(labels)
            lay = rng.choice(["own", "ps", "matrix"])
            for w in (w1, w2):
                if lay in ("ps", "matrix"):
                    w.handles[0].combine(w.subs[0], w.subs[2])
                if lay == "matrix":
                    w.handles[0].expand(w.subs[0])

            def targets(w):
                return {"fock1": [w.subs[0]], "pol1": [w.subs[1]], "fock2": [w.subs[0], w.subs[2]], "pol2": [w.subs[1], w.subs[3]]}[kind]

            # interleave: construct and apply an unrelated operation in between
            other = rng.choice(makers)
            msg = ""
            other[1]()
            if name.startswith("FockCustom"):
                # ... and always of a custom operator of another size
                for nm2, mk2, _k2 in makers:
                    if nm2.startswith("FockCustom") and nm2 != name:
                        mk2()
            e1 = e2 = None
            try:
                w1.handles[0].apply_operation(shared, *targets(w1))
            except Exception as ex:
                e1 = ex
            try:
                w2.handles[0].apply_operation(mk(), *targets(w2))
            except Exception as ex:
                e2 = ex
            a = True
            if e1 is not None or e2 is not None:
                # a request that a fresh operation rejects too (annihilating the vacuum) is fine
                ok = e1 is not None and e2 is not None and type(e1) is type(e2)
                a = None
                msg = f"reused: {type(e1).__name__ if e1 else 'ok'}, fresh: {type(e2).__name__ if e2 else 'ok'}"
            else:
                ok = same_state(state_of(w1), state_of(w2))
            desc = {"operation": name, "round": rnd, "labels": labels, "layout": lay}
            if len(samples) < 3:
                samples.append(desc)
            if not ok:
                viol.append((f"reused {name} operation (application #{rnd + 1}, operands {labels}, layout {lay}) does not act like a freshly constructed one" + ("" if a else f" ({msg})"), desc))

    # ---- 3. user arrays ----------------------------------------------------------------------
    def unchanged(before, after):
        return all(np.array_equal(np.asarray(x), y) for x, y in zip(after, before))

    arr_cases = []
    U = np.array([[0.6, 0.8], [0.8, -0.6]], dtype=complex)
    Uj = jnp.array(U)
    arr_cases.append(("PolarizationOperationType.Custom", [Uj], lambda a: Operation(PO.Custom, operator=a[0]), "pol1"))
    A = np.array([[0, 1.0], [1.0, 0]], dtype=complex)
    B = np.eye(2, dtype=complex) * 0.5
    arr_cases.append(("Expression with numpy leaves", [A, B], lambda a: Operation(CO.Expression, expr=("expm", ("s_mult", a[1], ("m_mult", a[0], a[0]), 1j)), state_types=(Polarization,) * 1, context={}), None))
    M = np.diag([0.0, 1.0, 2.0]).astype(complex)
    arr_cases.append(("Fock Expresion with numpy context value", [M], lambda a: Operation(FO.Expresion, expr=("expm", ("s_mult", 1j, 0.4, "n")), context={"n": lambda d: np.pad(a[0], (0, max(0, d[0] - 3)))[: d[0], : d[0]]}), "fock1"))
    for name, arrays, mk, kind in arr_cases:
        n += 1
        kinds.add("arrays:" + name)
        before = [np.array(np.asarray(x)) for x in arrays]
        try:
            op = mk(arrays)
            w = fresh_world([(1, "R"), (0, "H")])
            if kind == "pol1":
                w.subs[1].apply_operation(op); w.subs[1].apply_operation(op)
            elif kind == "fock1":
                w.subs[0].apply_operation(op); w.subs[0].apply_operation(op)
            else:
                _ = op._operation_type.compute_operator([2], **op.kwargs)
                _ = op._operation_type.compute_operator([2], **op.kwargs)
        except Exception as ex:
            viol.append((f"{name}: raised {type(ex).__name__}: {str(ex)[:120]}", {"case": name}))
            continue
        if not unchanged(before, arrays):
            viol.append((f"{name}: applying the operation modified an array supplied by the user", {"case": name}))
    # user operators handed over as jax arrays of exactly the state's shape and dtype, on a subsystem at every
    # level and location: after two applications the array must still be readable and equal to its copy, and the
    # second application must act like the first one did on an identical state
    from photon_weave.state.custom_state import CustomState as _CS
    for tname in ("fock", "pol", "custom"):
        for level in ("label", "vector", "matrix"):
            for loc in ("own", "env", "ps"):
                if tname == "custom" and loc == "env":
                    continue
                n += 1
                name = f"user jax operator ({tname}, {level}, {loc})"
                kinds.add("arrays:" + name)
                d = {"fock": 2, "pol": 2, "custom": 3}[tname]
                Mnp = np.linalg.qr(np.random.RandomState(17 + d).randn(d, d) + 1j * np.random.RandomState(18 + d).randn(d, d))[0].astype(np.complex128)
                arr = jnp.array(Mnp)
                keep = np.array(Mnp)
                mk = {"fock": lambda a: Operation(FO.Custom, operator=a), "pol": lambda a: Operation(PO.Custom, operator=a),
                      "custom": lambda a: Operation(CSO.Custom, operator=a)}[tname]
                try:
                    Config().set_contraction(False)
                    w = fresh_world([(1, "R"), (0, "H")], dims=[2, 2], customs=(3,))
                    t = {"fock": w.subs[0], "pol": w.subs[1], "custom": w.subs[4]}[tname]
                    if loc == "env":
                        w.envs[0].combine()
                    elif loc == "ps":
                        w.handles[0].combine(t, w.subs[3])
                    if level != "label":
                        t.expand()
                    if level == "matrix":
                        t.expand()
                    op = mk(arr)
                    t.apply_operation(op)
                    s1 = state_of(w)
                    t.apply_operation(op)
                    ok_read = True
                    try:
                        now = np.asarray(arr)
                    except Exception as ex:
                        ok_read = False
                        viol.append((f"{name}: the array supplied by the user can no longer be read after the application ({type(ex).__name__}: {str(ex)[:80]})", {"case": name}))
                    if ok_read and not np.array_equal(now, keep):
                        viol.append((f"{name}: applying the operation modified an array supplied by the user", {"case": name}))
                except Exception as ex:
                    viol.append((f"{name}: raised {type(ex).__name__}: {str(ex)[:120]}", {"case": name}))
                finally:
                    Config().set_contraction(True)
    # every interpreter command with numpy leaves (literal in the tuple / returned by a context entry):
    # the same Operation applied to identical fresh states must give identical results, equal to what an
    # operation built from copies of the arrays gives, and the user's arrays stay as they were
    from photon_weave.state.custom_state import CustomState
    A0 = np.array([[0.3, 0.2 - 0.4j], [0.2 + 0.4j, -0.5]], dtype=complex)
    B0 = np.array([[0.1, 0.7j], [-0.7j, 0.4]], dtype=complex)
    inners = {"add": lambda a, b: ("add", a, b), "add3": lambda a, b: ("add", a, b, a), "sub": lambda a, b: ("sub", a, b),
              "s_mult": lambda a, b: ("s_mult", a, b), "m_mult": lambda a, b: ("m_mult", a, b), "div": lambda a, b: ("div", a, 2.0),
              "nested": lambda a, b: ("add", ("m_mult", a, b), ("sub", b, a))}
    for hname, mkinner in inners.items():
        for mode in ("literal", "context"):
            n += 1
            kinds.add(f"pure:{hname}:{mode}")
            A, B = A0.copy(), B0.copy()

            def build(a, b):
                if mode == "literal":
                    return Operation(CSO.Expresion, expr=("expm", ("s_mult", 1j, 0.3, mkinner(a, b))), context={})
                return Operation(CSO.Expresion, expr=("expm", ("s_mult", 1j, 0.3, mkinner("a", "b"))), context={"a": lambda d: a, "b": lambda d: b})

            try:
                op = build(A, B)
                res = []
                for k in range(3):
                    c = CustomState(2)
                    c.apply_operation(op)
                    res.append(np.asarray(c.state if not isinstance(c.state, int) else np.eye(2)[:, [c.state]], dtype=complex).reshape(-1))
                cf = CustomState(2)
                cf.apply_operation(build(A0.copy(), B0.copy()))
                fresh = np.asarray(cf.state if not isinstance(cf.state, int) else np.eye(2)[:, [cf.state]], dtype=complex).reshape(-1)
            except Exception as ex:
                viol.append((f"expression ({hname}, {mode} numpy leaves): raised {type(ex).__name__}: {str(ex)[:120]}", {"case": hname, "mode": mode}))
                continue
            desc = {"case": hname, "mode": mode}
            if not (np.array_equal(A, A0) and np.array_equal(B, B0)):
                viol.append((f"expression ({hname}, {mode} numpy leaves): applying the operation modified an array supplied by the user", desc))
            elif any(np.abs(r - res[0]).max() > 1e-9 for r in res[1:]):
                viol.append((f"expression ({hname}, {mode} numpy leaves): the same Operation gave different results on identical fresh states", desc))
            elif np.abs(res[0] - fresh).max() > 1e-9:
                viol.append((f"expression ({hname}, {mode} numpy leaves): a reused Operation does not act like a freshly constructed one", desc))
    # the dimension chosen for an operation is a function of (type, parameters, state): it must not depend on
    # which other states the same kind of operation met before (checked against a fresh process that only
    # ever sees the second state)
    import subprocess, sys as _sys, json as _json
    CHILD = (
        "import json,sys,numpy as np,jax.numpy as jnp\n"
        "import photon_weave._math.ops\n"
        "from photon_weave.operation import Operation, FockOperationType as FO\n"
        "spec=json.loads(sys.argv[1])\n"
        "out=[]\n"
        "for kind,par,N in spec:\n"
        "    v=np.zeros((N,1),complex); v[N-1,0]=1\n"
        "    op=Operation(FO.Displace,alpha=complex(*par)) if kind=='Displace' else Operation(FO.Squeeze,zeta=complex(*par))\n"
        "    op.compute_dimensions(N-1,jnp.array(v)); out.append(int(op.dimensions[0]))\n"
        "print(json.dumps(out))\n")
    est_cases = [("Displace", (-1.5, 0.0), 15), ("Displace", (0.0, 1.2), 12), ("Squeeze", (0.4, 0.0), 9)]
    try:
        import os as _os
        r_ = subprocess.run(["/venv/bin/python", "-c", CHILD, _json.dumps(est_cases)], stdout=subprocess.PIPE, stderr=subprocess.DEVNULL, text=True, timeout=600,
                            env=dict(_os.environ, JAX_PLATFORMS="cpu"))
        ref_dims = _json.loads(r_.stdout.strip().splitlines()[-1])
    except Exception as ex:
        ref_dims = None
        viol.append((f"reference process for dimension estimates failed: {type(ex).__name__}: {ex}", {"case": "estimates"}))
    if ref_dims is not None:
        for (kind, par, N), ref in zip(est_cases, ref_dims):
            n += 1
            kinds.add("estimate-history:" + kind)
            z = complex(*par)
            mk = (lambda: Operation(FO.Displace, alpha=z)) if kind == "Displace" else (lambda: Operation(FO.Squeeze, zeta=z))
            # first a state with the same highest level and shape that needs (almost) no extra room:
            # the coherent / squeezed state that this very operation maps back towards the vacuum
            inv = (lambda: Operation(FO.Displace, alpha=-z)) if kind == "Displace" else (lambda: Operation(FO.Squeeze, zeta=-z))
            vac = jnp.zeros((N, 1), dtype=complex).at[0, 0].set(1.0)
            o0 = inv()
            o0.dimensions = [N]
            s1 = np.asarray(o0.operator) @ np.asarray(vac)
            s1 = s1 / np.linalg.norm(s1)
            o1 = mk()
            o1.compute_dimensions(N - 1, jnp.array(s1))
            num = np.zeros((N, 1), complex); num[N - 1, 0] = 1
            o2 = mk()
            o2.compute_dimensions(N - 1, jnp.array(num))
            got = int(o2.dimensions[0])
            if got != ref:
                viol.append((f"{kind}({z}) on the number state |{N - 1}> (dimension {N}): estimated dimension {got} after the same operation met another state of that shape, {ref} in a fresh process", {"case": "estimate-history", "kind": kind, "N": N}))
    # operand-type crosstalk between two Expression operations
    n += 1
    kinds.add("expression-types")
    try:
        mkF = expr_ops(0.2)
        opF = mkF()
        opP = Operation(CO.Expression, expr=("kron", "x", "x"), state_types=(Polarization, Polarization), context={"x": lambda d: OPS.x_operator()})
        w = fresh_world([(1, "H"), (1, "V")])
        w.handles[0].apply_operation(opF, w.subs[0], w.subs[2])
        w.handles[0].apply_operation(opP, w.subs[1], w.subs[3])
        w.handles[0].apply_operation(opF, w.subs[0], w.subs[2])
    except Exception as ex:
        viol.append((f"constructing a second Expression operation changed which operands the first accepts: {type(ex).__name__}: {str(ex)[:100]}", {"case": "expression types"}))
    L.close()
    cov = {"evaluations": n, "distinct_nontrivial": len(kinds), "rule": "dimension rules per type for q = 0..5; each operation type reused on operands of differing Fock size / layout (own, product space, matrix level) and compared with a fresh operation; user arrays compared with copies; distinct = check kinds x operation types",
           "samples": samples, "kinds": sorted(kinds)}
    return CL.finish(prop, tier, seed, pr, viol, list(pr.problems), cov, t0,
                     ["'acts like a freshly constructed one' is judged by comparing implementation against implementation (fresh object); what a fresh object does is C01/C03's subject"])
