"""The implementation side of the correspondence check: build photon_weave objects, read the
object graph the way a user would (public attributes only), reconstruct the joint density matrix
of all live subsystems, intercept the sampler.

Never use ==, `in`, .index on subsystems here: Fock.__eq__ compares by value.
"""
import warnings

warnings.filterwarnings("ignore")
import numpy as np
import jax
import jax.numpy as jnp

from photon_weave.state.envelope import Envelope
from photon_weave.state.composite_envelope import CompositeEnvelope
from photon_weave.state.fock import Fock
from photon_weave.state.polarization import Polarization, PolarizationLabel
from photon_weave.state.custom_state import CustomState
from photon_weave.state.expansion_levels import ExpansionLevel as EL
from photon_weave.photon_weave import Config

POLV = {
    "H": np.array([1, 0], complex),
    "V": np.array([0, 1], complex),
    "R": np.array([2**-0.5, 1j * 2**-0.5], complex),
    "L": np.array([2**-0.5, -1j * 2**-0.5], complex),
}


def ix(lst, obj):
    for i, x in enumerate(lst):
        if x is obj:
            return i
    return -1


def has(lst, obj):
    return ix(lst, obj) >= 0


class World:
    """Objects of one program, named by small integers in creation order."""

    def __init__(self):
        self.subs = []  # subsystems (Fock, Polarization, CustomState) in creation order; sid = index
        self.envs = []
        self.handles = []  # CompositeEnvelope handles

    def new_env(self, fock_label=0, pol_label="H", fock_dim=None):
        e = Envelope()
        e.fock.state = int(fock_label)
        if fock_dim is not None:
            e.fock.dimensions = int(fock_dim)
        e.polarization.state = PolarizationLabel[pol_label]
        self.envs.append(e)
        self.subs += [e.fock, e.polarization]
        return e

    def new_custom(self, dim, label=0):
        c = CustomState(int(dim))
        c.state = int(label)
        self.subs.append(c)
        return c

    def new_composite(self, refs):
        args = []
        for r in refs:
            k, i = r[0], int(r[1:])
            args.append({"e": self.envs, "c": None, "h": self.handles}[k][i] if k != "c" else self.customs()[i])
        h = CompositeEnvelope(*args)
        self.handles.append(h)
        return h

    def customs(self):
        return [s for s in self.subs if isinstance(s, CustomState)]

    def sid(self, s):
        return ix(self.subs, s)

    def kind(self, s):
        return "fock" if isinstance(s, Fock) else "pol" if isinstance(s, Polarization) else "custom"

    def live(self):
        return [s for s in self.subs if not getattr(s, "measured", False)]


def dims_of(s):
    d = s.dimensions
    if d is None or d < 0:
        d = (s.state + 1) if isinstance(s.state, (int, np.integer)) else 1
    return int(d)


def own_rho(s):
    """density matrix of a subsystem that holds its own state"""
    st = s.state
    if isinstance(st, PolarizationLabel):
        v = POLV[st.name]
        return np.outer(v, v.conj())
    if isinstance(st, (int, np.integer)) and not isinstance(st, bool):
        d = max(int(st) + 1, dims_of(s))
        v = np.zeros(d, complex)
        v[int(st)] = 1
        return np.outer(v, v.conj())
    a = np.asarray(st)
    if s.expansion_level == EL.Vector:
        v = a.reshape(-1)
        return np.outer(v, v.conj())
    return a.astype(complex)


def blocks(world):
    """Partition of the live subsystems into storage blocks, found through the public index:
    list of dicts {kind, members (objects in tensor order), array, level, holder}."""
    out, seen = [], set()
    for s in world.live():
        if id(s) in seen:
            continue
        idx = s.index
        if idx is None:
            out.append({"kind": "own", "members": [s], "array": s.state, "level": s.expansion_level, "holder": s})
            seen.add(id(s))
        elif isinstance(idx, int):
            e = s.envelope
            order = [None, None]
            order[e.fock.index] = e.fock
            order[e.polarization.index] = e.polarization
            out.append({"kind": "env", "members": order, "array": e.state, "level": e.expansion_level, "holder": e})
            for x in order:
                seen.add(id(x))
        else:
            ce = s.composite_envelope
            ps = ce.states[idx[0]]
            out.append({"kind": "ps", "members": list(ps.state_objs), "array": ps.state, "level": ps.expansion_level, "holder": ps})
            for x in ps.state_objs:
                seen.add(id(x))
    return out


def block_rho(b):
    if b["kind"] == "own":
        r = own_rho(b["members"][0])
        return r, [r.shape[0]]
    a = np.asarray(b["array"])
    d = [dims_of(o) for o in b["members"]]
    D = int(np.prod(d))
    if b["level"] == EL.Matrix:
        r = a.astype(complex)
    else:
        v = a.reshape(-1)
        r = np.outer(v, v.conj())
    if r.shape != (D, D):
        raise ValueError(f"block {b['kind']} has array of shape {a.shape} for member dimensions {d} at level {b['level']}")
    return r, d


def joint(world):
    """(sids, dims, rho): joint density matrix over the live subsystems in sid order"""
    live = world.live()
    bl = blocks(world)
    order, dims = [], []
    rho = np.array([[1.0 + 0j]])
    for b in bl:
        r, d = block_rho(b)
        rho = np.kron(rho, r)
        order += b["members"]
        dims += d
    n = len(order)
    if n == 0:
        return [], [], rho
    t = rho.reshape(dims + dims)
    perm = [ix(order, s) for s in live]
    if any(p < 0 for p in perm) or len(order) != len(live):
        raise ValueError("a live subsystem is stored in no block or in several")
    t = t.transpose(perm + [p + n for p in perm])
    nd = [dims[p] for p in perm]
    D = int(np.prod(nd))
    return [world.sid(s) for s in live], nd, t.reshape(D, D)


def pad_to(rho, dims, newdims):
    if list(dims) == list(newdims):
        return rho
    t = rho.reshape(list(dims) + list(dims))
    padw = [(0, nd - d) for d, nd in zip(dims, newdims)] * 2
    if any(p[1] < 0 for p in padw):
        raise ValueError("cannot pad to smaller dimension")
    t = np.pad(t, padw)
    D = int(np.prod(newdims))
    return t.reshape(D, D)


def compare(r1, d1, r2, d2):
    """max abs difference after padding both to the common (max) dimensions"""
    nd = [max(a, b) for a, b in zip(d1, d2)]
    a = pad_to(r1, d1, nd)
    b = pad_to(r2, d2, nd)
    return float(np.abs(a - b).max()) if a.size else 0.0


class Spy:
    """Intercept jax.random.choice: record (key, p, chosen); optionally force outcomes (only ones
    with non-zero probability are ever forced)."""

    def __init__(self, force=None):
        self.draws = []
        self.force = list(force) if force else []

    def __enter__(self):
        self.orig = jax.random.choice

        def spy(key, a, shape=(), replace=True, p=None, axis=0):
            pv = None if p is None else np.asarray(p, dtype=float).reshape(-1)
            try:
                kd = np.asarray(jax.random.key_data(key)).tolist()
            except Exception:
                kd = np.asarray(key).tolist()
            forced = None
            if self.force:
                k = self.force.pop(0)
                if k is not None and pv is not None and 0 <= k < len(pv) and pv[k] > 1e-9:
                    forced = int(k)
            if forced is not None:
                arr = jnp.asarray(a)
                res = arr.reshape(-1)[forced] if arr.ndim else jnp.asarray(forced)
            else:
                res = self.orig(key, a, shape, replace, p, axis)
            arr = np.asarray(a)
            if arr.ndim:
                pos = int(np.nonzero(arr.reshape(-1) == int(res))[0][0])
            else:
                pos = int(res)
            self.draws.append({"key": kd, "p": pv, "chosen": pos})
            return res

        jax.random.choice = spy
        return self

    def __exit__(self, *a):
        jax.random.choice = self.orig


def snapshot_blocks(world):
    """identity + bytes of every block array (for 'bystander untouched' and 'rejected call changes
    nothing')"""
    out = []
    for b in blocks(world):
        arr = b["array"]
        if isinstance(arr, (int, np.integer)):
            data = ("label", int(arr))
        elif isinstance(arr, PolarizationLabel):
            data = ("label", arr.name)
        else:
            a = np.asarray(arr)
            data = ("array", a.shape, a.astype(complex).tobytes())
        out.append({
            "kind": b["kind"],
            "members": [world.sid(m) for m in b["members"]],
            "level": None if b["level"] is None else int(b["level"]),
            "dims": [dims_of(m) for m in b["members"]],
            "data": data,
        })
    return out
