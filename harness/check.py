"""./check Cxx [--tier quick|thorough] [--replay FILE]

exit 0: the property held on everything explored (KNOWN-FINDING lines possible)
exit 1: a line `VIOLATION property=<id> replay=<path>` was printed
exit 2: infrastructure failure / timeout
"""
import argparse, collections, glob, json, os, sys, time, traceback, zlib

HERE = os.path.dirname(os.path.abspath(__file__))
sys.path.insert(0, HERE)
import checklib as CL
from checklib import VERIF

PROGRAM_PROPS = ["C01", "C02", "C03", "C04", "C05", "C06", "C07", "C08", "C09", "C10", "C11", "C13", "C17", "C18", "C20"]

QUICK = {"programs": 112, "steps": 8}
BUDGET_QUICK = (240, 200)        # seconds for the directed (corpus + cells) and the generated stage
BUDGET_THOROUGH = (900, 2400)
DROPPED = {}
from multiprocessing import TimeoutError as mp_TimeoutError
THOROUGH = {"programs": 1600, "steps": 10}


def derive_seed(prop, seed):
    return (zlib.crc32(prop.encode()) * 1000003 + int(seed) * 7919) % (2**31 - 1)


def program_campaign(prop, seed, n, steps, focus=None, avoid_known=True, extra_programs=()):
    import campaign
    focus = focus or prop
    base = derive_seed(prop, seed)
    results = []
    budget = BUDGET_THOROUGH if n > 400 else BUDGET_QUICK

    def collect(it, total, seconds, what):
        """results as they arrive; when the time budget of the stage is used up the rest is dropped (counted and
        printed, never a finding): the quick check has to stay a check that can run on every change"""
        out, t0 = [], time.time()
        try:
            for _ in range(total):
                left = seconds - (time.time() - t0)
                if left <= 0:
                    raise mp_TimeoutError()
                out.append(it.next(timeout=left))
        except mp_TimeoutError:
            print(f"[{prop}] time budget of the {what} stage ({seconds}s) used up: {total - len(out)} of {total} programs not run")
            DROPPED[what] = DROPPED.get(what, 0) + total - len(out)
        return out

    with campaign.pool() as p:
        extra_programs = list(extra_programs)
        fixed = collect(p.imap_unordered(campaign.run_fixed, extra_programs), len(extra_programs), budget[0], "directed") if extra_programs else []
        gen = collect(p.imap_unordered(campaign.run_generated, [(base + i, focus, steps, avoid_known) for i in range(n)]), n, budget[1], "generated")
        p.terminate()
    return fixed, gen


def summarize(prop, fixed, gen):
    cells = collections.Counter()
    distinct = set()
    nontriv = 0
    mine, others, harness, known = [], collections.Counter(), [], collections.Counter()
    steps_total = 0
    routes, route_checked = [], 0
    for r in list(fixed) + list(gen):
        prog = r["program"]
        sig = []
        for c in r.get("cells", []):
            cells[f"{c[0]}|{c[1]}|{'+'.join(map(str, c[2]))}|{'+'.join(map(str, c[3]))}"] += 1
            sig.append((c[0], c[1], tuple(c[2]), tuple(map(str, c[3]))))
        steps_total += len(prog["steps"])
        if r.get("timeout"):
            known["(dropped: program exceeded the time limit)"] += 1
        if r.get("nontrivial"):
            key = (tuple(sig), json.dumps(prog["setup"], sort_keys=True))
            if key not in distinct:
                distinct.add(key)
                nontriv += 1
        for k in r.get("known", []):
            known[f"{k[0]}: {k[1]}"] += 1
        route_checked += r.get("stats", {}).get("route_checked", 0)
        for m in r.get("route_mismatches", []):
            if route_owner(m, prog) in (prop, "*") or prop in ("C13", "C20"):
                routes.append((m, prog))
        for f in r["findings"]:
            if f[0] == prop:
                mine.append((f, prog))
            elif f[0] == "HARNESS":
                harness.append((f, prog))
            else:
                others[f[0]] += 1
    return {"cells": cells, "distinct_nontrivial": nontriv, "mine": mine, "others": others, "harness": harness,
            "known": known, "steps_total": steps_total, "programs": len(fixed) + len(gen), "routes": routes,
            "route_checked": route_checked}


def route_owner(m, prog):
    """which property's tie a routing mismatch belongs to (by the kind of the call)"""
    k, what = m.get("kind"), m.get("what")
    if k == "op":
        st = prog["steps"][m["step"]] if 0 <= m.get("step", -1) < len(prog["steps"]) else {}
        return "C03" if len(st.get("targets", [])) > 1 else "C01"
    return {"kraus": "C06", "povm": "C09", "measure": "C05", "trace_out": "C02", "resize": "C10", "struct": "C02"}.get(k, "*")


def mzi_programs():
    """Mach-Zehnder sweep (C11): 50/50 splitter, phase phi on one arm, 50/50 splitter, one photon in;
    detection probabilities sin^2(phi/2) (mode a) and cos^2(phi/2) (mode b) for the library's
    convention U = exp(i eta (a^dag b + a b^dag))"""
    import math
    progs = []
    for k, phi in enumerate([0.0, 0.4, math.pi / 2, 2.1, math.pi, 4.0, 5.5, 2 * math.pi, -1.3, 7.9]):
        for variant in range(5):
            steps = [{"kind": "op", "gate": "BS", "targets": [0, 2], "entry": "ce", "h": 0, "params": {"eta": math.pi / 4}}]
            if variant == 3:
                # the input mode sits in a combined envelope stored polarization-first
                steps = [{"kind": "struct", "what": "env_combine", "env": 0}, {"kind": "struct", "what": "env_reorder", "env": 0, "targets": [1, 0]}] + steps
            if variant == 4:
                # the empty mode sits in a combined envelope whose polarization was rotated (density-matrix level)
                steps = [{"kind": "struct", "what": "set_contraction", "on": False}, {"kind": "struct", "what": "env_combine", "env": 1},
                         {"kind": "op", "gate": "H", "targets": [3], "entry": "env"}, {"kind": "struct", "what": "expand", "entry": "env", "targets": [2]}] + steps
            if variant == 1:
                steps = [{"kind": "struct", "what": "set_contraction", "on": False}] + steps + [{"kind": "struct", "what": "expand", "entry": "ce", "h": 0, "targets": [0]}]
            arm = 0 if variant not in (2, 4) else 2
            steps.append({"kind": "op", "gate": "PhaseShift", "targets": [arm], "entry": ["state", "ce", "env"][k % 3], "h": 0, "params": {"phi": phi}})
            steps.append({"kind": "op", "gate": "BS", "targets": [0, 2], "entry": "ce", "h": 0, "params": {"eta": math.pi / 4}})
            s2, c2 = math.sin(phi / 2) ** 2, math.cos(phi / 2) ** 2
            steps.append({"kind": "probe", "targets": [0], "expect": [c2, s2], "note": f"MZI phi={phi:.3f} mode a"})
            steps.append({"kind": "probe", "targets": [2], "expect": [s2, c2], "note": f"MZI phi={phi:.3f} mode b"})
            progs.append({"seed": 5, "contraction": True, "focus": "C11", "setup": {"envs": [{"fock": 1, "pol": "H"}, {"fock": 0, "pol": "H"}], "customs": [], "composites": [["e0", "e1"]]}, "steps": steps})
    # a phase shifter on a mode with number coherences that sits inside a *combined envelope* (vector and
    # density-matrix level, every entry point), then the splitter: judged against the specification
    h2 = [[[2 ** -0.5, 0.0], [2 ** -0.5, 0.0]], [[2 ** -0.5, 0.0], [-(2 ** -0.5), 0.0]]]
    for k, phi in enumerate([math.pi / 2, -1.1, 2.7]):
        for level in ("vector", "matrix"):
            for en in ("state", "env", "ce"):
                steps = [{"kind": "struct", "what": "set_contraction", "on": False},
                         {"kind": "op", "targets": [0], "entry": "state", "gate": "FockCustom", "U": h2},
                         {"kind": "op", "targets": [2], "entry": "state", "gate": "FockCustom", "U": h2},
                         {"kind": "op", "targets": [1], "entry": "state", "gate": "RY", "params": {"theta": 0.9}},
                         {"kind": "struct", "what": "env_combine", "env": 0}]
                if level == "matrix":
                    steps.append({"kind": "struct", "what": "expand", "entry": "env", "targets": [0]})
                steps.append({"kind": "op", "gate": "PhaseShift", "targets": [0], "entry": en, "h": 0, "params": {"phi": phi}})
                steps.append({"kind": "op", "gate": "BS", "targets": [0, 2], "entry": "ce", "h": 0, "params": {"eta": math.pi / 4}})
                progs.append({"seed": 5, "contraction": False, "focus": "C11", "setup": {"envs": [{"fock": 0, "pol": "H", "fdim": 2}, {"fock": 0, "pol": "H", "fdim": 2}], "customs": [], "composites": [["e0", "e1"]]}, "steps": steps})
    return progs


def load_corpus(prop):
    """fixed programs of a check: the corpus of past failures, the closed-form sweep (C11) and the
    directed cell matrix (one program per call kind x entry x storage location x level)"""
    import cells
    fixed = _load_corpus_files(prop)
    if prop == "C11":
        fixed = mzi_programs() + fixed
    return fixed + cells.cell_programs(prop)


def _load_corpus_files(prop):
    out = []
    for f in sorted(glob.glob(os.path.join(VERIF, "corpus", prop, "*.json"))):
        try:
            out.append(json.load(open(f)))
        except Exception:
            pass
    return out


def replay_known(prop):
    """replay the listed known findings of this property on the implementation"""
    import campaign
    kf = [k for k in CL.load_known().get("known", []) if k["property"] == prop]
    lines = []
    if not kf:
        return lines
    campaign._init()
    for k in kf:
        try:
            if "program" in k:
                r = campaign.run_fixed(k["program"])
                hit = [f for f in r["findings"] if f[0] == prop and k.get("match", "") in f[1]] or \
                      [x for x in r.get("known", []) if x[0] == prop and k.get("match", "") in x[1]]
            elif "script" in k:
                rc, out = CL.sh(f"/venv/bin/python {os.path.join(VERIF, k['script'])}", cwd=VERIF, timeout=600)
                hit = [out] if rc == 1 else []
            else:
                hit = []
        except Exception as ex:
            hit = []
            lines.append(f"note: known finding {k['id']} could not be replayed: {ex}")
        if hit:
            lines.append(f"KNOWN-FINDING: property={prop} {k['what']}")
        else:
            lines.append(f"note: known finding {k['id']} no longer reproduces (repaired?)")
    return lines


def msg_class(msg):
    """class of a finding message: numbers and bracketed lists removed, first 48 characters"""
    import re
    return re.sub(r"[-+]?\d+(\.\d+)?(e[-+]?\d+)?|\[[^\]]*\]", "#", msg)[:48]


def shrink(prop, prog, finding=None):
    """delete steps while the program still fails *in the same way* (same property, same class of
    message): deleting a step must not turn the program into a different, possibly invalid, request"""
    import campaign
    want = msg_class(finding[1]) if finding else None

    def fails(p):
        r = campaign.run_fixed(p)
        return any(f[0] == prop and (want is None or msg_class(f[1]) == want) for f in r["findings"])

    try:
        campaign._init()
        return CL.shrink_program(prog, fails)
    except Exception:
        return prog


def einsum_tie(quick=True):
    from funcs import einsum_correspondence
    return einsum_correspondence(5 if quick else 6)


def run_program_check(prop, tier, seed):
    t0 = time.time()
    thorough = tier == "thorough"
    cfg = THOROUGH if thorough else QUICK
    pr = CL.lean_build(prop, thorough)
    tie_problems = list(pr.problems)
    print(f"[{prop}] lean: {len(pr.theorems)} theorems audited, build {'ok' if pr.ok else 'BROKEN'} ({getattr(pr, 'wall', 0):.0f}s)")
    for p in pr.problems:
        print(f"[{prop}] proof obligation problem: {p}")
    es = None
    if pr.ok or os.path.exists(os.path.join(CL.LEAN, ".lake", "build", "bin", "pwdriver")):
        try:
            es = einsum_tie(not thorough)
            if es["mismatches"]:
                tie_problems.append(f"einsum generator correspondence: {len(es['mismatches'])} of {es['cases']} strings differ, e.g. {es['mismatches'][0]}")
                print(f"[{prop}] correspondence (einsum strings) BROKEN: {es['mismatches'][:2]}")
        except Exception as ex:
            tie_problems.append(f"einsum correspondence could not run: {ex}")
    for line in replay_known(prop):
        print(line)
    fixed, gen = program_campaign(prop, seed, cfg["programs"], cfg["steps"], extra_programs=load_corpus(prop))
    S = summarize(prop, fixed, gen)
    if S["routes"]:
        m, prog = S["routes"][0]
        tie_problems.append(f"routing correspondence: {len(S['routes'])} call(s) leave a partition / member order that differs from the model PW.Routing, e.g. {m.get('kind')}:{m.get('what')} via {m.get('entry')}: model {m.get('model')} implementation {m.get('impl')}")
        print(f"[{prop}] correspondence (routing model) BROKEN in {len(S['routes'])} call(s): {str(m.get('model'))[:120]} vs {str(m.get('impl'))[:120]}")
    if tie_problems and not S["mine"]:
        # broken tie: search harder for a failing input before giving up
        print(f"[{prop}] tie broken, searching for a failing input ...")
        f2, g2 = program_campaign(prop, seed + 1, cfg["programs"] * 2, cfg["steps"] + 2)
        S2 = summarize(prop, f2, g2)
        S["mine"] += S2["mine"]
        S["programs"] += S2["programs"]
    extra = None
    if prop in ("C08", "C17", "C10"):
        # decision logic modelled in PW.Decide: function-level correspondence on crafted inputs
        try:
            import fn_decide
            extra = fn_decide.run(prop, seed, thorough)
            if extra["tie"]:
                tie_problems.append(f"decision-logic correspondence (PW.Decide): {len(extra['tie'])} of {extra['cases']} cases differ, e.g. {extra['tie'][0]}")
                print(f"[{prop}] correspondence (decision logic) BROKEN in {len(extra['tie'])} case(s): {extra['tie'][0][:200]}")
        except Exception as ex:
            tie_problems.append(f"decision-logic correspondence could not run: {type(ex).__name__}: {ex}")
    violations = 0
    if S["harness"]:
        f, prog = S["harness"][0]
        print(f"[{prop}] harness problem in {len(S['harness'])} program(s): {f[1][:300]}")
    if S["mine"]:
        (f, prog) = S["mine"][0]
        # directed / corpus programs are minimal already; an invalid request owes its invalidity to the
        # steps before it (deleting them can turn it into a valid one that is "not rejected")
        fixed_prog = "cell" in prog or any(prog is r["program"] for r in fixed)
        failing_invalid = 0 <= f[2] < len(prog["steps"]) and prog["steps"][f[2]].get("kind") == "invalid"
        small = prog if (fixed_prog or failing_invalid) else shrink(prop, prog, f)
        path = CL.write_replay(prop, {"property": prop, "finding": f[1], "step": f[2], "program": small, "original_program": prog,
                                      "how": f"./check {prop} --replay <this file>"})
        print(f"[{prop}] {len(S['mine'])} program(s) violate the property; first: {f[1][:300]}")
        print(f"VIOLATION property={prop} replay={path}")
        violations = len(S["mine"])
    elif extra and extra["violations"]:
        msg, payload = extra["violations"][0]
        path = CL.write_replay(prop, {"property": prop, "finding": msg, "input": payload, "how": f"harness/fn_decide.py {prop} (function-level: the crafted input is in this file)"})
        print(f"[{prop}] {len(extra['violations'])} crafted input(s) violate the property; first: {msg[:300]}")
        print(f"VIOLATION property={prop} replay={path}")
        violations = len(extra["violations"])
    elif tie_problems:
        path = CL.write_replay(prop, {"property": prop, "broken": tie_problems, "note": "no failing input found; the property is no longer shown to hold",
                                      "routing_example": ({"mismatch": S["routes"][0][0], "program": S["routes"][0][1]} if S["routes"] else None)})
        print(f"VIOLATION property={prop} replay={path} no-failing-input-found")
        violations = 1
    wall = time.time() - t0
    samples = [{"setup": r["program"]["setup"], "steps": [{k: (v if k not in ("ops", "U") else "<matrices>") for k, v in s.items()} for s in r["program"]["steps"]]} for r in gen[:2]]
    cov = {
        "obligations": len(pr.theorems), "discharged": len(pr.theorems) if pr.ok else 0,
        "checker_cmd": pr.cmd, "trusted_base": CL.TRUSTED_BASE,
        "theorems": [{"name": n, "axioms": a} for n, a in pr.theorems],
        "evaluations": S["programs"], "steps_executed": S["steps_total"],
        "distinct_nontrivial": S["distinct_nontrivial"],
        "rule": "programs generated online from one PRNG (seed derived from VERIF_SEED); a program counts once per distinct (set-up, sequence of (call kind, entry point, storage location, level)) and is non-trivial if its final world holds an entangled/multi-member or mixed block",
        "samples": samples,
        "cell_histogram": dict(S["cells"].most_common(60)),
        "cells_distinct": len(S["cells"]),
        "findings_for_other_properties": dict(S["others"]),
        "known_finding_cells_hit": dict(S["known"]),
        "harness_errors": len(S["harness"]),
        "einsum_strings_compared": (es or {}).get("cases", 0),
        "routing_calls_compared": S["route_checked"],
        "routing_mismatches": len(S["routes"]),
        "proof_problems": tie_problems,
        "corpus_programs": len([r for r in fixed if "cell" not in r["program"]]),
        "directed_cell_programs": len([r for r in fixed if "cell" in r["program"]]),
        "programs_not_run_time_budget": dict(DROPPED),
    }
    if extra:
        cov["decision_logic_cases"] = extra["cases"]
        cov["decision_logic_histogram"] = extra["histogram"]
        cov["decision_logic_mismatches"] = len(extra["tie"])
    CL.write_evidence(prop, tier, seed, cov, wall, violations, [
        "floating point: theorems are over exact rings; comparison tolerance 1e-7 (5e-3 after displacement/squeezing)",
        "generator avoids the cells listed as known findings (known_findings.json); they are replayed separately",
    ])
    print(f"[{prop}] {S['programs']} programs, {S['steps_total']} steps, {len(S['cells'])} distinct cells, {wall:.0f}s")
    return 1 if violations else 0


def main():
    ap = argparse.ArgumentParser()
    ap.add_argument("prop")
    ap.add_argument("--tier", default=os.environ.get("VERIF_TIER", "quick"))
    ap.add_argument("--replay")
    a = ap.parse_args()
    seed = int(os.environ.get("VERIF_SEED", "0") or 0)
    tier = a.tier if a.tier in ("quick", "thorough") else "quick"
    try:
        if a.replay:
            import campaign
            data = json.load(open(a.replay))
            if "program" not in data:
                print(json.dumps(data, indent=1))
                return 1
            campaign._init()
            r = campaign.run_fixed(data["program"])
            for f in r["findings"]:
                print(f"[{f[0]} @step {f[2]}] {f[1]}")
            return 1 if any(f[0] == a.prop for f in r["findings"]) else 0
        if a.prop in PROGRAM_PROPS:
            return run_program_check(a.prop, tier, seed)
        import funcs
        return funcs.run_function_check(a.prop, tier, seed)
    except SystemExit:
        raise
    except Exception:
        traceback.print_exc()
        return 2


if __name__ == "__main__":
    rc = main()
    sys.stdout.flush()
    sys.stderr.flush()
    # leave at once: workers stopped by a time budget are not waited for
    os._exit(rc if isinstance(rc, int) else 0)
