"""C16: the expression interpreter against the Lean model PW.Interp (random well-formed trees over
all commands with number / numpy / jax / context-name leaves; leaves and context entries are
compared with deep copies after evaluation; malformed heads must raise)."""
import copy, math, random, time, zlib
import numpy as np
import jax.numpy as jnp
import photon_weave._math.ops  # enables jax x64 as every real use of the library does
import checklib as CL
from leanio import Lean, f2b, b2f, carr, uncarr

HEADS = ["add", "sub", "s_mult", "m_mult", "kron", "expm", "div"]


def jnum(z):
    z = complex(z)
    return {"num": [f2b(z.real), f2b(z.imag)]}


def jmat(m):
    m = np.asarray(m, dtype=complex)
    d = carr(m)
    d["n"] = int(m.shape[0])
    return {"mat": d}


class TreeGen:
    def __init__(self, rng, n):
        self.rng, self.n = rng, n  # all matrices are n x n so that every command is well formed
        self.rs = np.random.RandomState(rng.randrange(2**31))
        self.leaves = []  # (python object, deep copy)

    def rmat(self, n=None):
        """random complex matrix; one in three has structure (diagonal, lower / upper triangular, strictly
        lower: ladder-operator like, Hermitian, real) so that shortcuts for special matrices are reached"""
        n = n or self.n
        m = (self.rs.randn(n, n) + 1j * self.rs.randn(n, n)) * 0.6
        k = self.rng.random()
        if k < 0.06:
            m = np.diag(np.diag(m))
        elif k < 0.13:
            m = np.tril(m)
        elif k < 0.19:
            m = np.triu(m)
        elif k < 0.25:
            m = np.tril(m, -1)
        elif k < 0.29:
            m = (m + m.conj().T) / 2
        elif k < 0.33:
            m = m.real.astype(complex)
        return m

    def leaf(self, kind, want):
        r = self.rng
        if want == "num":
            z = complex(round(r.uniform(-2, 2), 3), round(r.uniform(-2, 2), 3)) if r.random() < 0.5 else round(r.uniform(0.3, 2), 3)
            k = r.choice(["py", "py", "np0"])
            obj = z if k == "py" else np.array(z)
            self.leaves.append((obj, copy.deepcopy(obj)))
            return obj, jnum(z)
        m = self.rmat()
        if kind == "numpy":
            obj = np.array(m)
        elif kind == "jax":
            obj = jnp.array(m)
        else:
            name = f"n{len(self.ctx_vals)}"
            which = r.randrange(len(self.dims))
            # a context entry that depends on the dimension list it is called with
            base = np.array(m)
            self.ctx_src[name] = (base, which)
            self.ctx_vals[name] = base * self.dims[which]
            return name, {"name": name}
        self.leaves.append((obj, copy.deepcopy(np.asarray(obj))))
        return obj, jmat(m)

    def tree(self, depth, want="mat", allow_expm=True):
        r = self.rng
        if depth == 0 or r.random() < 0.25:
            return self.leaf(r.choice(["numpy", "jax", "name"]), want)
        if want == "num":
            h = r.choice(["add", "sub", "s_mult", "div"])
            k = 2 if h in ("sub", "div") else r.choice([2, 3])
            subs = [self.tree(depth - 1, "num") for _ in range(k)]
        else:
            h = r.choice(HEADS if allow_expm else [x for x in HEADS if x != "expm"])
            if h == "expm":
                # one exponential per path keeps the values in a range where 1e-7 relative is meaningful
                subs = [self.tree(depth - 1, "mat", False)]
            elif h in ("sub", "div"):
                subs = [self.tree(depth - 1, "mat", allow_expm), self.tree(depth - 1, r.choice(["mat", "num"]), False)]
            elif h == "m_mult":
                subs = [self.tree(depth - 1, "mat", False) for _ in range(r.choice([2, 3]))]
            elif h == "kron":
                # keep sizes bounded: kron of small matrices
                return self.kron_tree(depth)
            else:
                k = r.choice([2, 3])
                subs = [self.tree(depth - 1, r.choice(["mat", "mat", "num"]), False) for _ in range(k)]
                if all(isinstance(s[1], dict) and "num" in s[1] for s in subs):
                    subs[0] = self.tree(depth - 1, "mat", False)
        return (h, *[s[0] for s in subs]), {"node": h, "args": [s[1] for s in subs]}

    def kron_tree(self, depth):
        # ('kron', A, B) with 2x2 factors composed so that the result is n x n when n == 4; otherwise scalar factors
        if self.n == 8 or (self.n == 4 and self.rng.random() < 0.4):
            # n-ary kron: three (or more) arguments, non-commuting factors of unequal shapes
            if self.n == 8:
                ms = [self.rmat(2), self.rmat(2), self.rmat(2)]
            else:
                ms = [self.rmat(2), self.rmat(2)]
                ms.insert(self.rng.randrange(3), self.rmat(1))
            objs, js = [], []
            for q, m in enumerate(ms):
                o = np.array(m) if (q + self.rng.randrange(2)) % 2 == 0 else jnp.array(m)
                self.leaves.append((o, copy.deepcopy(np.asarray(o))))
                objs.append(o)
                js.append(jmat(m))
            return ("kron", *objs), {"node": "kron", "args": js}
        if self.n == 4:
            a, b = self.rmat(2), self.rmat(2)
            oa, ob = np.array(a), jnp.array(b)
            self.leaves += [(oa, copy.deepcopy(oa)), (ob, copy.deepcopy(np.asarray(ob)))]
            return ("kron", oa, ob), {"node": "kron", "args": [jmat(a), jmat(b)]}
        s = self.tree(depth - 1, "mat", False)
        z = round(self.rng.uniform(0.5, 1.5), 3)
        if self.rng.random() < 0.5:
            return ("kron", z, s[0]), {"node": "kron", "args": [jnum(z), s[1]]}
        return ("kron", s[0], z), {"node": "kron", "args": [s[1], jnum(z)]}

    def make(self, depth):
        self.dims = [self.rng.randrange(2, 6) for _ in range(self.rng.choice([1, 2, 3]))]
        self.ctx_src, self.ctx_vals = {}, {}
        expr, j = self.tree(depth, "mat")
        ctx = {k: (lambda dims, b=b, w=w: b * dims[w]) for k, (b, w) in self.ctx_src.items()}
        return expr, j, ctx


def as_val(v):
    a = np.asarray(v)
    if a.ndim == 0:
        return ("num", complex(a))
    return ("mat", a.astype(complex))


def run(prop, tier, seed):
    from photon_weave.extra.expression_interpreter import interpreter
    t0 = time.time()
    thorough = tier == "thorough"
    pr = CL.lean_build(prop, thorough)
    print(f"[{prop}] lean: {len(pr.theorems)} theorems audited, build {'ok' if pr.ok else 'BROKEN'}")
    for p in pr.problems:
        print(f"[{prop}] proof obligation problem: {p}")
    rng = random.Random(zlib.crc32(b"C16") + int(seed))
    L = Lean()
    viol, n, ill = [], 0, 0
    heads_seen, shapes = {}, set()
    samples = []
    N = 3000 if thorough else 400
    for k in range(N):
        g = TreeGen(rng, rng.choice([2, 3, 4, 4, 8]))
        depth = rng.choice([1, 2, 2, 3, 4]) if not thorough else rng.choice([1, 2, 3, 4, 5])
        expr, j, ctx = g.make(depth)
        ctxj = {name: jmat(v) for name, v in g.ctx_vals.items()}
        ctx_copy = {name: copy.deepcopy(b) for name, (b, w) in g.ctx_src.items()}
        n += 1

        def count(e):
            if isinstance(e, tuple):
                heads_seen[e[0]] = heads_seen.get(e[0], 0) + 1
                for a in e[1:]:
                    count(a)
        count(expr)
        shapes.add(repr(shape_of(expr)))
        try:
            out = interpreter(expr, ctx, list(g.dims))
            err = None
        except Exception as ex:
            out, err = None, ex
        r = L.call(op="interp", expr=j, ctx=ctxj)
        desc = {"expr": describe(expr), "dims": g.dims}
        if len(samples) < 3:
            samples.append(desc)
        if "err" in r:
            if err is None:
                viol.append((f"interpreter returned a value where the model rejects ({r['err']}): {describe(expr)}", desc))
            continue
        if err is not None:
            viol.append((f"interpreter raised {type(err).__name__}: {str(err)[:100]} on a well-formed expression {describe(expr)}", desc))
            continue
        kind, val = as_val(out)
        if "num" in r["val"]:
            ref = complex(b2f(r["val"]["num"][0]), b2f(r["val"]["num"][1]))
            ok = kind == "num" and abs(val - ref) <= 1e-8 * max(1, abs(ref))
        else:
            m = r["val"]["mat"]
            ref = uncarr(m).reshape(m["n"], m["n"])
            ok = kind == "mat" and val.shape == ref.shape and np.abs(val - ref).max() <= 1e-7 * max(1, np.abs(ref).max())
        if not ok and not np.all(np.isfinite(np.asarray(ref))):
            # division by an exact zero entry of a structured (diagonal / triangular) matrix: inf / nan on both
            # sides, nothing to compare
            ill += 1
            ok = True
        if not ok and heads_in(expr, "expm") and np.abs(np.asarray(ref)).max() > 1e6:
            # exponential of a matrix of large norm (overflow / catastrophic cancellation on both sides):
            # 1e-7 relative is not meaningful, the case is counted and not judged
            ill += 1
            ok = True
        if not ok:
            viol.append((f"interpreter value differs from the matrix expression: {describe(expr)} with dims {g.dims}", desc))
        # side-effect freedom
        for obj, cp in g.leaves:
            if not np.array_equal(np.asarray(obj), np.asarray(cp)):
                viol.append((f"evaluation modified a caller-supplied leaf array in {describe(expr)}", desc))
                break
        for name, (b, w) in g.ctx_src.items():
            if not np.array_equal(b, ctx_copy[name]):
                viol.append((f"evaluation modified a context entry in {describe(expr)}", desc))
                break
    # malformed heads
    bad_heads = ["mult", "ADD", "", "plus", "exp", "matmul", "kron ", "divide", None, 3]
    for h in bad_heads:
        n += 1
        try:
            out = interpreter((h, np.eye(2), np.eye(2)), {}, [2])
            viol.append((f"unknown command {h!r} returned {type(out).__name__} instead of raising", {"head": repr(h)}))
        except Exception:
            pass
        if isinstance(h, str):
            r = L.call(op="interp", expr={"node": h, "args": [jmat(np.eye(2)), jmat(np.eye(2))]}, ctx={})
            if "err" not in r:
                viol.append((f"model accepts unknown head {h!r}", {"head": h}))
    L.close()
    cov = {"evaluations": n, "distinct_nontrivial": len(shapes), "rule": "random well-formed trees (depth <= 4, thorough 5) over the seven commands with python-number, numpy, jax and context-name leaves and dimension lists of length 1-3; distinct = tree shapes (heads and leaf kinds); plus malformed heads",
           "samples": samples, "non_finite_or_ill_conditioned_not_judged": ill, "commands_exercised": heads_seen, "malformed_heads": len(bad_heads)}
    return CL.finish(prop, tier, seed, pr, viol, list(pr.problems), cov, t0,
                     ["Float arithmetic on both sides, tolerance 1e-7 relative; numpy broadcasting rules for + - * / are part of the model",
                      "in-place mutation of caller arrays is observed on the Python side (deep copies), it is not expressible in the pure model"])


def heads_in(e, h):
    return isinstance(e, tuple) and (e[0] == h or any(heads_in(a, h) for a in e[1:]))


def shape_of(e):
    if isinstance(e, tuple):
        return (e[0],) + tuple(shape_of(a) for a in e[1:])
    if isinstance(e, str):
        return "name"
    if isinstance(e, np.ndarray):
        return "np" if e.ndim else "np0"
    if isinstance(e, (int, float, complex)):
        return "py"
    return "jax"


def describe(e):
    if isinstance(e, tuple):
        return "(" + " ".join([str(e[0])] + [describe(a) for a in e[1:]]) + ")"
    if isinstance(e, str):
        return e
    a = np.asarray(e)
    return f"<{shape_of(e)} {a.shape}>" if a.ndim else str(complex(a))
