"""Common machinery of the per-property checks: Lean build + axiom audit, program campaigns,
known findings, failing-input search, replay files, evidence files."""
import collections, glob, hashlib, json, os, random, re, subprocess, sys, time

HERE = os.path.dirname(os.path.abspath(__file__))
VERIF = os.path.dirname(HERE)
LEAN = os.path.join(VERIF, "lean")
sys.path.insert(0, HERE)

ALLOWED_AXIOMS = {"propext", "Classical.choice", "Quot.sound"}
FORBIDDEN = re.compile(r"\b(sorry|admit|native_decide|bv_decide|implemented_by|unsafe)\b|^axiom |maxHeartbeats 0")


def sh(cmd, cwd=None, timeout=3600):
    p = subprocess.run(cmd, shell=True, cwd=cwd, stdout=subprocess.PIPE, stderr=subprocess.STDOUT, text=True, timeout=timeout)
    return p.returncode, p.stdout


def strip_comments(src):
    src = re.sub(r"/-.*?-/", "", src, flags=re.S)
    src = re.sub(r"--.*", "", src)
    return src


class Proof:
    """result of building the Lean side for one property"""

    def __init__(self):
        self.ok = True
        self.theorems = []       # (name, [axioms])
        self.problems = []
        self.cmd = ""
        self.log = ""


def lean_build(prop, thorough=False):
    """(re)build the model driver and the property's theorem module; audit axioms and source"""
    pr = Proof()
    t0 = time.time()
    gen = os.path.join(VERIF, "tools", "gen_tables.py")
    if os.path.exists(gen):
        rc, out = sh(f"/venv/bin/python {gen}", cwd=VERIF)
        pr.log += out
        if rc != 0:
            pr.ok = False
            pr.problems.append("table translator failed: " + out[-400:])
    mod = f"PW.Props.{prop}"
    path = os.path.join(LEAN, "PW", "Props", f"{prop}.lean")
    if thorough:
        sh(f"rm -f .lake/build/lib/lean/PW/Props/{prop}.olean .lake/build/lib/lean/PW/Props/{prop}.ilean", cwd=LEAN)
    pr.cmd = f"cd lean && lake build {mod} pwdriver && lake env lean PW/Props/{prop}.lean  # axioms audited"
    rc, out = sh(f"lake build {mod} pwdriver 2>&1", cwd=LEAN, timeout=3000)
    pr.log += out
    if rc != 0:
        pr.ok = False
        errs = [l for l in out.splitlines() if "error" in l][:6]
        pr.problems.append("lake build failed: " + " | ".join(errs))
        return pr
    rc, out = sh(f"lake env lean PW/Props/{prop}.lean 2>&1", cwd=LEAN, timeout=3000)
    pr.log += out
    if rc != 0:
        pr.ok = False
        pr.problems.append("property module does not elaborate: " + out[-400:])
        return pr
    for m in re.finditer(r"'([^']+)' depends on axioms: \[([^\]]*)\]", out):
        pr.theorems.append((m.group(1), [a.strip() for a in m.group(2).split(",") if a.strip()]))
    for m in re.finditer(r"'([^']+)' does not depend on any axioms", out):
        pr.theorems.append((m.group(1), []))
    if not pr.theorems:
        pr.ok = False
        pr.problems.append("no '#print axioms' output found for the property module")
    for name, ax in pr.theorems:
        extra = [a for a in ax if a not in ALLOWED_AXIOMS]
        if extra:
            pr.ok = False
            pr.problems.append(f"theorem {name} depends on non-standard axioms {extra}")
    # source audit over the whole Lean project
    for f in glob.glob(os.path.join(LEAN, "PW", "**", "*.lean"), recursive=True) + [os.path.join(LEAN, "PW.lean")]:
        src = strip_comments(open(f).read())
        for ln in src.splitlines():
            if FORBIDDEN.search(ln):
                pr.ok = False
                pr.problems.append(f"forbidden construct in {os.path.relpath(f, VERIF)}: {ln.strip()[:80]}")
    if thorough:
        rc, out = sh(f"lake env leanchecker {mod} 2>&1", cwd=LEAN, timeout=3000)
        pr.log += out
        if rc != 0:
            pr.ok = False
            pr.problems.append("leanchecker rejected the module: " + out[-300:])
        else:
            pr.cmd += f" && lake env leanchecker {mod}"
    pr.wall = time.time() - t0
    return pr


# ---------------------------------------------------------------------------------------------
def load_known():
    p = os.path.join(VERIF, "known_findings.json")
    if os.path.exists(p):
        return json.load(open(p))
    return {"known": [], "fixed": []}


def write_replay(prop, payload):
    d = os.path.join(VERIF, "replays")
    os.makedirs(d, exist_ok=True)
    h = hashlib.sha1(json.dumps(payload, sort_keys=True, default=str).encode()).hexdigest()[:10]
    path = os.path.join(d, f"{prop}-{h}.json")
    json.dump(payload, open(path, "w"), indent=1, default=str)
    return os.path.relpath(path, VERIF)


def write_evidence(prop, tier, seed, coverage, wall, violations, assumptions):
    d = os.path.join(VERIF, "evidence")
    os.makedirs(d, exist_ok=True)
    ev = {"property_id": prop, "tier": tier, "seed": int(seed), "level": "proof", "coverage": coverage,
          "assumptions": assumptions, "wall_s": round(wall, 2), "violations": int(violations)}
    json.dump(ev, open(os.path.join(d, f"{prop}.json"), "w"), indent=1, default=str)


TRUSTED_BASE = [
    "Lean 4.33 kernel (thorough tier: leanchecker); axioms propext, Classical.choice, Quot.sound only",
    "the statements in lean/PW/Spec.lean and lean/PW/Props/*.lean",
    "hand-written executable model tied to /repo by the correspondence check (differential testing, coverage measured per run)",
    "numpy/jax primitives (einsum, kron, reshape, pad, expm, eigh, random.split/choice) compute their mathematical definitions up to rounding",
    "Python semantics of is/==, dict hashing by uid; interpreter not run with -O",
]


# ---------------------------------------------------------------------------------------------
def shrink_program(prog, still_fails, max_rounds=40):
    """delete steps while the program still fails (ddmin-lite)"""
    steps = list(prog["steps"])
    changed = True
    rounds = 0
    while changed and rounds < max_rounds:
        changed = False
        rounds += 1
        for k in range(len(steps) - 1, -1, -1):
            cand = steps[:k] + steps[k + 1:]
            p2 = dict(prog)
            p2["steps"] = cand
            try:
                if still_fails(p2):
                    steps = cand
                    changed = True
            except Exception:
                pass
    out = dict(prog)
    out["steps"] = steps
    return out


def finish(prop, tier, seed, pr, violations, tie_problems, cov_extra, t0, assumptions, known_lines=()):
    """common tail of a function-level check: print verdict lines, write evidence, return exit code.
    violations: list of (message, replay payload)"""
    for line in known_lines:
        print(line)
    nviol = 0
    if violations:
        msg, payload = violations[0]
        path = write_replay(prop, {"property": prop, "finding": msg, **payload})
        print(f"[{prop}] {len(violations)} case(s) violate the property; first: {msg[:300]}")
        print(f"VIOLATION property={prop} replay={path}")
        nviol = len(violations)
    elif tie_problems:
        path = write_replay(prop, {"property": prop, "broken": tie_problems, "note": "no failing input found; the property is no longer shown to hold"})
        print(f"VIOLATION property={prop} replay={path} no-failing-input-found")
        nviol = 1
    cov = {"obligations": len(pr.theorems), "discharged": len(pr.theorems) if pr.ok else 0, "checker_cmd": pr.cmd,
           "trusted_base": TRUSTED_BASE, "theorems": [{"name": n, "axioms": a} for n, a in pr.theorems],
           "proof_problems": tie_problems}
    cov.update(cov_extra)
    write_evidence(prop, tier, seed, cov, time.time() - t0, nviol, assumptions)
    print(f"[{prop}] {cov.get('evaluations', 0)} cases, {time.time() - t0:.0f}s")
    return 1 if nviol else 0
