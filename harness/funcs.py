"""Function-level correspondences (pure functions of the library against the Lean model)."""
import itertools, json, math, os, random, sys, time

HERE = os.path.dirname(os.path.abspath(__file__))
sys.path.insert(0, HERE)
import numpy as np
from leanio import Lean, LeanError, carr, uncarr, f2b, b2f


def canon_str(s):
    m = {}
    out = []
    for ch in s:
        if ch.isalpha():
            if ch not in m:
                m[ch] = chr(97 + len(m))
            out.append(m[ch])
        else:
            out.append(ch)
    return "".join(out)


class Obj:
    pass


def einsum_cases(nmax):
    """(function name, n, positions) for every generator: ordered nodup operand lists"""
    for n in range(1, nmax + 1):
        pos = list(range(n))
        for k in range(1, n + 1):
            for ops in itertools.permutations(pos, k):
                if k <= 3 or n <= 4:
                    yield "apply_operator_vector", n, list(ops)
                    yield "apply_operator_matrix", n, list(ops)
        for k in range(0, n + 1):
            for kept in itertools.combinations(pos, k):
                for order in (itertools.permutations(kept) if k <= 3 else [kept]):
                    yield "trace_out_vector", n, list(order)
                    yield "trace_out_matrix", n, list(order)
                    if k >= 1:
                        yield "measure_vector", n, list(order)
                        yield "measure_matrix", n, list(order)
        for perm in itertools.permutations(pos):
            yield "reorder_vector", n, list(perm)
            yield "reorder_matrix", n, list(perm)


def einsum_correspondence(nmax=5, lean=None):
    import photon_weave.extra.einsum_constructor as ESC
    L = lean or Lean()
    mism, cases = [], 0
    per_fn = {}
    try:
        for fn, n, ops in einsum_cases(nmax):
            objs = [Obj() for _ in range(n)]
            try:
                real = canon_str(getattr(ESC, fn)(objs, [objs[p] for p in ops]))
            except Exception as ex:
                real = f"<{type(ex).__name__}>"
            model = L.call(op="einsum", fn=fn, n=n, ops=ops)["s"]
            cases += 1
            per_fn[fn] = per_fn.get(fn, 0) + 1
            if real != model:
                mism.append({"fn": fn, "n": n, "ops": ops, "impl": real, "model": model})
    finally:
        if lean is None:
            L.close()
    return {"cases": cases, "mismatches": mism, "per_fn": per_fn}


def run_function_check(prop, tier, seed):
    import importlib
    mod = importlib.import_module(f"fn_{prop.lower()}")
    return mod.run(prop, tier, seed)
