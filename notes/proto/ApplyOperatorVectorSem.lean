import Proto.Basic
import Mathlib.Algebra.Ring.Defs
import Mathlib.Tactic.Ring
import Mathlib.Data.List.Basic
import Mathlib.Data.List.Nodup
import Mathlib.Data.List.Range
open Proto

instance instScalarOfCommRing {R : Type} [CommRing R] : Scalar R := { conj := id }

variable {R : Type} [CommRing R]

theorem sumGrid_congr (ds : List Nat) (f g : List Nat → R)
    (h : ∀ κ, κ.length = ds.length → f κ = g κ) : sumGrid ds f = sumGrid ds g := by
  induction ds generalizing f g with
  | nil => simpa [sumGrid] using h [] rfl
  | cons d ds ih =>
    simp only [sumGrid]
    congr 1
    apply List.map_congr_left
    intro i _
    apply ih
    intro κ hκ
    apply h
    simp [hκ]

theorem eraseDups_of_nodup (l : List Nat) (h : l.Nodup) : l.eraseDups = l := by
  induction l with
  | nil => simp
  | cons a l ih =>
    rw [List.eraseDups_cons]
    have hn := List.nodup_cons.mp h
    have : l.filter (fun b => !b == a) = l := by
      apply List.filter_eq_self.mpr
      intro b hb
      have : b ≠ a := fun hba => hn.1 (hba ▸ hb)
      simp [this]
    rw [this, ih hn.2]

theorem bindEnv_of_not_mem (ls vs : List Nat) (e : Env) (x : Nat) (h : x ∉ ls) :
    bindEnv ls vs e x = e x := by
  induction ls generalizing vs with
  | nil => cases vs <;> rfl
  | cons l ls ih =>
    cases vs with
    | nil => rfl
    | cons v vs =>
      have hx : x ≠ l := fun h' => h (h' ▸ List.mem_cons_self)
      show (if x = l then v else bindEnv ls vs e x) = e x
      rw [if_neg hx]
      exact ih vs (fun h' => h (List.mem_cons_of_mem _ h'))

theorem bindEnv_getElem (ls vs : List Nat) (e : Env) (hnd : ls.Nodup) (i : Nat)
    (hi : i < ls.length) (hiv : i < vs.length) :
    bindEnv ls vs e (ls[i]) = vs[i] := by
  induction ls generalizing vs i with
  | nil => simp at hi
  | cons l ls ih =>
    cases vs with
    | nil => simp at hiv
    | cons v vs =>
      have hn := List.nodup_cons.mp hnd
      cases i with
      | zero => show (if l = l then v else _) = v; simp
      | succ i =>
        have hi' : i < ls.length := by simpa using hi
        have hiv' : i < vs.length := by simpa using hiv
        have hne : ls[i] ≠ l := fun h' => hn.1 (h' ▸ List.getElem_mem hi')
        show (if ls[i] = l then v else bindEnv ls vs e ls[i]) = vs[i]
        rw [if_neg hne]
        exact ih vs hn.2 i hi' hiv'

def outL (n : Nat) (ops : List Nat) : List Nat :=
  (List.range n).map (fun p => if p ∈ ops then n + 1 + ops.idxOf p else p) ++ [n]

theorem mem_outL (n : Nat) (ops : List Nat) (hlt : ∀ p ∈ ops, p < n) (l : Nat) :
    l ∈ outL n ops ↔ (l = n ∨ (l < n ∧ l ∉ ops) ∨ (∃ p ∈ ops, l = n + 1 + ops.idxOf p)) := by
  unfold outL
  simp only [List.mem_append, List.mem_map, List.mem_range, List.mem_singleton]
  constructor
  · rintro (⟨p, hp, rfl⟩ | rfl)
    · by_cases hm : p ∈ ops
      · rw [if_pos hm]; exact Or.inr (Or.inr ⟨p, hm, rfl⟩)
      · rw [if_neg hm]; exact Or.inr (Or.inl ⟨hp, hm⟩)
    · exact Or.inl rfl
  · rintro (rfl | ⟨hl, hm⟩ | ⟨p, hp, rfl⟩)
    · exact Or.inr rfl
    · exact Or.inl ⟨l, hl, by rw [if_neg hm]⟩
    · exact Or.inl ⟨p, hlt p hp, by rw [if_pos hp]⟩

theorem summed_applyOperatorVector (n : Nat) (ops : List Nat) (hnd : ops.Nodup)
    (hlt : ∀ p ∈ ops, p < n) :
    summedLabels (applyOperatorVector n ops).1 (applyOperatorVector n ops).2 = ops := by
  have hdef : (applyOperatorVector n ops).2 = outL n ops := rfl
  have hins : (applyOperatorVector n ops).1 =
      [(List.range ops.length).map (· + (n+1)) ++ ops, List.range (n+1)] := rfl
  unfold summedLabels
  rw [hdef, hins]
  simp only [List.flatten_cons, List.flatten_nil, List.append_nil, List.filter_append]
  have h1 : ((List.range ops.length).map (· + (n + 1))).filter
      (fun l => decide (l ∉ outL n ops)) = [] := by
    apply List.filter_eq_nil_iff.mpr
    intro l hl
    simp only [List.mem_map, List.mem_range] at hl
    obtain ⟨k, hk, rfl⟩ := hl
    simp only [decide_eq_true_eq, not_not]
    rw [mem_outL n ops hlt]
    refine Or.inr (Or.inr ⟨ops[k], List.getElem_mem hk, ?_⟩)
    rw [List.Nodup.idxOf_getElem hnd]; omega
  have h2 : ops.filter (fun l => decide (l ∉ outL n ops)) = ops := by
    apply List.filter_eq_self.mpr
    intro l hl
    simp only [decide_eq_true_eq, mem_outL n ops hlt]
    have := hlt l hl
    rintro (rfl | ⟨_, hm⟩ | ⟨p, _, rfl⟩)
    · omega
    · exact hm hl
    · omega
  rw [h1, h2, List.nil_append, List.eraseDups_append, eraseDups_of_nodup ops hnd]
  have h3 : ((List.range (n + 1)).filter
      (fun l => decide (l ∉ outL n ops))).removeAll ops = [] := by
    unfold List.removeAll
    apply List.filter_eq_nil_iff.mpr
    intro l hl
    simp only [List.mem_filter, List.mem_range, decide_eq_true_eq,
      mem_outL n ops hlt] at hl
    obtain ⟨hl1, hl2⟩ := hl
    simp only [List.elem_eq_mem, Bool.not_eq_true', decide_eq_false_iff_not, not_not]
    by_contra hm
    apply hl2
    by_cases hln : l = n
    · exact Or.inl hln
    · exact Or.inr (Or.inl ⟨by omega, hm⟩)
  rw [h3]; simp

theorem outL_length (n ops) : (outL n ops).length = n + 1 := by simp [outL]

theorem outL_getElem_lt (n : Nat) (ops : List Nat) (p : Nat) (hp : p < n) :
    (outL n ops)[p]'(by rw [outL_length]; omega) = if p ∈ ops then n + 1 + ops.idxOf p else p := by
  unfold outL
  rw [List.getElem_append_left (by simpa using hp)]
  simp

theorem outL_getElem_last (n : Nat) (ops : List Nat) :
    (outL n ops)[n]'(by rw [outL_length]; omega) = n := by
  unfold outL
  rw [List.getElem_append_right (by simp)]
  simp

theorem outL_nodup (n : Nat) (ops : List Nat) (hnd : ops.Nodup) (hlt : ∀ p ∈ ops, p < n) :
    (outL n ops).Nodup := by
  rw [List.nodup_iff_injective_getElem]
  intro ⟨i, hi⟩ ⟨j, hj⟩ h
  simp only [outL_length] at hi hj
  simp only at h
  apply Fin.ext
  show i = j
  have key : ∀ p (hp : p < n + 1), (outL n ops)[p]'(by rw [outL_length]; exact hp) =
      if hpn : p < n then (if p ∈ ops then n + 1 + ops.idxOf p else p) else n := by
    intro p hp
    by_cases hpn : p < n
    · rw [dif_pos hpn]; exact outL_getElem_lt n ops p hpn
    · have : p = n := by omega
      subst this; rw [dif_neg hpn]; exact outL_getElem_last p ops
  rw [key i hi, key j hj] at h
  by_cases hin : i < n <;> by_cases hjn : j < n
  · rw [dif_pos hin, dif_pos hjn] at h
    by_cases hio : i ∈ ops <;> by_cases hjo : j ∈ ops
    · rw [if_pos hio, if_pos hjo] at h
      have : ops.idxOf i = ops.idxOf j := by omega
      have hi' := List.idxOf_lt_length_iff.mpr hio
      have := congrArg (fun k => ops[k]?) this
      simp only [List.getElem?_idxOf hio, List.getElem?_idxOf hjo] at this
      exact Option.some.inj this
    · rw [if_pos hio, if_neg hjo] at h; omega
    · rw [if_neg hio, if_pos hjo] at h; omega
    · rw [if_neg hio, if_neg hjo] at h; exact h
  · rw [dif_pos hin, dif_neg hjn] at h
    by_cases hio : i ∈ ops
    · rw [if_pos hio] at h; omega
    · rw [if_neg hio] at h; omega
  · rw [dif_neg hin, dif_pos hjn] at h
    by_cases hjo : j ∈ ops
    · rw [if_pos hjo] at h; omega
    · rw [if_neg hjo] at h; omega
  · omega


/-- the executable einsum on the generated labels computes `(O ⊗ I) ψ` in index form -/
theorem applyOperatorVector_sem (n : Nat) (ops : List Nat) (hnd : ops.Nodup)
    (hlt : ∀ p ∈ ops, p < n) (dimOf : Nat → Nat) (O ψ : Tensor R)
    (idx : List Nat) (hidx : idx.length = n) :
    einsum dimOf (applyOperatorVector n ops).1 (applyOperatorVector n ops).2 [O, ψ] (idx ++ [0])
      = sumGrid (ops.map dimOf) (fun κ =>
          O (ops.map (fun p => idx.getD p 0) ++ κ) *
          ψ ((List.range n).map (fun p => if p ∈ ops then κ.getD (ops.idxOf p) 0 else idx.getD p 0) ++ [0])) := by
  have hsum := summed_applyOperatorVector n ops hnd hlt
  have hdef : (applyOperatorVector n ops).2 = outL n ops := rfl
  have hins : (applyOperatorVector n ops).1 =
      [(List.range ops.length).map (· + (n+1)) ++ ops, List.range (n+1)] := rfl
  unfold einsum
  simp only [hsum]
  rw [hdef, hins]
  apply sumGrid_congr
  intro κ hκ
  have hκ' : κ.length = ops.length := by simpa using hκ
  have hond := outL_nodup n ops hnd hlt
  have hol := outL_length n ops
  -- the environment
  generalize henv : bindEnv (outL n ops) (idx ++ [0]) (bindEnv ops κ (fun _ => 0)) = env
  have env_op : ∀ p (hp : p ∈ ops), env p = κ.getD (ops.idxOf p) 0 := by
    intro p hp
    have hnot : p ∉ outL n ops := by
      rw [mem_outL n ops hlt]
      have := hlt p hp
      rintro (rfl | ⟨_, hm⟩ | ⟨q, _, rfl⟩)
      · omega
      · exact hm hp
      · omega
    rw [← henv, bindEnv_of_not_mem _ _ _ _ hnot]
    have hi := List.idxOf_lt_length_iff.mpr hp
    have hget : ops[ops.idxOf p] = p := List.getElem_idxOf hi
    have := bindEnv_getElem ops κ (fun _ => 0) hnd (ops.idxOf p) hi (by omega)
    rw [hget] at this
    rw [this, List.getD_eq_getElem?_getD, List.getElem?_eq_getElem (by omega)]; rfl
  have env_out : ∀ k (hk : k < ops.length), env (k + (n+1)) = idx.getD ops[k] 0 := by
    intro k hk
    have hp := hlt ops[k] (List.getElem_mem hk)
    have hlab : (outL n ops)[ops[k]]'(by rw [hol]; omega) = k + (n+1) := by
      rw [outL_getElem_lt n ops _ hp, if_pos (List.getElem_mem hk), List.Nodup.idxOf_getElem hnd]; omega
    have := bindEnv_getElem (outL n ops) (idx ++ [0]) (bindEnv ops κ (fun _ => 0)) hond ops[k]
      (by rw [hol]; omega) (by simp [hidx]; omega)
    rw [hlab, henv] at this
    rw [this, List.getElem_append_left (by omega), List.getD_eq_getElem?_getD,
      List.getElem?_eq_getElem (by omega)]; rfl
  have env_st : ∀ p (hp : p < n), p ∉ ops → env p = idx.getD p 0 := by
    intro p hp hm
    have hlab : (outL n ops)[p]'(by rw [hol]; omega) = p := by
      rw [outL_getElem_lt n ops _ hp, if_neg hm]
    have := bindEnv_getElem (outL n ops) (idx ++ [0]) (bindEnv ops κ (fun _ => 0)) hond p
      (by rw [hol]; omega) (by simp [hidx]; omega)
    rw [hlab, henv] at this
    rw [this, List.getElem_append_left (by omega), List.getD_eq_getElem?_getD,
      List.getElem?_eq_getElem (by omega)]; rfl
  have env_n : env n = 0 := by
    have hlab : (outL n ops)[n]'(by rw [hol]; omega) = n := outL_getElem_last n ops
    have := bindEnv_getElem (outL n ops) (idx ++ [0]) (bindEnv ops κ (fun _ => 0)) hond n
      (by rw [hol]; omega) (by simp [hidx])
    rw [hlab, henv] at this
    rw [this, List.getElem_append_right (by omega)]; simp [hidx]
  -- the two operands
  have hO : ((List.range ops.length).map (· + (n+1)) ++ ops).map env
      = ops.map (fun p => idx.getD p 0) ++ κ := by
    rw [List.map_append]
    congr 1
    · apply List.ext_getElem (by simp)
      intro k h1 h2
      simp only [List.getElem_map, List.getElem_range]
      exact env_out k (by simpa using h1)
    · apply List.ext_getElem (by simp [hκ'])
      intro k h1 h2
      simp only [List.getElem_map]
      have hk : k < ops.length := by simpa using h1
      rw [env_op _ (List.getElem_mem hk), List.Nodup.idxOf_getElem hnd,
        List.getD_eq_getElem?_getD, List.getElem?_eq_getElem h2]; rfl
  have hψ : (List.range (n+1)).map env
      = (List.range n).map (fun p => if p ∈ ops then κ.getD (ops.idxOf p) 0 else idx.getD p 0) ++ [0] := by
    rw [List.range_succ, List.map_append]
    congr 1
    · apply List.map_congr_left
      intro p hp
      have hp' : p < n := List.mem_range.mp hp
      by_cases hm : p ∈ ops
      · rw [if_pos hm]; exact env_op p hm
      · rw [if_neg hm]; exact env_st p hp' hm
    · simp [env_n]
  simp only [List.zipWith_cons_cons, List.zipWith_nil_right, lprod, List.foldr_cons, List.foldr_nil]
  rw [hO, hψ]
  ring

#print axioms applyOperatorVector_sem
