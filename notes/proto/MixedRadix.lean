import Mathlib.Tactic.Ring
import Mathlib.Algebra.BigOperators.Group.List.Basic
import Mathlib.Data.Nat.Basic

/-- row-major flat index of multi-index `idx` in shape `ds` -/
def encode : List Nat → List Nat → Nat
  | d :: ds, i :: is => i * ds.prod + encode ds is
  | _, _ => 0

/-- inverse -/
def decode : List Nat → Nat → List Nat
  | [], _ => []
  | _ :: ds, k => (k / ds.prod) :: decode ds (k % ds.prod)

def InRange : List Nat → List Nat → Prop
  | [], [] => True
  | d :: ds, i :: is => i < d ∧ InRange ds is
  | _, _ => False

theorem encode_lt (ds is : List Nat) (h : InRange ds is) : encode ds is < ds.prod := by
  induction ds generalizing is with
  | nil => cases is <;> simp [encode]
  | cons d ds ih =>
    cases is with
    | nil => simp [InRange] at h
    | cons i is =>
      obtain ⟨hi, hr⟩ := h
      have := ih is hr
      simp only [encode, List.prod_cons]
      calc i * ds.prod + encode ds is < i * ds.prod + ds.prod := by omega
        _ = (i + 1) * ds.prod := by ring
        _ ≤ d * ds.prod := Nat.mul_le_mul_right _ hi

theorem decode_encode (ds is : List Nat) (h : InRange ds is) : decode ds (encode ds is) = is := by
  induction ds generalizing is with
  | nil => cases is <;> simp_all [InRange, decode]
  | cons d ds ih =>
    cases is with
    | nil => simp [InRange] at h
    | cons i is =>
      obtain ⟨hi, hr⟩ := h
      have hlt := encode_lt ds is hr
      have hpos : 0 < ds.prod := by omega
      simp only [encode, decode]
      rw [Nat.add_comm, Nat.add_mul_div_right _ _ hpos, Nat.div_eq_of_lt hlt, Nat.zero_add,
        Nat.add_mul_mod_self_right, Nat.mod_eq_of_lt hlt, ih is hr]

theorem encode_append (da db ia ib : List Nat) (h : ia.length = da.length) :
    encode (da ++ db) (ia ++ ib) = encode da ia * db.prod + encode db ib := by
  induction da generalizing ia with
  | nil =>
    cases ia with
    | nil => simp [encode]
    | cons _ _ => simp at h
  | cons d da ih =>
    cases ia with
    | nil => simp at h
    | cons i ia =>
      simp only [List.cons_append, encode, List.prod_append]
      rw [ih ia (by simpa using h)]
      ring
#print axioms encode_append
