import Mathlib.Analysis.Normed.Algebra.MatrixExponential
import Mathlib.LinearAlgebra.UnitaryGroup

open Matrix NormedSpace

variable {n : Type} [Fintype n] [DecidableEq n]

/-- exp of a skew-Hermitian complex matrix is unitary -/
theorem exp_skew_unitary (G : Matrix n n ℂ) (hG : Gᴴ = -G) :
    (exp G)ᴴ * exp G = 1 := by
  rw [← Matrix.exp_conjTranspose, hG, Matrix.exp_neg]
  exact Matrix.nonsing_inv_mul _ ((Matrix.isUnit_iff_isUnit_det _).mp (Matrix.isUnit_exp G))

/-- if G commutes with P then exp G commutes with P -/
theorem exp_commute (G P : Matrix n n ℂ) (h : Commute G P) : Commute (exp G) P := by
  letI : NormedRing (Matrix n n ℂ) := Matrix.linftyOpNormedRing
  letI : NormedAlgebra ℂ (Matrix n n ℂ) := Matrix.linftyOpNormedAlgebra
  exact (h.symm.exp_right).symm

#print axioms exp_skew_unitary
#print axioms exp_commute
