import Mathlib.Analysis.SpecialFunctions.Gaussian.GaussianIntegral
open Real MeasureTheory

noncomputable def gprof (σ μ : ℝ) (t : ℝ) : ℝ :=
  (1 / √(σ * √π)) * exp (-((t - μ) ^ 2) / (2 * σ ^ 2))

theorem overlap_equal_width (σ a b : ℝ) (hσ : 0 < σ) :
    ∫ t, gprof σ a t * gprof σ b t = exp (-((a - b) ^ 2) / (4 * σ ^ 2)) := by
  have hpi : 0 < √π := sqrt_pos.mpr pi_pos
  have hsp : 0 < σ * √π := mul_pos hσ hpi
  have key : ∀ t, gprof σ a t * gprof σ b t =
      (1 / (σ * √π)) * exp (-((a - b) ^ 2) / (4 * σ ^ 2)) * exp (-(1 / σ ^ 2) * (t - (a + b) / 2) ^ 2) := by
    intro t
    unfold gprof
    have h1 : (1 / √(σ * √π)) * (1 / √(σ * √π)) = 1 / (σ * √π) := by
      rw [div_mul_div_comm, one_mul, mul_self_sqrt hsp.le]
    rw [mul_mul_mul_comm, h1, ← exp_add, mul_assoc, ← exp_add]
    congr 2
    field_simp
    ring
  simp_rw [key]
  rw [integral_const_mul]
  have h2 : ∫ t, exp (-(1 / σ ^ 2) * (t - (a + b) / 2) ^ 2) = √(π / (1 / σ ^ 2)) := by
    rw [integral_sub_right_eq_self (fun t => exp (-(1 / σ ^ 2) * t ^ 2)) ((a + b) / 2)]
    exact integral_gaussian (1 / σ ^ 2)
  rw [h2]
  have h3 : √(π / (1 / σ ^ 2)) = σ * √π := by
    rw [div_div_eq_mul_div, div_one, mul_comm, sqrt_mul (sq_nonneg σ), sqrt_sq hσ.le]
  rw [h3]
  field_simp
