/-! Prototype: list-based einsum semantics (Mathlib-free) -/
namespace Proto

class Scalar (R : Type) extends Add R, Mul R, Zero R, One R, Neg R where
  conj : R → R

variable {R : Type} [Scalar R]

abbrev Tensor (R : Type) := List Nat → R

def lsum (l : List R) : R := l.foldr (· + ·) 0
def lprod (l : List R) : R := l.foldr (· * ·) 1

def sumGrid : List Nat → (List Nat → R) → R
  | [], f => f []
  | d :: ds, f => lsum ((List.range d).map (fun i => sumGrid ds (fun κ => f (i :: κ))))

abbrev Env := Nat → Nat
/-- bindEnv labels to values; earlier bindings win -/
def bindEnv : List Nat → List Nat → Env → Env
  | l :: ls, v :: vs, e => fun x => if x = l then v else bindEnv ls vs e x
  | _, _, e => e

def summedLabels (ins : List (List Nat)) (out : List Nat) : List Nat :=
  (ins.flatten.filter (fun l => decide (l ∉ out))).eraseDups

def einsum (dimOf : Nat → Nat) (ins : List (List Nat)) (out : List Nat)
    (ts : List (Tensor R)) : Tensor R := fun oidx =>
  let summed := summedLabels ins out
  sumGrid (summed.map dimOf) (fun κ =>
    let env : Env := bindEnv out oidx (bindEnv summed κ (fun _ => 0))
    lprod (List.zipWith (fun (labels : List Nat) (t : Tensor R) => t (labels.map env)) ins ts))

/-- `apply_operator_vector`, positions instead of objects: `n` factors, operator on positions `ops` -/
def applyOperatorVector (n : Nat) (ops : List Nat) : List (List Nat) × List Nat :=
  let m := ops.length
  let opL := (List.range m).map (· + (n+1)) ++ ops
  let stL := List.range (n+1)
  let outL := (List.range n).map (fun p => if p ∈ ops then n + 1 + ops.idxOf p else p) ++ [n]
  ([opL, stL], outL)

/-- replace entries of `idx` at positions `ops` by `κ` -/
def setMany (idx : List Nat) : List Nat → List Nat → List Nat
  | p :: ps, k :: ks => setMany (idx.set p k) ps ks
  | _, _ => idx

end Proto
