import Mathlib.Algebra.Ring.Defs
import Mathlib.Tactic.Ring
import Mathlib.Data.List.Basic
import Mathlib.Data.List.Perm.Basic
import Mathlib.Algebra.BigOperators.Group.List.Basic

variable {R : Type} [CommRing R]

abbrev Env := Nat → Nat
def upd (e : Env) (l v : Nat) : Env := fun x => if x = l then v else e x

/-- Σ over assignments of the labels `ls` (label l ranges over `range (dimOf l)`) -/
def sumLabels (dimOf : Nat → Nat) : List Nat → (Env → R) → Env → R
  | [], f, e => f e
  | l :: ls, f, e => ((List.range (dimOf l)).map fun i => sumLabels dimOf ls f (upd e l i)).sum

theorem upd_comm (e : Env) (a b i j : Nat) (h : a ≠ b) :
    upd (upd e a i) b j = upd (upd e b j) a i := by
  funext x
  unfold upd
  by_cases hxa : x = a <;> by_cases hxb : x = b <;> simp_all

theorem sumLabels_congr (dimOf) (ls : List Nat) (f g : Env → R) (h : ∀ e, f e = g e) (e : Env) :
    sumLabels dimOf ls f e = sumLabels dimOf ls g e := by
  have : f = g := funext h
  rw [this]

/-- double list sums commute -/
theorem sum_map_sum_comm (as bs : List Nat) (F : Nat → Nat → R) :
    (as.map fun i => (bs.map fun j => F i j).sum).sum =
    (bs.map fun j => (as.map fun i => F i j).sum).sum := by
  induction as with
  | nil => simp
  | cons a as ih =>
    simp only [List.map_cons, List.sum_cons, ih]
    rw [← List.sum_map_add]

theorem sumLabels_swap (dimOf) (a b : Nat) (ls : List Nat) (hab : a ≠ b) (f : Env → R) (e : Env) :
    sumLabels dimOf (a :: b :: ls) f e = sumLabels dimOf (b :: a :: ls) f e := by
  simp only [sumLabels]
  rw [sum_map_sum_comm]
  congr 1
  apply List.map_congr_left
  intro j _
  congr 1
  apply List.map_congr_left
  intro i _
  rw [upd_comm e a b i j hab]

theorem sumLabels_perm (dimOf) {ls ls' : List Nat} (hp : ls.Perm ls') (hnd : ls.Nodup)
    (f : Env → R) (e : Env) : sumLabels dimOf ls f e = sumLabels dimOf ls' f e := by
  induction hp generalizing e with
  | nil => rfl
  | cons x _ ih =>
    simp only [sumLabels]
    congr 1
    apply List.map_congr_left
    intro i _
    exact ih (List.nodup_cons.mp hnd).2 _
  | swap x y l =>
    have hxy : y ≠ x := by
      have := (List.nodup_cons.mp hnd).1
      intro h; apply this; rw [h]; exact List.mem_cons_self
    exact sumLabels_swap dimOf y x l hxy f e
  | trans h1 _ ih1 ih2 =>
    rw [ih1 hnd, ih2 ((List.Perm.nodup_iff h1).mp hnd)]

#print axioms sumLabels_perm
