from world import *
C=Config()
def show(title, f):
    try:
        r=f(); print("OK  ", title, "->", r)
    except Exception as e:
        import traceback
        tb=traceback.extract_tb(e.__traceback__)[-1]
        print("EXC ", title, "->", type(e).__name__, str(e)[:120], f"@{tb.filename.split('/')[-1]}:{tb.lineno}")

# C19 overlap
def ov():
    e1=Envelope(); e2=Envelope()
    return [e1.overlap_integral(e2, d) for d in (0, 42.45e-15, 1e-13)]
show("overlap default 42fs", ov)
def ov2():
    from photon_weave.state.envelope import TemporalProfile
    out=[]
    for sg in (1e-15,1e-12,1e-9,1e-6,1e-3,1,):
        tp=TemporalProfile.Gaussian.with_params(mu=0,sigma=sg)
        e1=Envelope(temporal_profile=tp); e2=Envelope(temporal_profile=tp)
        out.append((sg,e1.overlap_integral(e2,0), e1.overlap_integral(e2,sg), np.exp(-1/4)))
    return out
show("overlap sigma sweep", ov2)

# C16 interpreter in-place
from photon_weave.extra import interpreter
def it():
    A=np.array([[1.,2.],[3.,4.]]); B=np.array([[1.,1.],[1.,1.]])
    A0=A.copy()
    r=interpreter(("s_mult",A,2.0),{},[2])
    r2=interpreter(("m_mult",A,B),{},[2])
    return (A==A0).all(), A
show("interpreter mutates numpy", it)
show("interpreter unknown cmd", lambda: interpreter(("foo",1,2),{},[2]))
show("interpreter sub 3 args", lambda: interpreter(("sub",5,2,1),{},[2]))

# C15 expression state types crosstalk
def xt():
    from photon_weave._math.ops import annihilation_operator, creation_operator
    ctx={"a":lambda d: annihilation_operator(d[0]),"ad":lambda d: creation_operator(d[0]),
         "b":lambda d: annihilation_operator(d[1]),"bd":lambda d: creation_operator(d[1])}
    op1=Operation(CO.Expression, expr=("expm",("s_mult",1j,0.3,("add",("kron","ad","b"),("kron","a","bd")))), state_types=(Fock,Fock), context=ctx)
    ctx2={"x":lambda d: jnp.array([[0,1],[1,0]])}
    op2=Operation(CO.Expression, expr="x", state_types=(Polarization,), context=ctx2)
    e1=Envelope(); e2=Envelope(); e1.fock.state=1
    ce=CompositeEnvelope(e1,e2)
    ce.apply_operation(op1,e1.fock,e2.fock)
    return "applied"
show("expression op crosstalk", xt)
