from world import *
C=Config(); C.set_contraction(True)
e1=Envelope(); e2=Envelope(); ce=CompositeEnvelope(e1,e2)
p1,p2=e1.polarization,e2.polarization
p1.apply_operation(Operation(PO.H))
K0=np.sqrt(.7)*np.eye(2); K1=np.sqrt(.3)*np.array([[1,0],[0,-1]])
p1.apply_kraus([jnp.array(K0),jnp.array(K1)])
print("p1",p1.expansion_level,np.round(np.asarray(p1.state),3))
p2.apply_operation(Operation(PO.RX,theta=1.0))
print("p2",p2.expansion_level,np.round(np.asarray(p2.state),3))
subs=[p1,p2]
r0,d0,_=joint(subs)
ce.apply_operation(Operation(CO.CXPolarization),p1,p2)
r1,d1,_=joint(subs)
CN=np.array([[1,0,0,0],[0,1,0,0],[0,0,0,1],[0,0,1,0]])
R=CN@r0@CN.T
print(np.round(R,3)); print(np.round(r1,3)); print(ce.states[0].expansion_level, [s.expansion_level for s in ce.states[0].state_objs], ce.states[0].state.shape)
