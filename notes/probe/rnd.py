"""Scratch random differential prober (census of defects), NOT the deliverable."""
from world import *
import random, sys, traceback, collections
C = Config()

X = np.array([[0, 1], [1, 0]], complex); Z = np.diag([1, -1]).astype(complex)
Hh = np.array([[1, 1], [1, -1]], complex) / np.sqrt(2)
def RX(t): return np.array([[np.cos(t/2), -1j*np.sin(t/2)], [-1j*np.sin(t/2), np.cos(t/2)]])
def cre(d):
    m = np.zeros((d, d), complex)
    for n in range(d-1): m[n+1, n] = np.sqrt(n+1)
    return m
CNOT = np.array([[1,0,0,0],[0,1,0,0],[0,0,0,1],[0,0,1,0]], complex)
SWAP = np.array([[1,0,0,0],[0,0,1,0],[0,1,0,0],[0,0,0,1]], complex)

class Ref:
    """dense reference: rho over all subsystems in fixed order with dims list"""
    def __init__(self, subs):
        self.subs = subs
    def snap(self):
        r, d, live = joint(self.subs)
        return r, d, live
    def embed_multi(self, O, targets, live, dims):
        n = len(live); idx = [next(i for i, s in enumerate(live) if s is t) for t in targets]
        rest = [i for i in range(n) if i not in idx]
        perm = idx + rest  # new order
        dt = [dims[i] for i in idx]; dr = [dims[i] for i in rest]
        big = np.kron(O, np.eye(int(np.prod(dr)) if dr else 1))
        # big acts in order perm; bring back to canonical
        t = big.reshape(dt + dr + dt + dr)
        inv = [perm.index(i) for i in range(n)]
        t = t.transpose(inv + [i + n for i in inv])
        D = int(np.prod(dims))
        return t.reshape(D, D)

def rand_world(rng):
    nenv = rng.choice([1, 2, 2, 3]); ncs = rng.choice([0, 1, 1])
    envs = [Envelope() for _ in range(nenv)]
    css = [CustomState(rng.choice([2, 3])) for _ in range(ncs)]
    for e in envs:
        e.fock.state = rng.choice([0, 0, 1, 2])
        e.polarization.state = rng.choice(list(PolarizationLabel))
    use_ce = rng.random() < 0.8 or ncs > 0 and nenv > 0 and rng.random() < .5
    ce = CompositeEnvelope(*envs, *css) if use_ce else None
    subs = []
    for e in envs: subs += [e.fock, e.polarization]
    subs += css
    return envs, css, ce, subs

def pick(rng, subs, cls=None, k=1):
    c = [s for s in subs if not getattr(s, 'measured', False) and (cls is None or isinstance(s, cls))]
    if len(c) < k: return None
    return rng.sample(c, k)

def one_program(seed, nsteps=8, verbose=False):
    rng = random.Random(seed)
    C.set_seed(seed); C.set_contraction(rng.random() < .5)
    envs, css, ce, subs = rand_world(rng)
    ref = Ref(subs)
    log = []
    for step in range(nsteps):
        kinds = ['pol', 'pol', 'fock', 'custom', 'combine_env', 'expand', 'reorder_env']
        if ce is not None: kinds += ['cnot', 'swap', 'bs', 'ce_combine', 'ce_reorder', 'trace_out', 'kraus', 'measure', 'povm']
        kind = rng.choice(kinds)
        r0, d0, live0 = ref.snap()
        desc = kind; expect = None; targets = None; renorm = True
        try:
            if kind == 'pol':
                t = pick(rng, subs, Polarization)
                if not t: continue
                t = t[0]; th = rng.uniform(-3, 3)
                name, op, M = rng.choice([('X', lambda: Operation(PO.X), X), ('H', lambda: Operation(PO.H), Hh), ('RX', lambda: Operation(PO.RX, theta=th), RX(th))])
                entry = rng.choice(['state', 'env', 'ce'] if ce is not None else ['state', 'env'])
                desc = f'pol {name} entry={entry} idx={t.index} lvl={t.expansion_level}'
                targets = [t]; expect = lambda dims: M
                o = op()
                if entry == 'state': t.apply_operation(o)
                elif entry == 'env': t.envelope.apply_operation(o, t)
                else: ce.apply_operation(o, t)
            elif kind == 'fock':
                t = pick(rng, subs, Fock)
                if not t: continue
                t = t[0]; ph = rng.uniform(-3, 3)
                name = rng.choice(['Creation', 'Phase', 'Annihilation'])
                entry = rng.choice(['state', 'env', 'ce'] if ce is not None else ['state', 'env'])
                desc = f'fock {name} entry={entry} idx={t.index} lvl={t.expansion_level}'
                targets = [t]
                if name == 'Creation': o = Operation(FO.Creation); expect = lambda dims: cre(dims[0])
                elif name == 'Annihilation': o = Operation(FO.Annihilation); expect = lambda dims: cre(dims[0]).T
                else: o = Operation(FO.PhaseShift, phi=ph); expect = lambda dims: np.diag(np.exp(1j*ph*np.arange(dims[0]))); renorm = False
                if entry == 'state': t.apply_operation(o)
                elif entry == 'env': t.envelope.apply_operation(o, t)
                else: ce.apply_operation(o, t)
            elif kind == 'custom':
                t = pick(rng, subs, CustomState)
                if not t: continue
                t = t[0]; d = t.dimensions
                M = (np.random.RandomState(seed*100+step).randn(d, d) + 1j*np.random.RandomState(seed*100+step+7).randn(d, d))
                desc = f'custom idx={t.index} lvl={t.expansion_level}'
                targets = [t]; expect = lambda dims: M
                o = Operation(CSO.Custom, operator=jnp.array(M))
                if ce is not None and rng.random() < .5: ce.apply_operation(o, t)
                else: t.apply_operation(o)
            elif kind == 'combine_env':
                e = rng.choice(envs)
                if e.measured or e.fock.measured or e.polarization.measured: continue
                if e.state is not None or isinstance(e.fock.index, tuple) or isinstance(e.polarization.index, tuple): continue
                desc = 'env.combine'
                e.combine(); expect = 'id'
            elif kind == 'expand':
                t = pick(rng, subs)
                if not t: continue
                desc = f'expand {type(t[0]).__name__} idx={t[0].index} lvl={t[0].expansion_level}'
                t[0].expand(); expect = 'id'
            elif kind == 'reorder_env':
                e = rng.choice(envs)
                if e.measured or e.state is None: continue
                desc = 'env.reorder'
                e.reorder(e.polarization, e.fock) if rng.random() < .5 else e.reorder(e.fock, e.polarization); expect = 'id'
            elif kind in ('cnot', 'swap'):
                t = pick(rng, subs, Polarization, 2)
                if not t: continue
                desc = f'{kind} idx={[x.index for x in t]} lvl={[x.expansion_level for x in t]}'
                targets = t; M = CNOT if kind == 'cnot' else SWAP; expect = lambda dims: M
                ce.apply_operation(Operation(CO.CXPolarization if kind == 'cnot' else CO.SwapPolarization), *t)
            elif kind == 'bs':
                t = pick(rng, subs, Fock, 2)
                if not t: continue
                eta = rng.uniform(-2, 2)
                desc = f'bs idx={[x.index for x in t]} lvl={[x.expansion_level for x in t]}'
                targets = t
                def bsm(dims):
                    import scipy.linalg as sl
                    a = cre(dims[0]).T; b = cre(dims[1]).T
                    G = np.kron(a.conj().T, b) + np.kron(a, b.conj().T)
                    return sl.expm(1j*eta*G)
                expect = bsm
                ce.apply_operation(Operation(CO.NonPolarizingBeamSplitter, eta=eta), *t)
            elif kind == 'ce_combine':
                t = pick(rng, subs, None, rng.choice([2, 2, 3]))
                if not t: continue
                desc = f'ce.combine idx={[x.index for x in t]}'
                ce.combine(*t); expect = 'id'
            elif kind == 'ce_reorder':
                t = pick(rng, subs, None, rng.choice([1, 2]))
                if not t: continue
                desc = f'ce.reorder idx={[x.index for x in t]}'
                ce.reorder(*t); expect = 'id'
            elif kind == 'trace_out':
                t = pick(rng, subs, None, rng.choice([1, 2]))
                if not t: continue
                if not all(isinstance(x.index, tuple) for x in t): continue
                desc = f'ce.trace_out idx={[x.index for x in t]} lvl={[x.expansion_level for x in t]}'
                out = np.asarray(ce.trace_out(*t))
                # reference partial trace
                n = len(live0); idx = [next(i for i, s in enumerate(live0) if s is x) for x in t]
                T = r0.reshape(d0 + d0)
                rest = [i for i in range(n) if i not in idx]
                T = T.transpose(idx + rest + [i+n for i in idx] + [i+n for i in rest])
                dt = int(np.prod([d0[i] for i in idx])); dr = int(np.prod([d0[i] for i in rest])) if rest else 1
                T = T.reshape(dt, dr, dt, dr); red = np.einsum('abcb->ac', T)
                if out.shape[1] == 1 and out.shape[0] == dt and dt != 1:
                    got = np.outer(out[:, 0], out[:, 0].conj())
                else: got = out
                ok = got.shape == red.shape and np.allclose(got, red, atol=1e-7)
                r1, d1, live1 = ref.snap()
                ok2, err = same(r0, d0, r1, d1)
                if not ok: return ('WRONG-RET', desc, log)
                if not ok2: return ('WRONG-STATE', desc, log)
                log.append(desc); continue
            elif kind == 'kraus':
                t = pick(rng, subs, None, rng.choice([1, 1, 2]))
                if not t: continue
                dims = [dims_of(x) if not isinstance(x, Fock) or x.dimensions > 0 else None for x in t]
                if any(d is None for d in dims): continue
                D = int(np.prod(dims))
                # random channel from unitary dilation: 2 kraus ops
                rs = np.random.RandomState(seed*100+step)
                A = rs.randn(2*D, 2*D) + 1j*rs.randn(2*D, 2*D); Q, _ = np.linalg.qr(A)
                Ks = [Q[:D, :D], Q[D:, :D]]
                desc = f'kraus n={len(t)} idx={[x.index for x in t]} lvl={[x.expansion_level for x in t]} types={[type(x).__name__ for x in t]}'
                targets = t; expect = ('kraus', Ks)
                if ce is not None: ce.apply_kraus([jnp.array(k) for k in Ks], *t)
                else:
                    if len(t) == 1: t[0].apply_kraus([jnp.array(k) for k in Ks])
                    else: continue
            elif kind == 'measure':
                t = pick(rng, subs, None, 1)
                if not t: continue
                sep = rng.random() < .5; des = rng.random() < .6
                desc = f'ce.measure {type(t[0]).__name__} idx={t[0].index} lvl={t[0].expansion_level} sep={sep} des={des}'
                with Spy() as s:
                    out = ce.measure(*t, separate_measurement=sep, destructive=des)
                # check distribution + collapse sequentially
                expected_keys = set(id(x) for x in t)
                if not sep:
                    for x in t:
                        if isinstance(x, (Fock, Polarization)):
                            expected_keys.add(id(x.envelope.fock)); expected_keys.add(id(x.envelope.polarization))
                got_keys = set(id(k) for k in out)
                if got_keys != expected_keys:
                    return ('WRONG-KEYS', desc + f' got={sorted(type(k).__name__ for k in out)}', log)
                # collapse reference: project r0 on outcomes
                R = r0; n = len(live0)
                P = np.array([[1.0+0j]])
                for i, s_ in enumerate(live0):
                    d = d0[i]
                    k_ = next((k for k in out if k is s_), None)
                    if k_ is not None:
                        v = out[k_]
                        if v >= d: return ('OUT-OF-RANGE', desc, log)
                        p = np.zeros((d, d)); p[v, v] = 1
                    else: p = np.eye(d)
                    P = np.kron(P, p)
                R = P @ R @ P; pr = np.trace(R).real
                if pr < 1e-12: return ('ZERO-PROB-OUTCOME', desc + f' ps={s.ps}', log)
                R = R / pr
                # compare on survivors + nondestructive
                r1, d1, live1 = ref.snap()
                # reduce R to live1
                idx = [next(i for i, s_ in enumerate(live0) if s_ is x) for x in live1]
                rest = [i for i in range(n) if i not in idx]
                T = R.reshape(d0 + d0).transpose(idx + rest + [i+n for i in idx] + [i+n for i in rest])
                dt = int(np.prod([d0[i] for i in idx])) if idx else 1; dr = int(np.prod([d0[i] for i in rest])) if rest else 1
                red = np.einsum('abcb->ac', T.reshape(dt, dr, dt, dr))
                ok, err = same(red, [d0[i] for i in idx], r1, d1, 1e-7)
                if not ok: return ('WRONG-COLLAPSE', desc + f' err={err:.2e}', log)
                log.append(desc); continue
            elif kind == 'povm':
                continue
        except Exception as ex:
            tb = traceback.extract_tb(ex.__traceback__)
            last = [f for f in tb if 'photon_weave' in f.filename]
            loc = f"{last[-1].filename.split('/')[-1]}:{last[-1].lineno}" if last else 'harness'
            return ('EXC-' + type(ex).__name__ + '@' + loc, desc + ' :: ' + str(ex)[:80], log)
        # compare
        try:
            r1, d1, live1 = ref.snap()
        except Exception as ex:
            return ('SNAP-' + type(ex).__name__, desc + ' :: ' + str(ex)[:80], log)
        nd = [max(a, b) for a, b in zip(d0, d1)]
        R0 = pad_to(r0, d0, nd)
        if expect == 'id': R = R0
        elif isinstance(expect, tuple):
            Ks = expect[1]
            dimsT = [nd[next(i for i, s in enumerate(live0) if s is x)] for x in targets]
            R = sum(ref.embed_multi(K, targets, live0, nd) @ R0 @ ref.embed_multi(K, targets, live0, nd).conj().T for K in Ks)
        else:
            dimsT = [nd[next(i for i, s in enumerate(live0) if s is x)] for x in targets]
            O = ref.embed_multi(expect(dimsT), targets, live0, nd)
            R = O @ R0 @ O.conj().T
            if renorm: R = R / np.trace(R)
        R1 = pad_to(r1, d1, nd)
        if not np.allclose(R, R1, atol=1e-6):
            return ('WRONG', desc + f' tr={np.trace(R1).real:.4f} err={np.abs(R-R1).max():.2e}', log)
        log.append(desc)
    return ('ok', '', log)

if __name__ == '__main__':
    N = int(sys.argv[1]); cnt = collections.Counter(); ex = {}
    for seed in range(N):
        try:
            res, desc, log = one_program(seed)
        except Exception as e:
            tb = traceback.extract_tb(e.__traceback__)[-1]
            res, desc, log = 'HARNESS-' + type(e).__name__ + f'@{tb.lineno}', str(e)[:100], []
        key = res + ' | ' + desc.split(' idx')[0].split(' ::')[0]
        cnt[key] += 1
        ex.setdefault(key, (seed, desc, log[-3:]))
    for k, v in sorted(cnt.items(), key=lambda kv: -kv[1]):
        print(v, k, '   e.g.', ex[k])
