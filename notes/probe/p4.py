from world import *
C=Config(); C.set_seed(3)
def show(title, f):
    try:
        r=f(); print("OK  ", title, "->", r)
    except Exception as e:
        import traceback
        tb=traceback.extract_tb(e.__traceback__)[-1]
        print("EXC ", title, "->", type(e).__name__, str(e)[:120], f"@{tb.filename.split('/')[-1]}:{tb.lineno}")

def ent_env(level):
    """envelope with fock in (|0>+|1>)/√2 ⊗ pol (H - V)/√2 made via combine then ops; returns e"""
    e=Envelope()
    e.fock.state=1
    e.polarization.expand()
    e.polarization.state=jnp.array([[1],[-1]])/jnp.sqrt(2)
    e.polarization.expansion_level=EL.Vector
    e.combine()
    if level==EL.Matrix: e.expand()
    return e
# C04: envelope measure distribution
def m1(level):
    e=ent_env(level)
    with Spy() as s:
        out=e.measure()
    return [(k.__class__.__name__,v) for k,v in out.items()], s.ps
show("env measure vector |1>(H-V)", lambda: m1(EL.Vector))
show("env measure matrix |1>(H-V)", lambda: m1(EL.Matrix))

# entangled state in a composite product space: Bell-like on two polarizations via H + CNOT
def bell(level, contr=True):
    C.set_contraction(contr)
    e1=Envelope(); e2=Envelope()
    ce=CompositeEnvelope(e1,e2)
    e1.polarization.apply_operation(Operation(PO.H))
    ce.apply_operation(Operation(CO.CXPolarization), e1.polarization, e2.polarization)
    if level==EL.Matrix: ce.expand(e1.polarization)
    return e1,e2,ce
def m2(level):
    e1,e2,ce=bell(level)
    subs=[e1.fock,e1.polarization,e2.fock,e2.polarization]
    r,d,_=joint(subs)
    with Spy(force=[1]) as s:
        out=ce.measure(e1.polarization, separate_measurement=True)
    r1,d1,l=joint(subs)
    return [(k.__class__.__name__,v) for k,v in out.items()], s.ps, d1, np.round(np.diag(r1).real,3), e1.polarization.measured, e2.polarization.expansion_level, e2.polarization.index
show("bell measure sep vector", lambda: m2(EL.Vector))
show("bell measure sep matrix", lambda: m2(EL.Matrix))
def m3(level):
    e1,e2,ce=bell(level)
    with Spy() as s:
        out=ce.measure(e1.polarization)
    return [(k.__class__.__name__,v) for k,v in out.items()], s.ps, [x.measured for x in (e1.fock,e1.polarization,e2.fock,e2.polarization)], len(ce.states), ce.envelopes==[e2]
show("bell measure nonsep vector", lambda: m3(EL.Vector))
def m4():
    e1,e2,ce=bell(EL.Vector)
    with Spy() as s:
        out=e1.polarization.measure()
    return [(k.__class__.__name__,v) for k,v in out.items()], s.ps, [x.measured for x in (e1.fock,e1.polarization,e2.fock,e2.polarization)]
show("bell pol.measure() entry", m4)
def m5():
    e1,e2,ce=bell(EL.Vector)
    with Spy() as s:
        out=ce.measure(e1.polarization, separate_measurement=True, destructive=False)
    with Spy() as s2:
        out2=ce.measure(e1.polarization, separate_measurement=True, destructive=False)
    return list(out.values()), list(out2.values()), s.ps, s2.ps, e1.polarization.state, e2.polarization.index
show("bell nondestructive twice", m5)
