import warnings; warnings.filterwarnings("ignore")
import numpy as np, jax, jax.numpy as jnp, time
t0=time.time()
from photon_weave.state.envelope import Envelope
from photon_weave.state.composite_envelope import CompositeEnvelope
from photon_weave.state.fock import Fock
from photon_weave.state.polarization import Polarization, PolarizationLabel
from photon_weave.state.custom_state import CustomState
from photon_weave.state.expansion_levels import ExpansionLevel
from photon_weave.operation import Operation, FockOperationType, PolarizationOperationType, CompositeOperationType, CustomStateOperationType
from photon_weave.photon_weave import Config
print("import", time.time()-t0)
C=Config(); C.set_seed(1)

def show(title, f):
    try:
        r=f()
        print("OK  ", title, "->", r)
    except Exception as e:
        print("EXC ", title, "->", type(e).__name__, str(e)[:200])

# 1. Standalone polarization after RX: level tag
def t1():
    p=Polarization()
    p.apply_operation(Operation(PolarizationOperationType.RX, theta=0.3))
    return (p.expansion_level, type(p.state), None if not hasattr(p.state,'shape') else p.state.shape)
show("pol RX level tag", t1)
def t1b():
    p=Polarization()
    p.apply_operation(Operation(PolarizationOperationType.RX, theta=0.3))
    p.apply_operation(Operation(PolarizationOperationType.RX, theta=0.3))
    return (p.expansion_level, p.state)
show("pol RX twice", t1b)
# 2. Fock expand when in envelope (NameError Envelope?)
def t2():
    e=Envelope(); e.combine(); e.fock.expand(); return e.expansion_level
show("fock.expand in combined envelope", t2)
def t2b():
    e=Envelope(); e.combine(); return e.fock.measure()
show("fock.measure in combined envelope", t2b)
def t2c():
    e=Envelope(); e.combine(); return e.polarization.measure()
show("pol.measure in combined envelope", t2c)
# 3. Envelope vector measure wrong distribution
import photon_weave.state.envelope as envmod
def t3():
    e=Envelope(); e.fock.state=1
    e.polarization.apply_operation(Operation(PolarizationOperationType.Custom, operator=jnp.array([[1,0],[-1,0]])))
    print("   pol state", e.polarization.state, e.polarization.expansion_level)
    e.combine()
    print("   env state", np.asarray(e.state).ravel(), e.expansion_level)
    ps=[]
    orig=jax.random.choice
    def spy(key,a,shape=(),replace=True,p=None,axis=0):
        ps.append(np.asarray(p)); return orig(key,a,shape,replace,p,axis)
    jax.random.choice=spy
    try:
        out=e.measure()
    finally:
        jax.random.choice=orig
    return out, ps
show("envelope vector measure |1>(H-V)", t3)
