from world import *
C=Config(); C.set_seed(5)
def show(title, f):
    try:
        r=f(); print("OK  ", title, "->", r)
    except Exception as e:
        import traceback
        tb=[t for t in traceback.extract_tb(e.__traceback__) if 'photon_weave' in t.filename]
        loc=f"{tb[-1].filename.split('/')[-1]}:{tb[-1].lineno}" if tb else ''
        print("EXC ", title, "->", type(e).__name__, str(e)[:100], loc)
def c13a():
    e1,e2,e3=Envelope(),Envelope(),Envelope()
    ce1=CompositeEnvelope(e1,e2); ce1.combine(e1.fock,e2.fock)
    ce2=CompositeEnvelope(ce1,e3)
    ce3=CompositeEnvelope(ce1,ce2)
    return len(ce3.states), len(ce3.envelopes), [len(p.state_objs) for p in ce3.states]
show("merge two handles of same container", c13a)
def c13b():
    e1,e2,e3=Envelope(),Envelope(),Envelope()
    ce1=CompositeEnvelope(e1,e2); ce1.combine(e1.fock,e2.fock)
    ce2=CompositeEnvelope(ce1,e3)
    ce3=CompositeEnvelope(ce1,e1)
    return len(ce3.states), len(ce3.envelopes)
show("merge handle + its own envelope", c13b)
def c13c():
    # stale indices after measurement removes a product space
    e1,e2,e3,e4=[Envelope() for _ in range(4)]
    ce=CompositeEnvelope(e1,e2,e3,e4)
    ce.combine(e1.polarization,e2.polarization)
    ce.combine(e3.polarization,e4.polarization)
    before=(e3.polarization.index,e4.polarization.index)
    ce.measure(e1.polarization,e2.polarization,separate_measurement=True)
    after=(e3.polarization.index,e4.polarization.index,len(ce.states))
    # now use e3.polarization
    e3.polarization.apply_operation(Operation(PO.X))
    return before, after, joint([e3.polarization,e4.polarization])[0].diagonal().real
show("stale index after ps removal", c13c)
def c18():
    e1,e2=Envelope(),Envelope()   # both focks |0>
    ce=CompositeEnvelope(e1,e2)
    out=ce.measure(e1.polarization,e2.polarization)
    return sorted(type(k).__name__ for k in out), [x.measured for x in (e1.fock,e2.fock,e1.polarization,e2.polarization)]
show("C18 measure two pol, partner focks equal", c18)
def c18b():
    e1,e2=Envelope(),Envelope(); e2.fock.state=1
    ce=CompositeEnvelope(e1,e2)
    out=ce.measure(e1.polarization,e2.polarization)
    return sorted(type(k).__name__ for k in out), [x.measured for x in (e1.fock,e2.fock,e1.polarization,e2.polarization)]
show("C18 twin with distinct focks", c18b)
def c05():
    e=Envelope(); out=e.measure()
    r=[]
    for name,f in [("op",lambda: e.fock.apply_operation(Operation(FO.Creation))),("measure",lambda: e.fock.measure()),("kraus",lambda: e.polarization.apply_kraus([jnp.eye(2)])),("envmeasure",lambda: e.measure()),("expand",lambda: e.fock.expand()),("polop",lambda: e.polarization.apply_operation(Operation(PO.X)))]:
        try: v=f(); r.append((name,'NOERR',v if isinstance(v,dict) else None, e.fock.state, e.fock.measured))
        except Exception as ex: r.append((name,type(ex).__name__))
    return r
show("C05 use after destroy", c05)
def c20():
    e1,e2,e3=[Envelope() for _ in range(3)]
    ce=CompositeEnvelope(e1,e2,e3)
    ce.combine(e1.polarization,e2.polarization)
    s0=ce.states[0].state; o0=list(ce.states[0].state_objs)
    e3.polarization.apply_operation(Operation(PO.H))
    ce.apply_operation(Operation(PO.X), e3.polarization)
    return len(ce.states), ce.states[0].state is s0, e3.polarization.index
show("C20 single op doesn't enlarge", c20)
