"""Scratch harness: reconstruct the joint density matrix from the photon_weave
object graph; used only to learn the behaviour of the pinned tree."""
import warnings; warnings.filterwarnings("ignore")
import numpy as np, jax, jax.numpy as jnp
from photon_weave.state.envelope import Envelope
from photon_weave.state.composite_envelope import CompositeEnvelope
from photon_weave.state.fock import Fock
from photon_weave.state.polarization import Polarization, PolarizationLabel
from photon_weave.state.custom_state import CustomState
from photon_weave.state.expansion_levels import ExpansionLevel as EL
from photon_weave.operation import (Operation, FockOperationType as FO,
    PolarizationOperationType as PO, CompositeOperationType as CO,
    CustomStateOperationType as CSO)
from photon_weave.photon_weave import Config

POLV = {PolarizationLabel.H: [1, 0], PolarizationLabel.V: [0, 1],
        PolarizationLabel.R: [2**-.5, 1j*2**-.5], PolarizationLabel.L: [2**-.5, -1j*2**-.5]}

def own_rho(s, pad):
    """density matrix of a subsystem holding its own state, padded to `pad` dims"""
    st = s.state
    if isinstance(st, PolarizationLabel):
        v = np.array(POLV[st], dtype=complex); r = np.outer(v, v.conj())
    elif isinstance(st, (int, np.integer)) and not isinstance(st, bool):
        d = max(pad, st + 1, dims_of(s)); v = np.zeros(d, complex); v[st] = 1; r = np.outer(v, v.conj())
    else:
        a = np.asarray(st)
        if a.ndim == 2 and a.shape[1] == 1 and a.shape[0] != 1 or a.shape == (1, 1) and s.expansion_level == EL.Vector:
            v = a[:, 0]; r = np.outer(v, v.conj())
        else:
            r = a
    return r

def blocks(subsystems):
    """partition live subsystems into blocks: list of (kind, [subsystems in tensor order], array, level)"""
    out = []; seen = set()
    for s in subsystems:
        if id(s) in seen or getattr(s, 'measured', False):
            continue
        idx = s.index
        if idx is None:
            out.append(('own', [s], s.state, s.expansion_level)); seen.add(id(s))
        elif isinstance(idx, int):
            e = s.envelope
            order = [None, None]; order[e.fock.index] = e.fock; order[e.polarization.index] = e.polarization
            out.append(('env', order, e.state, e.expansion_level))
            for x in order: seen.add(id(x))
        else:
            ce = s.composite_envelope
            ps = ce.states[idx[0]]
            out.append(('ps', list(ps.state_objs), ps.state, ps.expansion_level))
            for x in ps.state_objs: seen.add(id(x))
    return out

def dims_of(s):
    d = s.dimensions
    if d is None or d < 0:
        d = (s.state + 1) if isinstance(s.state, int) else 1
    return d

def joint(subsystems, pad=None):
    """joint density matrix over `subsystems` (in that order); each padded to pad[s]"""
    live = [s for s in subsystems if not getattr(s, 'measured', False)]
    bl = blocks(live)
    order = []; rho = np.array([[1.0 + 0j]]); dims = []
    for kind, objs, arr, lvl in bl:
        if kind == 'own':
            r = own_rho(objs[0], 0)
            d = [r.shape[0]]
        else:
            a = np.asarray(arr); d = [dims_of(o) for o in objs]
            if a.shape[1] == 1 and a.shape[0] == int(np.prod(d)) and lvl != EL.Matrix:
                r = np.outer(a[:, 0], a[:, 0].conj())
            else:
                r = a
            assert r.shape == (int(np.prod(d)),) * 2, (kind, r.shape, d, lvl)
        rho = np.kron(rho, r); order += objs; dims += d
    # permute into requested order
    n = len(order)
    t = rho.reshape(dims + dims)
    perm = [next(i for i, o in enumerate(order) if o is s) for s in live]
    t = t.transpose(perm + [p + n for p in perm])
    nd = [dims[p] for p in perm]
    D = int(np.prod(nd))
    return t.reshape(D, D), nd, live

def pad_to(rho, dims, newdims):
    n = len(dims)
    t = rho.reshape(dims + dims)
    padw = [(0, nd - d) for d, nd in zip(dims, newdims)] * 2
    assert all(p[1] >= 0 for p in padw)
    t = np.pad(t, padw)
    D = int(np.prod(newdims))
    return t.reshape(D, D)

def same(r1, d1, r2, d2, tol=1e-9):
    nd = [max(a, b) for a, b in zip(d1, d2)]
    a = pad_to(r1, d1, nd); b = pad_to(r2, d2, nd)
    return np.allclose(a, b, atol=tol), np.abs(a - b).max()

def embed(op, k, dims):
    """op on factor k, identity elsewhere"""
    m = np.array([[1.0 + 0j]])
    for i, d in enumerate(dims):
        m = np.kron(m, op if i == k else np.eye(d))
    return m

class Spy:
    """intercept jax.random.choice; optionally force outcomes"""
    def __init__(self, force=None):
        self.ps = []; self.keys = []; self.force = list(force) if force else []
    def __enter__(self):
        self.orig = jax.random.choice
        def spy(key, a, shape=(), replace=True, p=None, axis=0):
            self.ps.append(None if p is None else np.asarray(p)); self.keys.append(np.asarray(jax.random.key_data(key) if hasattr(jax.random,'key_data') else key))
            if self.force:
                k = self.force.pop(0)
                return jnp.asarray(a).reshape(-1)[k] if jnp.asarray(a).ndim else jnp.asarray(k)
            return self.orig(key, a, shape, replace, p, axis)
        jax.random.choice = spy
        return self
    def __exit__(self, *a):
        jax.random.choice = self.orig
