from world import *
import itertools, traceback
C=Config()
np.random.seed(0)

def mk(loc, level, prep):
    """build env (fock,pol) + second env + custom; put target in location; return dict"""
    e=Envelope(); e2=Envelope(); cs=CustomState(3)
    ce=None
    prep(e,e2,cs)
    if loc=='own':
        pass
    elif loc=='own_in_ce':
        ce=CompositeEnvelope(e,e2,cs)
    elif loc=='env':
        e.combine()
    elif loc=='env_in_ce':
        e.combine(); ce=CompositeEnvelope(e,e2,cs)
    elif loc=='ps':
        ce=CompositeEnvelope(e,e2,cs); ce.combine(e.fock,e.polarization,cs)
    elif loc=='ps2':
        ce=CompositeEnvelope(e,e2,cs); ce.combine(cs,e.polarization); ce.combine(e2.fock,e.fock)
    return e,e2,cs,ce

def set_level(obj, level):
    # obj: state / envelope
    for _ in range(3):
        if obj.expansion_level is not None and obj.expansion_level < level:
            obj.expand()

def run(name, target_of, op_factory, ref_op, prep, renorm=True):
    res={}
    for contr in (True,False):
      for loc in ['own','own_in_ce','env','env_in_ce','ps','ps2']:
        for level in (EL.Label,EL.Vector,EL.Matrix):
          for entry in ('state','env','ce'):
            C.set_contraction(contr)
            try:
                e,e2,cs,ce=mk(loc,level,prep)
            except Exception as ex:
                res[(contr,loc,level.name,entry)]='SETUP-'+type(ex).__name__; continue
            subs=[e.fock,e.polarization,e2.fock,e2.polarization,cs]
            t=target_of(e,e2,cs)
            if entry=='env' and isinstance(t,CustomState): continue
            if entry=='ce' and ce is None: continue
            try:
                # raise level of the block holding target
                if loc in('own','own_in_ce'): set_level(t,level)
                elif loc in ('env','env_in_ce'): set_level(e,level)
                else:
                    if level==EL.Matrix: ce.expand(t)
                    if level==EL.Label: continue
                r0,d0,_=joint(subs)
            except Exception as ex:
                res[(contr,loc,level.name,entry)]='PRE-'+type(ex).__name__+':'+str(ex)[:40]; continue
            try:
                op=op_factory()
                if entry=='state': t.apply_operation(op)
                elif entry=='env': t.envelope.apply_operation(op,t)
                else: ce.apply_operation(op,t)
                r1,d1,_=joint(subs)
            except Exception as ex:
                res[(contr,loc,level.name,entry)]='EXC-'+type(ex).__name__+':'+str(ex)[:50]; continue
            k=subs.index(t)
            # reference in max dims
            nd=[max(a,b) for a,b in zip(d0,d1)]
            R0=pad_to(r0,d0,nd)
            O=embed(ref_op(nd[k]),k,nd)
            R=O@R0@O.conj().T
            if renorm: R=R/np.trace(R)
            R1=pad_to(r1,d1,nd)
            ok=np.allclose(R,R1,atol=1e-6)
            tr=np.trace(R1).real
            res[(contr,loc,level.name,entry)]='ok' if ok else f'WRONG(tr={tr:.3f},err={np.abs(R-R1).max():.2e})'
    print("=====",name)
    from collections import Counter
    print(Counter(v.split('(')[0].split(':')[0] for v in res.values()))
    for k,v in res.items():
        if v!='ok': print("  ",k,v)

def prep_super(e,e2,cs):
    # put things in non-trivial states using own-state ops at label level (fresh objects)
    e.fock.state=1
    e2.fock.state=2
def prep_plain(e,e2,cs):
    pass

X=np.array([[0,1],[1,0]],complex)
th=0.7
RX=np.array([[np.cos(th/2),-1j*np.sin(th/2)],[-1j*np.sin(th/2),np.cos(th/2)]])
run("pol X", lambda e,e2,cs:e.polarization, lambda:Operation(PO.X), lambda d:X, prep_super)
run("pol RX", lambda e,e2,cs:e.polarization, lambda:Operation(PO.RX,theta=th), lambda d:RX, prep_super)
def cre(d):
    m=np.zeros((d,d),complex)
    for n in range(d-1): m[n+1,n]=np.sqrt(n+1)
    return m
run("fock Creation", lambda e,e2,cs:e.fock, lambda:Operation(FO.Creation), cre, prep_super)
run("fock Annihilation", lambda e,e2,cs:e.fock, lambda:Operation(FO.Annihilation), lambda d:cre(d).T, prep_super)
ph=0.9
run("fock Phase", lambda e,e2,cs:e.fock, lambda:Operation(FO.PhaseShift,phi=ph), lambda d:np.diag(np.exp(1j*ph*np.arange(d))), prep_super, renorm=False)
M=np.array([[0,0,0],[1,0,0],[0,1,0]],complex)
run("custom shift", lambda e,e2,cs:cs, lambda:Operation(CSO.Custom,operator=jnp.array(M)), lambda d:M, prep_super)
