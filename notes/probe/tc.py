import ast, sys, glob
for fn in sorted(glob.glob('/repo/photon_weave/**/*.py', recursive=True)):
    src=open(fn).read(); tree=ast.parse(src)
    tc=set(); top=set()
    for node in tree.body:
        if isinstance(node, ast.If) and 'TYPE_CHECKING' in ast.dump(node.test):
            for n in ast.walk(node):
                if isinstance(n,(ast.ImportFrom,ast.Import)):
                    for a in n.names: tc.add(a.asname or a.name.split('.')[0])
        elif isinstance(node,(ast.ImportFrom,ast.Import)):
            for a in node.names: top.add(a.asname or a.name.split('.')[0])
    tc-=top
    if not tc: continue
    for f in ast.walk(tree):
        if isinstance(f,(ast.FunctionDef,)):
            local=set()
            for n in ast.walk(f):
                if isinstance(n,(ast.ImportFrom,ast.Import)):
                    for a in n.names: local.add(a.asname or a.name.split('.')[0])
            # collect Name loads not in annotations
            ann=set()
            for n in ast.walk(f):
                if isinstance(n, ast.arg) and n.annotation is not None:
                    for m in ast.walk(n.annotation): ann.add(id(m))
                if isinstance(n, ast.AnnAssign):
                    for m in ast.walk(n.annotation): ann.add(id(m))
            if f.returns is not None:
                for m in ast.walk(f.returns): ann.add(id(m))
            for n in ast.walk(f):
                if isinstance(n, ast.Name) and isinstance(n.ctx, ast.Load) and n.id in tc and n.id not in local and id(n) not in ann:
                    print(f"{fn.split('photon_weave/',1)[1]}:{n.lineno} in {f.name}: {n.id}")
