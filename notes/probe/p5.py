from world import *
import math
C=Config()
def show(title, f):
    try:
        r=f(); print("OK  ", title, "->", r)
    except Exception as e:
        import traceback
        tb=[t for t in traceback.extract_tb(e.__traceback__) if 'photon_weave' in t.filename]
        loc=f"{tb[-1].filename.split('/')[-1]}:{tb[-1].lineno}" if tb else ''
        print("EXC ", title, "->", type(e).__name__, str(e)[:100], loc)
def disp(alpha, n0=0):
    f=Fock(); f.state=n0
    f.apply_operation(Operation(FO.Displace, alpha=alpha))
    v=np.asarray(f.state)[:,0]
    d=f.dimensions
    # closed form for vacuum
    if n0==0:
        cf=np.array([np.exp(-abs(alpha)**2/2)*alpha**n/math.sqrt(math.factorial(n)) for n in range(d)])
        return d, float(np.abs(v-cf).max()), float(np.linalg.norm(v)), float(1-np.sum(np.abs(cf)**2))
    return d, float(np.linalg.norm(v))
for a in (1.0, 2.0, -1.0, -2.0, 1j, 2j, 1+1j, 0.1, 3.0, -3.0):
    show(f"displace alpha={a}", lambda: disp(a))
def sq(z):
    f=Fock()
    f.apply_operation(Operation(FO.Squeeze, zeta=z))
    v=np.asarray(f.state)[:,0]; d=f.dimensions
    r=abs(z); ph=np.angle(z)
    cf=np.zeros(d,complex)
    for m in range((d+1)//2):
        if 2*m<d: cf[2*m]=(1/np.sqrt(np.cosh(r)))*((-np.exp(1j*ph)*np.tanh(r))**m)*math.sqrt(math.factorial(2*m))/(2**m*math.factorial(m))
    return d, float(np.abs(v-cf).max()), float(np.linalg.norm(v)), float(1-np.sum(np.abs(cf)**2))
for z in (0.3, 0.5, -0.5, 0.5j, 1.0, -1.0, 1j):
    show(f"squeeze zeta={z}", lambda: sq(z))
# resize matrix shrink silently truncating
def rz():
    f=Fock(); f.state=3; f.expand(); f.expand()
    ok=f.resize(2)
    return ok, f.dimensions, np.asarray(f.state)
show("fock matrix shrink below support", rz)
def rz2():
    f=Fock(); f.state=3; f.expand()
    return f.resize(3), f.dimensions, f.resize(4), f.dimensions
show("fock vector shrink boundary", rz2)
def rz3():
    f=Fock(); f.state=3
    return f.resize(3), f.dimensions, f.resize(4), f.dimensions
show("fock label shrink", rz3)
